import SkopsModel.Base.Str
