import SkopsModel.Base.Str
/-!
# `split_subsection_names` (skops/card/_model_card.py)

```python
parts = (part.strip() for part in re.split(r"(?<!\\)/", key))
return [part.replace("\\/", "/") for part in parts]
```
`splitImpl` mirrors that code; `splitSpec` is the property's own wording (C09): a path splits on
unescaped '/', parts are stripped and '\/' yields a literal slash.
-/
namespace Skops.Card

/-- `re.split(r"(?<!\\)/", key)`: cut at every '/' whose predecessor is not a backslash.
`pb` = "the previous character was a backslash".  Returns (first part, remaining parts). -/
def splitUnescAux : Bool → List Char → List Char × List (List Char)
  | _, [] => ([], [])
  | pb, c :: cs =>
    if c = '/' && !pb then
      let r := splitUnescAux false cs
      ([], r.1 :: r.2)
    else
      let r := splitUnescAux (c = '\\') cs
      (c :: r.1, r.2)

def splitUnesc (key : List Char) : List (List Char) :=
  let r := splitUnescAux false key
  r.1 :: r.2

/-- `part.replace("\\/", "/")` -/
def unescape : List Char → List Char
  | '\\' :: '/' :: rest => '/' :: unescape rest
  | c :: rest => c :: unescape rest
  | [] => []

/-- the implementation, on code-point lists -/
def splitImpl (key : List Char) : List (List Char) :=
  (splitUnesc key).map fun p => unescape (strip p)

/-- on strings (what `Card` uses) -/
def split (key : String) : List String := (splitImpl key.toList).map String.ofList

/-! ## Specification in the property's words -/

inductive Tok
  | ch (c : Char)   -- an ordinary character
  | lit             -- `\/` : a literal slash
  | sep             -- a bare `/` : separator
deriving DecidableEq, Repr

def tokenize : List Char → List Tok
  | '\\' :: '/' :: rest => .lit :: tokenize rest
  | '/' :: rest => .sep :: tokenize rest
  | c :: rest => .ch c :: tokenize rest
  | [] => []

/-- split the token stream at separators; returns (first part, remaining parts) -/
def splitToksAux : List Tok → List Tok × List (List Tok)
  | [] => ([], [])
  | .sep :: rest => let r := splitToksAux rest; ([], r.1 :: r.2)
  | t :: rest => let r := splitToksAux rest; (t :: r.1, r.2)

def splitToks (ts : List Tok) : List (List Tok) := let r := splitToksAux ts; r.1 :: r.2

def tokSpace : Tok → Bool
  | .ch c => pySpace c
  | _ => false

def renderTok : Tok → Char
  | .ch c => c
  | .lit => '/'
  | .sep => '/'

def splitSpec (key : List Char) : List (List Char) :=
  (splitToks (tokenize key)).map fun p => (stripBy tokSpace p).map renderTok

end Skops.Card
