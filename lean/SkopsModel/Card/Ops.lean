import SkopsModel.Card.Path
import SkopsModel.Card.Render
/-!
# Card operations as a state machine: `step : Card → Op → Card × Out`

Mirrors `Card.add/_add_single/select/delete/add_plot/add_table/add_metrics/add_hyperparams`,
`Section.select`, attribute assignment on a selected section, `render/get_toc/save`.
-/
namespace Skops.Card

structure Card where
  data : Forest := .nil
  metrics : List (String × String) := []      -- `Card._metrics`, insertion ordered
deriving DecidableEq, Repr

inductive Err | keyError | valueError | typeError
deriving DecidableEq, Repr

inductive Out
  | ok
  | err (e : Err)
  | text (s : String)
  | sec (s : Sec) (keys : List String)
deriving DecidableEq, Repr

inductive Op
  | add (folded : Bool) (items : List (String × String))
  | addPlot (desc alt : Option String) (folded : Bool) (items : List (String × String))
  | addTable (desc : Option String) (folded : Bool) (items : List (String × Table))
  | addMetrics (sect : String) (desc : Option String) (items : List (String × String))
  | addHyperparams (sect : String) (desc : Option String) (params : List (String × String))
  | select (key : String)
  | selectChain (key : String) (more : List String)
  | delete (key : String)
  | deleteList (names : List String)
  | setVisible (key : String) (b : Bool)
  | setFolded (key : String) (b : Bool)
  | render | toc | save
deriving Repr

/-- `*subsection_names, leaf_node_name = split_subsection_names(key)` -/
def splitLast : List String → List String × String
  | [] => ([], "")                      -- unreachable: `split` never returns `[]`
  | [x] => ([], x)
  | x :: xs => let r := splitLast xs; (x :: r.1, r.2)

def keyPath (key : String) : List String × String := splitLast (split key)

/-- `description or ""` / `alt_text or title` -/
def orElse (o : Option String) (d : String) : String :=
  match o with
  | some s => if s = "" then d else s
  | none => d

/-- `Card._add_single(key, section)` -/
def addSingle (f : Forest) (key : String) (s : Sec) : Forest :=
  let p := keyPath key
  f.addAt p.1 p.2 s

/-- `dict.update` on an insertion-ordered dict -/
def assocSet : List (String × String) → String → String → List (String × String)
  | [], k, v => [(k, v)]
  | (k', v') :: rest, k, v => if k' = k then (k', v) :: rest else (k', v') :: assocSet rest k v

def assocUpdate (m : List (String × String)) (items : List (String × String)) : List (String × String) :=
  items.foldl (fun m kv => assocSet m kv.1 kv.2) m

/-- the table `_add_metrics` builds: `{"Metric": names, "Value": values}` -/
def metricsTable (m : List (String × String)) : Table :=
  [("Metric", m.map (·.1)), ("Value", m.map (·.2))]

/-- one table of `add_table`; `ncols == 0` raises `ValueError` in `TableSection.__post_init__` -/
def addTable1 (desc : String) (folded : Bool) (f : Forest) (key : String) (t : Table) : Except Err Forest :=
  if t.isEmpty then .error .valueError
  else .ok (addSingle f key { title := (keyPath key).2, body := .table desc t, folded := folded })

/-- one plot of `add_plot`; an empty path raises `TypeError` in `PlotSection.__post_init__` -/
def addPlot1 (desc : String) (alt : Option String) (folded : Bool) (f : Forest) (key path : String) :
    Except Err Forest :=
  let title := (keyPath key).2
  if path = "" then .error .typeError
  else .ok (addSingle f key { title := title, body := .plot desc (orElse alt title) path, folded := folded })

/-- a Python `for` loop over items whose body may raise: items processed so far stay applied -/
def loopE {α} (body : Forest → α → Except Err Forest) : Forest → List α → Forest × Out
  | f, [] => (f, .ok)
  | f, x :: xs =>
    match body f x with
    | .ok f' => loopE body f' xs
    | .error e => (f, .err e)

/-- `Section.select(key)` on the subsection forest of a section -/
def sectionSelect (children : Forest) (key : String) : Except Err (Sec × Forest) :=
  let names := split key
  if names.any (· = "") then .error .keyError
  else
    let p := splitLast names
    match children.selectAt p.1 p.2 with
    | some r => .ok r
    | none => .error .keyError

/-- `Card.select(key)` -/
def cardSelect (f : Forest) (key : String) : Except Err (Sec × Forest) :=
  if key = "" then .error .keyError
  else
    let p := keyPath key
    if p.2 = "" then .error .keyError
    else match f.selectAt p.1 p.2 with
      | some r => .ok r
      | none => .error .keyError

def chainSelect : Sec × Forest → List String → Except Err (Sec × Forest)
  | r, [] => .ok r
  | r, k :: ks =>
    match sectionSelect r.2 k with
    | .ok r' => chainSelect r' ks
    | .error e => .error e

/-- `Card.delete(key)` for a string key -/
def cardDelete (f : Forest) (key : String) : Except Err Forest :=
  if key = "" then .error .keyError
  else
    let p := keyPath key
    if p.2 = "" then .error .keyError
    else match f.deleteAt p.1 p.2 with
      | some f' => .ok f'
      | none => .error .keyError

/-- `Card.delete(names)` for a non-string sequence -/
def cardDeleteList (f : Forest) (names : List String) : Except Err Forest :=
  if names.isEmpty then .error .keyError
  else
    let p := splitLast names
    if p.2 = "" then .error .keyError
    else match f.deleteAt p.1 p.2 with
      | some f' => .ok f'
      | none => .error .keyError

/-- `card.select(key).<attr> = value` -/
def cardModify (g : Sec → Sec) (f : Forest) (key : String) : Except Err Forest :=
  match cardSelect f key with
  | .error e => .error e
  | .ok _ =>
    let p := keyPath key
    match f.modifyAt g p.1 p.2 with
    | some f' => .ok f'
    | none => .error .keyError

def outOfSel : Except Err (Sec × Forest) → Out
  | .ok (s, ch) => .sec s ch.keys
  | .error e => .err e

def step (c : Card) : Op → Card × Out
  | .add folded items =>
    ({ c with data := items.foldl (fun f kv =>
        addSingle f kv.1 { title := (keyPath kv.1).2, body := .text kv.2, folded := folded }) c.data }, .ok)
  | .addPlot desc alt folded items =>
    let r := loopE (fun f kv => addPlot1 (orElse desc "") alt folded f kv.1 kv.2) c.data items
    ({ c with data := r.1 }, r.2)
  | .addTable desc folded items =>
    let r := loopE (fun f kv => addTable1 (orElse desc "") folded f kv.1 kv.2) c.data items
    ({ c with data := r.1 }, r.2)
  | .addMetrics sect desc items =>
    let m := assocUpdate c.metrics items
    ({ data := addSingle c.data sect
          { title := (keyPath sect).2, body := .table (orElse desc "") (metricsTable m) },
       metrics := m }, .ok)
  | .addHyperparams sect desc params =>
    let tbl : Table := [("Hyperparameter", params.map (·.1)), ("Value", params.map (·.2))]
    let s : Sec := { title := (keyPath sect).2, body := .table (orElse desc "") tbl, folded := true }
    ({ c with data := addSingle c.data sect s }, .ok)
  | .select key => (c, outOfSel (cardSelect c.data key))
  | .selectChain key more =>
    (c, outOfSel (match cardSelect c.data key with
                  | .ok r => chainSelect r more
                  | .error e => .error e))
  | .delete key =>
    match cardDelete c.data key with
    | .ok f => ({ c with data := f }, .ok)
    | .error e => (c, .err e)
  | .deleteList names =>
    match cardDeleteList c.data names with
    | .ok f => ({ c with data := f }, .ok)
    | .error e => (c, .err e)
  | .setVisible key b =>
    match cardModify (fun s => { s with visible := b }) c.data key with
    | .ok f => ({ c with data := f }, .ok)
    | .error e => (c, .err e)
  | .setFolded key b =>
    match cardModify (fun s => { s with folded := b }) c.data key with
    | .ok f => ({ c with data := f }, .ok)
    | .error e => (c, .err e)
  | .render => (c, .text (render c.data))
  | .toc => (c, .text (toc c.data))
  | .save => (c, .text (render c.data))

def run (c : Card) (ops : List Op) : Card := ops.foldl (fun c op => (step c op).1) c

end Skops.Card
