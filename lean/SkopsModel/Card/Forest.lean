import SkopsModel.Base.Str
/-!
# The section tree of a model card

`Card._data : dict[str, Section]`, each `Section` holding `subsections : dict[str, Section]`.
An insertion-ordered dict of sections is modelled as a first-child / next-sibling forest:
`cons key sec children rest`.  Keys are the dict keys; `sec.title` is the `title` attribute
(they differ only if a caller changes `title` afterwards).
-/
namespace Skops.Card

/-- a table handed to `TableSection`: column name ↦ `str(value)` of each cell -/
abbrev Table := List (String × List String)

inductive Body
  | text (content : String)                                  -- `Section`
  | plot (content : String) (alt : String) (path : String)   -- `PlotSection`
  | table (content : String) (cols : Table)                  -- `TableSection`
deriving DecidableEq, Repr

structure Sec where
  title : String
  body : Body
  visible : Bool := true
  folded : Bool := false
deriving DecidableEq, Repr

inductive Forest
  | nil
  | cons (key : String) (sec : Sec) (children : Forest) (rest : Forest)
deriving DecidableEq, Repr

namespace Forest

/-- `d.get(key)` → (section, its subsections) -/
def get? : Forest → String → Option (Sec × Forest)
  | nil, _ => none
  | cons k s ch rest, x => if k = x then some (s, ch) else get? rest x

/-- `list(d.keys())` -/
def keys : Forest → List String
  | nil => []
  | cons k _ _ rest => k :: keys rest

/-- `Card._select(names, create=False)`: the subsection dict reached, `none` = `KeyError` -/
def descend : Forest → List String → Option Forest
  | f, [] => some f
  | f, n :: ns =>
    match f.get? n with
    | some (_, ch) => descend ch ns
    | none => none

/-- `d[key] = new` where an existing entry keeps its position and (as `_add_single` arranges)
its subsections; a new entry goes to the end with no subsections. -/
def setLeaf : Forest → String → Sec → Forest
  | nil, k, s => cons k s nil nil
  | cons k' s' ch rest, k, s =>
    if k' = k then cons k' s ch rest else cons k' s' ch (setLeaf rest k s)

/-- the section `_select(create=True)` creates for a missing path element -/
def emptySec (name : String) : Sec := { title := name, body := .text "" }

/-- `_add_single` into an empty dict: every path element is created -/
def chain : List String → String → Sec → Forest
  | [], leaf, s => cons leaf s nil nil
  | n :: ns, leaf, s => cons n (emptySec n) (chain ns leaf s) nil

/-- `_add_single` after splitting: `_select(names, create=True)` then the assignment -/
def addAt : Forest → List String → String → Sec → Forest
  | f, [], leaf, s => setLeaf f leaf s
  | nil, n :: ns, leaf, s => chain (n :: ns) leaf s
  | cons k s' ch rest, n :: ns, leaf, s =>
    if k = n then cons k s' (addAt ch ns leaf s) rest
    else cons k s' ch (addAt rest (n :: ns) leaf s)

/-- `del d[key]`; `none` = `KeyError` -/
def erase : Forest → String → Option Forest
  | nil, _ => none
  | cons k s ch rest, x =>
    if k = x then some rest
    else match erase rest x with
      | some r => some (cons k s ch r)
      | none => none

/-- apply `g` to the subsection dict reached by `names` (no creation); `none` = `KeyError` -/
def updateAt (g : Forest → Option Forest) : Forest → List String → Option Forest
  | f, [] => g f
  | nil, _ :: _ => none
  | cons k s ch rest, n :: ns =>
    if k = n then
      match updateAt g ch ns with
      | some ch' => some (cons k s ch' rest)
      | none => none
    else
      match updateAt g rest (n :: ns) with
      | some r => some (cons k s ch r)
      | none => none

/-- `Card.delete` after splitting -/
def deleteAt (f : Forest) (names : List String) (leaf : String) : Option Forest :=
  updateAt (fun d => d.erase leaf) f names

/-- replace the data of an existing entry, keeping position and children (attribute assignment on
the object returned by `select`) -/
def modifyLeaf (g : Sec → Sec) : Forest → String → Option Forest
  | nil, _ => none
  | cons k s ch rest, x =>
    if k = x then some (cons k (g s) ch rest)
    else match modifyLeaf g rest x with
      | some r => some (cons k s ch r)
      | none => none

def modifyAt (g : Sec → Sec) (f : Forest) (names : List String) (leaf : String) : Option Forest :=
  updateAt (fun d => d.modifyLeaf g leaf) f names

/-- `Card.select` after splitting and the emptiness checks -/
def selectAt (f : Forest) (names : List String) (leaf : String) : Option (Sec × Forest) :=
  match f.descend names with
  | some d => d.get? leaf
  | none => none

theorem addAt_nil (p : List String) (leaf : String) (s : Sec) : addAt nil p leaf s = chain p leaf s := by
  cases p <;> simp [addAt, setLeaf, chain]

@[simp] theorem addAt_nil_cons (n : String) (ns : List String) (leaf : String) (s : Sec) :
    addAt nil (n :: ns) leaf s = cons n (emptySec n) (addAt nil ns leaf s) nil := by
  simp [addAt, chain, addAt_nil]

end Forest
end Skops.Card
