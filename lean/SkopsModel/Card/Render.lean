import SkopsModel.Card.Forest
/-!
# Rendering: `Section.format`, `Card._generate_content`, `render`, `save`, `get_toc`
-/
namespace Skops.Card

/-- `wrap_as_details` -/
def wrapDetails (text : String) (folded : Bool) : String :=
  if folded then "<details>\n<summary> Click to expand </summary>\n\n" ++ text ++ "\n\n</details>"
  else text

/-- The layout function of the third-party table library (PrettyTable, markdown style) is opaque:
the harness replaces it by a recording stand-in that emits exactly this token for the sequence of
`add_column(key, values)` calls it received, so what is compared is the structured argument. -/
def tableToken (cols : List (String × List String)) : String :=
  "⟦TABLE" ++ String.join (cols.map fun (k, vs) =>
      "⟦" ++ k ++ String.join (vs.map fun v => "∥" ++ v) ++ "⟧") ++ "⟧"

/-- `str(value).replace("\n", "<br />").replace("|", "\\|")` -/
def cellText (v : String) : String := sReplaceChar '|' "\\|" (sReplaceChar '\n' "<br />" v)

/-- applied to every cell (`str` already applied by the caller); column names only get the
`|` escape -/
def tableCells (cols : Table) : List (String × List String) :=
  cols.map fun (k, vs) => (sReplaceChar '|' "\\|" k, vs.map cellText)

/-- `{content}\n\n{val}` when there is a description -/
def withDescription (content val : String) : String :=
  if content = "" then val else content ++ "\n\n" ++ val

/-- `Section.format` / `PlotSection.format` / `TableSection.format` -/
def Sec.format (s : Sec) : String :=
  match s.body with
  | .text c => wrapDetails c s.folded
  | .plot c alt path =>
    let alt' := if alt = "" then path else alt
    withDescription c (wrapDetails ("![" ++ alt' ++ "](" ++ path ++ ")") s.folded)
  | .table c cols => withDescription c (wrapDetails (tableToken (tableCells cols)) s.folded)

/-- the `content` attribute -/
def Sec.content (s : Sec) : String :=
  match s.body with
  | .text c => c
  | .plot c _ _ => c
  | .table c _ => c

def heading (depth : Nat) (title : String) : String := repeatStr depth "#" ++ " " ++ title

/-- `Card._generate_content` (the yielded strings, in order) -/
def renderLines (depth : Nat) : Forest → List String
  | .nil => []
  | .cons _ s ch rest =>
    (if s.visible then
        heading depth s.title :: s.format :: (if s.folded then [] else renderLines (depth + 1) ch)
      else []) ++ renderLines depth rest

/-- `Card._generate_card`: non-empty lines prefixed by a newline, then an empty string -/
def cardLines (f : Forest) : List String :=
  ((renderLines 1 f).filter (· ≠ "")).map ("\n" ++ ·) ++ [""]

/-- `Card.render` -/
def render (f : Forest) : String := sJoin "\n" (cardLines f)

/-- `Card.save` writes `render` encoded as UTF-8 -/
def savedBytes (f : Forest) : ByteArray := (render f).toUTF8

/-- `Card._iterate_key_section_content`: (title, level) pairs -/
def tocEntries (level : Nat) : Forest → List (String × Nat)
  | .nil => []
  | .cons _ s ch rest =>
    (if s.visible then
        (s.title, level) :: (if s.folded then [] else tocEntries (level + 1) ch)
      else []) ++ tocEntries level rest

/-- `Card.get_toc` -/
def toc (f : Forest) : String :=
  sJoin "\n" ((tocEntries 0 f).map fun (t, l) => repeatStr l "  " ++ "- " ++ t)

end Skops.Card
