import SkopsModel.Io.Load
import SkopsModel.Lemmas.IoAudit
import SkopsModel.Lemmas.GetTreeInv
import SkopsModel.Lemmas.SortDedup
import SkopsModel.Generated.Specs
import SkopsModel.Generated.Facts
/-!
# C01 — Loading never uses code or objects the caller did not vouch for
-/
namespace Skops.Properties.C01
open Skops Skops.Io

/-- **generated side-condition** (re-checked against the source on every run): for every registered
loader, `__init__` is inert, the trust list is caller-plus-defaults, and every name `_construct`
resolves is the node's own audited name, the audited name of its synthetic constructor child, a
fixed documented constructor, or a class looked up in a guarded module; every child it constructs
is walked by the audit; nothing is unclassified. -/
theorem table_vouched : Generated.table.Vouched = true := by decide

/-- generated flow facts used here -/
theorem flow_facts :
    Generated.facts.loadOrder = true ∧ Generated.facts.loadsOrder = true ∧
    Generated.facts.npLoadNoPickle = true ∧ Generated.facts.importObjIsGetattrOfImport = true ∧
    Generated.facts.checkTypeIsMembership = true ∧ Generated.facts.gettypeIsImportObj = true ∧
    Generated.facts.baseNodeMethodsAsModelled = true := by decide

variable (tbl : Table)

theorem defaults_in_all (kind : Nat) : ∀ x ∈ (tbl.kind kind).defaults, x ∈ tbl.allDefaults := by
  intro x hx
  unfold Table.kind at hx
  by_cases hlt : kind < tbl.kinds.length
  · simp only [List.getD_eq_getElem?_getD, List.getElem?_eq_getElem hlt, Option.getD_some] at hx
    simp only [Table.allDefaults, List.mem_flatten, List.mem_map]
    exact ⟨_, ⟨tbl.kinds[kind], List.getElem_mem hlt, rfl⟩, List.mem_append_left _ hx⟩
  · have : tbl.kinds[kind]? = none := List.getElem?_eq_none (by omega)
    simp [List.getD_eq_getElem?_getD, this] at hx

theorem find_go_mem (loader : String) (proto : Nat) :
    ∀ (ks : List KindSpec) (i : Nat) (r : Nat × KindSpec), Table.find?.go loader proto i ks = some r → r.2 ∈ ks
  | [], _, _, h => by simp [Table.find?.go] at h
  | k :: ks, i, r, h => by
    simp only [Table.find?.go] at h
    split at h
    · simp only [Option.some.injEq] at h; subst h; simp
    · exact List.mem_cons_of_mem _ (find_go_mem loader proto ks (i + 1) r h)

theorem typeDefaults_in_all : ∀ x ∈ typeNodeDefaults tbl, x ∈ tbl.allDefaults := by
  intro x hx
  simp only [typeNodeDefaults] at hx
  cases hf : tbl.find? "TypeNode" tbl.protocol with
  | none => simp [hf] at hx
  | some r =>
    simp only [hf] at hx
    have hm := find_go_mem "TypeNode" tbl.protocol tbl.kinds 0 r (by simpa [Table.find?] using hf)
    simp only [Table.allDefaults, List.mem_flatten, List.mem_map]
    exact ⟨_, ⟨r.2, hm, rfl⟩, List.mem_append_left _ hx⟩

/-- **the central theorem** — for every table satisfying the side-condition, every node tree (any
kinds in any slots, any nesting, shared and cyclic references unfolded), and every trusted list `T`:
if the audit finds nothing, then every name-resolution that `construct` performs is of a name that
is in `T`, or among the names trusted by default, or a fixed documented constructor; a class named
by archive data is only looked up in a module where the loader checks the documented base class.
The name that was audited is the name that is resolved. -/
theorem audit_passed_only_vouched (hv : tbl.Vouched = true) (root : Node) (T : List String)
    (hs : root.Safe tbl T) (hx : root.ExtrasIn tbl.allDefaults) :
    ∀ e ∈ traceOf tbl root, EventOK T tbl.allDefaults e := by
  intro e he
  exact node_trace_ok tbl T tbl.allDefaults hv (defaults_in_all tbl) (typeDefaults_in_all tbl) root hs hx {}
    (by intro e he; cases he) e he

/-- **with `CachedNode` references**: `load` succeeded, and whatever the references point at was audited where it
sits in the tree (`RefsAudited`, the memo invariant — evaluated by the driver on every tree `getTree` builds, as
`refsAuditedB`); then every resolution `construct` performs is vouched for -/
theorem load_only_vouched_refs (hv : tbl.Vouched = true) (root : Node) (T : List String)
    (hra : root.RefsAudited tbl T) (hx : root.ExtrasIn tbl.allDefaults) (ev : List Event)
    (hload : loadTree tbl root T = .constructed ev) :
    ∀ e ∈ ev, EventOK T tbl.allDefaults e := by
  simp only [loadTree] at hload
  cases hu : root.unsafe tbl T with
  | none => simp [hu] at hload
  | some l =>
    simp only [hu] at hload
    split at hload
    · rename_i hemp
      cases hload
      have hl : l = [] := by
        have h1 : sortDedup l = [] := by simpa using hemp
        cases l with
        | nil => rfl
        | cons a b =>
          have : a ∈ sortDedup (a :: b) := (Skops.Io.mem_sortDedup a (a :: b)).mpr (by simp)
          rw [h1] at this; cases this
      subst hl
      exact audit_passed_only_vouched tbl hv root T (node_safe_of_unsafe_nil' tbl T root hra hu) hx
    · cases hload

/-- the computable form of the invariant suffices -/
theorem load_only_vouched_refsB (hv : tbl.Vouched = true) (root : Node) (T : List String)
    (hra : root.refsAuditedB tbl T = true) (hx : root.ExtrasIn tbl.allDefaults) (ev : List Event)
    (hload : loadTree tbl root T = .constructed ev) :
    ∀ e ∈ ev, EventOK T tbl.allDefaults e :=
  load_only_vouched_refs tbl hv root T (node_refsAudited_of_B tbl T root hra) hx ev hload

/-- for archives without `CachedNode` references the hypothesis `Safe` is exactly "the audit returned
the empty set" -/
theorem load_only_vouched (hv : tbl.Vouched = true) (root : Node) (T : List String)
    (hnr : root.NoRefs) (hx : root.ExtrasIn tbl.allDefaults) (ev : List Event)
    (hload : loadTree tbl root T = .constructed ev) :
    ∀ e ∈ ev, EventOK T tbl.allDefaults e := by
  simp only [loadTree] at hload
  cases hu : root.unsafe tbl T with
  | none => simp [hu] at hload
  | some l =>
    simp only [hu] at hload
    split at hload
    · rename_i hemp
      cases hload
      have hl : l = [] := by
        have h1 : sortDedup l = [] := by simpa using hemp
        cases l with
        | nil => rfl
        | cons a b =>
          have : a ∈ sortDedup (a :: b) := (Skops.Io.mem_sortDedup a (a :: b)).mpr (by simp)
          rw [h1] at this; cases this
      subst hl
      exact audit_passed_only_vouched tbl hv root T (node_safe_of_unsafe_nil tbl T root hnr hu) hx
    · cases hload

/-- when the audit blocks, nothing is constructed: no event at all -/
theorem untrusted_no_events (root : Node) (T : List String) (names : List String)
    (h : loadTree tbl root T = .untrusted names) : ∀ ev, loadTree tbl root T ≠ .constructed ev := by
  intro ev hc; rw [h] at hc; cases hc

/-- instantiation on the table generated from the current source -/
theorem C01_current (root : Node) (T : List String) (hnr : root.NoRefs)
    (hx : root.ExtrasIn Generated.table.allDefaults) (ev : List Event)
    (hload : loadTree Generated.table root T = .constructed ev) :
    ∀ e ∈ ev, EventOK T Generated.table.allDefaults e :=
  load_only_vouched Generated.table table_vouched root T hnr hx ev hload

/-- generated side-condition for the memo invariant: the loaders that look their node up in the memo (`CachedNode`)
neither memoize themselves nor build children -/
theorem table_ref_kinds_inert : Generated.table.RefKindsInert = true := by decide

/-- **C01 for every archive**: whatever JSON `schema.json` holds — any kinds in any slots, any nesting, repeated,
cross-wired or cyclic ids, wrong value types — and whatever the members and the trusted list are: if `load`
goes through, every name resolution that `construct` performs is of a name in `T`, a default-trusted name or a
fixed documented constructor.  No hypothesis about the tree is left: the memo invariant (`getTreeRoot_good`) is
proved for `getTree` itself. -/
theorem load_archive_only_vouched (hv : tbl.Vouched = true) (hr : tbl.RefKindsInert = true)
    (schema : J) (members : List String) (fuel : Nat) (T : List String) (ev : List Event)
    (hload : load tbl schema members fuel T = .constructed ev) :
    ∀ e ∈ ev, EventOK T tbl.allDefaults e := by
  unfold load at hload
  split at hload
  · cases hload
  · rename_i root hroot
    obtain ⟨hnt, hx⟩ := getTreeRoot_good tbl hr schema members fuel root hroot
    exact load_only_vouched_refs tbl hv root T (node_refsAudited_of_noTo tbl T root hnt) hx ev hload

/-- … instantiated on the tables regenerated from the current source -/
theorem C01_archive_current (schema : J) (members : List String) (fuel : Nat) (T : List String) (ev : List Event)
    (hload : load Generated.table schema members fuel T = .constructed ev) :
    ∀ e ∈ ev, EventOK T Generated.table.allDefaults e :=
  load_archive_only_vouched Generated.table table_vouched table_ref_kinds_inert schema members fuel T ev hload

/-- … and for trees with references, under the invariant the driver checks on each of them -/
theorem C01_current_refs (root : Node) (T : List String) (hra : root.refsAuditedB Generated.table T = true)
    (hx : root.ExtrasIn Generated.table.allDefaults) (ev : List Event)
    (hload : loadTree Generated.table root T = .constructed ev) :
    ∀ e ∈ ev, EventOK T Generated.table.allDefaults e :=
  load_only_vouched_refsB Generated.table table_vouched root T hra hx ev hload

end Skops.Properties.C01
