import SkopsModel.Generated.Facts
/-!
# C12 — Archives are well-formed and independent of sink and compression
-/
namespace Skops.Properties.C12

/-- what a dump does to the zip file, as far as members are concerned -/
inductive Emit
  | writeNew (member : String)        -- `writestr(f_name, ...)` followed by `"file": f_name` in the node
  | referAgain (member : String)      -- the member already exists (`f_name in namelist()`): only the reference is written
deriving DecidableEq, Repr

structure Arch where
  members : List String := []
  refs : List String := []

/-- one emission; `none` = impossible (the code only skips the write when the name is already in the zip) -/
def emit (a : Arch) : Emit → Option Arch
  | .writeNew m => if a.members.contains m then none else some { members := m :: a.members, refs := m :: a.refs }
  | .referAgain m => if a.members.contains m then some { a with refs := m :: a.refs } else none

def run : Arch → List Emit → Option Arch
  | a, [] => some a
  | a, e :: es => match emit a e with
    | some a' => run a' es
    | none => none

theorem run_refs_members : ∀ (es : List Emit) (a a' : Arch),
    (∀ r ∈ a.refs, r ∈ a.members) → (∀ m ∈ a.members, m ∈ a.refs) → a.members.Nodup → run a es = some a' →
    (∀ r ∈ a'.refs, r ∈ a'.members) ∧ (∀ m ∈ a'.members, m ∈ a'.refs) ∧ a'.members.Nodup
  | [], a, a', h1, h2, h3, h => by simp [run] at h; subst h; exact ⟨h1, h2, h3⟩
  | e :: es, a, a', h1, h2, h3, h => by
    simp only [run] at h
    cases he : emit a e with
    | none => simp [he] at h
    | some a1 =>
      simp only [he] at h
      apply run_refs_members es a1 a' ?_ ?_ ?_ h
      all_goals
        cases e with
        | writeNew m =>
          simp only [emit] at he
          split at he
          · cases he
          · rename_i hc
            cases he
            first
              | (intro r hr; simp only [List.mem_cons] at hr ⊢; rcases hr with rfl | hr
                 · exact Or.inl rfl
                 · first | exact Or.inr (h1 r hr) | exact Or.inr (h2 r hr))
              | exact List.nodup_cons.mpr ⟨by simpa using hc, h3⟩
        | referAgain m =>
          simp only [emit] at he
          split at he
          · rename_i hc
            cases he
            first
              | (intro r hr; simp only [List.mem_cons] at hr; rcases hr with rfl | hr
                 · simpa using hc
                 · exact h1 r hr)
              | (intro r hr; exact List.mem_cons_of_mem _ (h2 r hr))
              | exact h3
          · cases he

/-- **members and references agree**: whatever sequence of array / sparse / bytes nodes a dump writes,
every member a node refers to exists, every member is referred to by some node, and no member is
written twice -/
theorem refs_eq_members (es : List Emit) (a : Arch) (h : run {} es = some a) :
    (∀ r ∈ a.refs, r ∈ a.members) ∧ (∀ m ∈ a.members, m ∈ a.refs) ∧ a.members.Nodup :=
  run_refs_members es {} a (by simp) (by simp) (by simp) h

/-- generated flow facts: every registered `*_get_state` writes `__class__`, `__module__`, `__loader__`
and `get_state` adds `__id__`; the root carries protocol and version and is written as `schema.json`;
member names are `<id>.npy`, `<id>.npz`, `<uuid>.bin` (flat); `dump`/`dumps` call `_save` first, which
writes only into its own buffer — so every sink receives the same bytes and compression is a
parameter of the zip codec only -/
theorem flow_facts :
    Generated.facts.allGetStateHaveHeader = true ∧ Generated.facts.idFromMemoize = true ∧
    Generated.facts.schemaCarriesProtocolAndVersion = true ∧ Generated.facts.memberNamesFlat = true ∧
    Generated.facts.memberWrittenOnce = true ∧ Generated.facts.dumpSavesFirst = true ∧
    Generated.facts.dumpsSavesFirst = true ∧ Generated.facts.saveWritesOnlyBuffer = true ∧
    -- member names are object ids: they are unique because `memoize` keeps every object it names alive
    Generated.facts.memoizeKeepsReference = true := by decide

example : ∃ a, run {} [.writeNew "1.npy", .writeNew "u.bin", .referAgain "1.npy"] = some a ∧ a.members.length = 2 :=
  ⟨_, rfl, rfl⟩

end Skops.Properties.C12
