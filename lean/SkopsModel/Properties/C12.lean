import SkopsModel.Generated.Facts
import SkopsModel.Generated.Skeletons
import SkopsModel.Lemmas.Fs
import SkopsModel.Fs.Canon
import SkopsModel.Lemmas.Value
/-!
# C12 — Archives are well-formed and independent of sink and compression
-/
namespace Skops.Properties.C12

/-- what a dump does to the zip file, as far as members are concerned -/
inductive Emit
  | writeNew (member : String)        -- `writestr(f_name, ...)` followed by `"file": f_name` in the node
  | referAgain (member : String)      -- the member already exists (`f_name in namelist()`): only the reference is written
deriving DecidableEq, Repr

structure Arch where
  members : List String := []
  refs : List String := []

/-- one emission; `none` = impossible (the code only skips the write when the name is already in the zip) -/
def emit (a : Arch) : Emit → Option Arch
  | .writeNew m => if a.members.contains m then none else some { members := m :: a.members, refs := m :: a.refs }
  | .referAgain m => if a.members.contains m then some { a with refs := m :: a.refs } else none

def run : Arch → List Emit → Option Arch
  | a, [] => some a
  | a, e :: es => match emit a e with
    | some a' => run a' es
    | none => none

theorem run_refs_members : ∀ (es : List Emit) (a a' : Arch),
    (∀ r ∈ a.refs, r ∈ a.members) → (∀ m ∈ a.members, m ∈ a.refs) → a.members.Nodup → run a es = some a' →
    (∀ r ∈ a'.refs, r ∈ a'.members) ∧ (∀ m ∈ a'.members, m ∈ a'.refs) ∧ a'.members.Nodup
  | [], a, a', h1, h2, h3, h => by simp [run] at h; subst h; exact ⟨h1, h2, h3⟩
  | e :: es, a, a', h1, h2, h3, h => by
    simp only [run] at h
    cases he : emit a e with
    | none => simp [he] at h
    | some a1 =>
      simp only [he] at h
      apply run_refs_members es a1 a' ?_ ?_ ?_ h
      all_goals
        cases e with
        | writeNew m =>
          simp only [emit] at he
          split at he
          · cases he
          · rename_i hc
            cases he
            first
              | (intro r hr; simp only [List.mem_cons] at hr ⊢; rcases hr with rfl | hr
                 · exact Or.inl rfl
                 · first | exact Or.inr (h1 r hr) | exact Or.inr (h2 r hr))
              | exact List.nodup_cons.mpr ⟨by simpa using hc, h3⟩
        | referAgain m =>
          simp only [emit] at he
          split at he
          · rename_i hc
            cases he
            first
              | (intro r hr; simp only [List.mem_cons] at hr; rcases hr with rfl | hr
                 · simpa using hc
                 · exact h1 r hr)
              | (intro r hr; exact List.mem_cons_of_mem _ (h2 r hr))
              | exact h3
          · cases he

/-- **members and references agree**: whatever sequence of array / sparse / bytes nodes a dump writes,
every member a node refers to exists, every member is referred to by some node, and no member is
written twice -/
theorem refs_eq_members (es : List Emit) (a : Arch) (h : run {} es = some a) :
    (∀ r ∈ a.refs, r ∈ a.members) ∧ (∀ m ∈ a.members, m ∈ a.refs) ∧ a.members.Nodup :=
  run_refs_members es {} a (by simp) (by simp) (by simp) h

/-- generated flow facts: every registered `*_get_state` writes `__class__`, `__module__`, `__loader__`
and `get_state` adds `__id__`; the root carries protocol and version and is written as `schema.json`;
member names are `<id>.npy`, `<id>.npz`, `<uuid>.bin` (flat); `dump`/`dumps` call `_save` first, which
writes only into its own buffer — so every sink receives the same bytes and compression is a
parameter of the zip codec only -/
theorem flow_facts :
    Generated.facts.allGetStateHaveHeader = true ∧ Generated.facts.idFromMemoize = true ∧
    Generated.facts.schemaCarriesProtocolAndVersion = true ∧ Generated.facts.memberNamesFlat = true ∧
    Generated.facts.memberWrittenOnce = true ∧ Generated.facts.dumpSavesFirst = true ∧
    Generated.facts.dumpsSavesFirst = true ∧ Generated.facts.saveWritesOnlyBuffer = true ∧
    -- member names are object ids: they are unique because `memoize` keeps every object it names alive
    Generated.facts.memoizeKeepsReference = true := by decide

example : ∃ a, run {} [.writeNew "1.npy", .writeNew "u.bin", .referAgain "1.npy"] = some a ∧ a.members.length = 2 :=
  ⟨_, rfl, rfl⟩


/-! ## Sink independence

`dump` and `dumps` as statement skeletons regenerated from the source (`Generated/Skeletons.lean`), interpreted over
the file-system model.  `cfg.chunks` is what `_save` put into its buffer (a function of the object and the compression
arguments only: flow facts `saveWritesOnlyBuffer`, `dumpSavesFirst`, `dumpsSavesFirst`). -/
section Sinks
open Skops.Fs Skops.Io.Value

theorem skeleton_dump : Skops.Generated.dumpBody = dumpProg := rfl
theorem skeleton_dumps : Skops.Generated.dumpsBody = dumpsProg := rfl

def dump (v : PyVal) (cfg : Cfg) (w : World) : World × Sig :=
  execL { cfg with dumpable := (encode v).isSome } Skops.Generated.dumpBody w

def dumps (v : PyVal) (cfg : Cfg) (w : World) : World × Sig :=
  execL { cfg with dumpable := (encode v).isSome } Skops.Generated.dumpsBody w

/-- a path sink (str or `Path`, relative or absolute) ends up holding exactly the buffer, every other path reads as
before and no directory appears -/
theorem path_sink_gets_buffer (v : PyVal) (cfg : Cfg) (w : World) (s : Sch) (he : encode v = some s) (o : Path)
    (ho : w.output = some o) (hp : cfg.sinkIsPath = true)
    (hpar : w.fs.isDir (o.resolve cfg.cwd).dropLast = true) (hnd : w.fs.isDir (o.resolve cfg.cwd) = false) :
    (dump v cfg w).2 = .next ∧
    (dump v cfg w).1.fs.read (o.resolve cfg.cwd) = some cfg.chunks.flatten ∧
    (∀ q, q ≠ o.resolve cfg.cwd → (dump v cfg w).1.fs.read q = w.fs.read q) ∧
    (dump v cfg w).1.fs.dirs = w.fs.dirs ∧ (dump v cfg w).1.handle = w.handle := by
  unfold dump
  rw [skeleton_dump]
  cases w with
  | mk fs trace logs output dest tmpDir tmp buffer handle returned =>
  simp only at ho hpar hnd
  subst ho
  simp only [dumpProg, execL, execS, Cond.eval, he, hp, Option.isSome_some, if_true]
  rw [doOps_writeOps cfg.chunks _ _ hpar hnd]
  exact ⟨rfl, by simp, fun q hq => read_put_other _ _ _ _ (Ne.symm hq), rfl, rfl⟩

/-- an open binary file receives exactly the buffer after whatever it had received before; the file system is not
touched at all -/
theorem file_sink_gets_buffer (v : PyVal) (cfg : Cfg) (w : World) (s : Sch) (he : encode v = some s)
    (hp : cfg.sinkIsPath = false) :
    (dump v cfg w).2 = .next ∧ (dump v cfg w).1.handle = w.handle ++ cfg.chunks ∧
    (dump v cfg w).1.fs = w.fs ∧ (dump v cfg w).1.trace = w.trace := by
  unfold dump
  rw [skeleton_dump]
  simp [dumpProg, execL, execS, Cond.eval, he, hp]

/-- `dumps` returns exactly the buffer and touches nothing -/
theorem dumps_returns_buffer (v : PyVal) (cfg : Cfg) (w : World) (s : Sch) (he : encode v = some s) :
    (dumps v cfg w).1.returned = some cfg.chunks ∧ (dumps v cfg w).1.fs = w.fs ∧ (dumps v cfg w).1.trace = w.trace ∧
    (dumps v cfg w).1.handle = w.handle := by
  unfold dumps
  rw [skeleton_dumps]
  simp [dumpsProg, execL, execS, he]

/-- **sink independence**: the same object under the same compression arguments (the same `chunks`) puts the same
byte string into a path, into a fresh file object and into the value returned by `dumps` — for every object of the
grammar that can be dumped, every file-system state, every working directory and every form of the path -/
theorem sink_independent (v : PyVal) (cfg : Cfg) (w : World) (s : Sch) (he : encode v = some s) (o : Path)
    (ho : w.output = some o) (hh : w.handle = [])
    (hpar : w.fs.isDir (o.resolve cfg.cwd).dropLast = true) (hnd : w.fs.isDir (o.resolve cfg.cwd) = false) :
    (dump v { cfg with sinkIsPath := true } w).1.fs.read (o.resolve cfg.cwd)
      = some (dump v { cfg with sinkIsPath := false } w).1.handle.flatten ∧
    some (dump v { cfg with sinkIsPath := false } w).1.handle = (dumps v cfg w).1.returned := by
  have h1 := path_sink_gets_buffer v { cfg with sinkIsPath := true } w s he o ho rfl hpar hnd
  have h2 := file_sink_gets_buffer v { cfg with sinkIsPath := false } w s he rfl
  have h3 := dumps_returns_buffer v cfg w s he
  refine ⟨?_, ?_⟩
  · rw [h1.2.1, h2.2.1, hh]; simp
  · rw [h2.2.1, h3.1, hh]; simp

/-- non-vacuity: one object, three sinks, one byte string -/
example :
    let v := PyVal.list "builtins.list" (.cons (.scalar (.int "1")) .nil)
    let cfg : Cfg := { cwd := ["w"], input := ⟨false, []⟩, output := some ⟨false, ["sub", "m.skops"]⟩, chunks := [[5, 5], [7]] }
    let w : World := { fs := { dirs := [[], ["w"], ["w", "sub"]], files := [] }, output := cfg.output }
    (dump v cfg w).1.fs.read ["w", "sub", "m.skops"] = some [5, 5, 7] ∧
    (dump v { cfg with sinkIsPath := false } w).1.handle.flatten = [5, 5, 7] ∧
    (dumps v cfg w).1.returned = some [[5, 5], [7]] := by decide +kernel
end Sinks

end Skops.Properties.C12
