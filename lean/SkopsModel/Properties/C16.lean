import SkopsModel.Generated.Skeletons
import SkopsModel.Lemmas.Update
import SkopsModel.Lemmas.UpdateFault
/-!
# C16 — `skops update` upgrades old archives without ever endangering the original

The model is the statement-level skeleton of `skops.cli._update` regenerated from the source on every run
(`Generated.updateMain`, `Generated.updateInner`), interpreted over the file-system model of `Fs/Fs.lean`.
What is *not* modelled: `..`/`.`/symlink path components, permissions, a full disk, durability across power
loss; `load`/`dump` appear through their outcome (`loadable`, `dumpable`, `chunks`) — that the new bytes load to
an equal object is C04/C05/C08 and is evaluated on the real code by the harness.
-/
namespace Skops.Properties.C16
open Skops.Fs

/-- the translator's output for the current source is the program the lemmas are about -/
theorem skeleton_inner : Skops.Generated.updateInner = updateProg := rfl
theorem skeleton_main : Skops.Generated.updateMain = updateMainProg := rfl

/-- `skops update` as translated from the current source -/
def update (cfg : Cfg) (fs : FS) : World × Sig :=
  run Skops.Generated.updateMain Skops.Generated.updateInner cfg fs

/-- an archive that is current or newer, no destination, or an input that does not load: no file operation at all -/
theorem decision_untouched (cfg : Cfg) (fs : FS)
    (h : cfg.cur ≤ cfg.proto ∨ destOf cfg = none ∨ cfg.loadable = false) :
    (update cfg fs).1.fs = fs ∧ (update cfg fs).1.trace = [] := by
  unfold update
  rw [skeleton_inner, skeleton_main]
  exact update_no_write cfg fs h

/-- output and `--inplace` together: an error, and again no file operation -/
theorem both_flags_error (cfg : Cfg) (fs : FS) (o : Path) (ho : cfg.output = some o) (hi : cfg.inplace = true) :
    (update cfg fs).2 = .raised "ValueError" ∧ (update cfg fs).1.fs = fs ∧ (update cfg fs).1.trace = [] := by
  unfold update
  rw [skeleton_inner, skeleton_main, update_both_flags cfg fs o ho hi]
  exact ⟨rfl, rfl, rfl⟩

/-- an older archive is rewritten at the destination — relative or absolute, the input itself for `--inplace` —
and nothing else changes: every other path reads as before (in particular the input unless it is the
destination) and the set of directories is the same (no temporary files remain) -/
theorem rewritten (cfg : Cfg) (fs : FS) (d : Path) (h : WriteHyp cfg fs d) :
    ∃ w, update cfg fs = (w, .next) ∧
      w.fs.read (d.resolve cfg.cwd) = some cfg.chunks.flatten ∧
      (∀ q, q ≠ d.resolve cfg.cwd → w.fs.read q = fs.read q) ∧
      w.fs.dirs = fs.dirs := by
  obtain ⟨w, hw, _, hf⟩ := update_run cfg fs d h
  refine ⟨w, ?_, ?_, ?_, ?_⟩
  · unfold update; rw [skeleton_inner, skeleton_main]; exact hw
  · rw [hf]; exact afterCleanup_read_dest cfg fs d h
  · intro q hq; rw [hf]; exact afterCleanup_read_other cfg fs d h q hq
  · rw [hf]; exact afterCleanup_dirs cfg fs d h

/-- the input is never altered unless it is the destination -/
theorem input_untouched (cfg : Cfg) (fs : FS) (d : Path) (h : WriteHyp cfg fs d)
    (hne : cfg.input.resolve cfg.cwd ≠ d.resolve cfg.cwd) :
    (update cfg fs).1.fs.read (cfg.input.resolve cfg.cwd) = fs.read (cfg.input.resolve cfg.cwd) := by
  obtain ⟨w, hw, _, ho, _⟩ := rewritten cfg fs d h
  rw [hw]
  exact ho _ hne

/-- the object turns out not to be persistable under the current protocol (`dump` raises inside the update): the
command fails, every path reads as before and no directory remains -/
theorem failed_dump_untouched (cfg : Cfg) (fs : FS) (d : Path) (h : WriteHyp cfg fs d) :
    ∃ w, update { cfg with dumpable := false } fs = (w, .raised "dump") ∧
      (∀ q, w.fs.read q = fs.read q) ∧ w.fs.dirs = fs.dirs := by
  unfold update
  rw [skeleton_inner, skeleton_main]
  exact update_dump_fails cfg fs d h

/-- **crash safety**: if the process dies after any number `k` of the file operations of the run — the chunking of
the writes is arbitrary, so this includes dying in the middle of writing the new archive — the destination reads
either exactly as before or as the complete new archive -/
theorem crash_safe (cfg : Cfg) (fs : FS) (d : Path) (h : WriteHyp cfg fs d) :
    ∃ w, update cfg fs = (w, .next) ∧ ∀ k,
      (applyAll fs (w.trace.take k)).read (d.resolve cfg.cwd) = fs.read (d.resolve cfg.cwd) ∨
      (applyAll fs (w.trace.take k)).read (d.resolve cfg.cwd) = some cfg.chunks.flatten := by
  obtain ⟨w, hw, ht, _⟩ := update_run cfg fs d h
  refine ⟨w, ?_, ?_⟩
  · unfold update; rw [skeleton_inner, skeleton_main]; exact hw
  · intro k; rw [ht]; exact crash_read cfg fs d h k

/-- `skops update` as translated from the current source, when the file operation reached at countdown `0` fails
with an I/O error (full disk, quota, file-size limit) instead of taking place -/
def updateF (cfg : Cfg) (fs : FS) (k : Option Nat) : (World × Sig) × Option Nat :=
  runF Skops.Generated.updateMain Skops.Generated.updateInner cfg fs k

/-- the fault interpreter is the interpreter of the other theorems when nothing fails -/
theorem updateF_none (cfg : Cfg) (fs : FS) : updateF cfg fs none = (update cfg fs, none) :=
  runF_none _ _ cfg fs

/-- **an I/O error instead of a kill**: whichever single file operation of the run fails (`k` counts `mkdir`,
`create`, one `append` per chunk — the chunking is arbitrary —, `replace`, `rmtree`), the error unwinds through the
code that publishes the result and still
* the destination reads either exactly as before or as the complete new archive,
* every other path outside the temporary directory reads as before (so the input is not altered unless it is the
  destination),
* unless the operation that failed is the removal of the temporary directory itself, every path other than the
  destination reads as before and the directories are as before: nothing remains,
* and a failure before that removal is reported (`OSError`) with the destination still as before. -/
theorem io_fault_safe (cfg : Cfg) (fs : FS) (d : Path) (h : WriteHyp cfg fs d) (k : Nat) :
    ∃ w sig ko, updateF cfg fs (some k) = ((w, sig), ko) ∧
      (w.fs.read (d.resolve cfg.cwd) = fs.read (d.resolve cfg.cwd) ∨
        w.fs.read (d.resolve cfg.cwd) = some cfg.chunks.flatten) ∧
      (∀ q, q ≠ d.resolve cfg.cwd → under (tmpDirOf cfg d) q = false → w.fs.read q = fs.read q) ∧
      (k ≠ cfg.chunks.length + 3 → (∀ q, q ≠ d.resolve cfg.cwd → w.fs.read q = fs.read q) ∧ w.fs.dirs = fs.dirs) ∧
      (k < cfg.chunks.length + 3 → sig = .raised "OSError" ∧ w.fs.read (d.resolve cfg.cwd) = fs.read (d.resolve cfg.cwd)) := by
  obtain ⟨w, sig, ko, hrun, hlt, heq, hgt⟩ := update_fault cfg fs d h k
  refine ⟨w, sig, ko, ?_, ?_, ?_, ?_, ?_⟩
  · unfold updateF; rw [skeleton_inner, skeleton_main]; exact hrun
  · rcases Nat.lt_trichotomy k (cfg.chunks.length + 3) with hk | hk | hk
    · exact Or.inl ((hlt hk).2.1 _)
    · right; rw [(heq hk).2]; simp [afterReplace]
    · right; rw [(hgt hk).2]; exact afterCleanup_read_dest cfg fs d h
  · intro q hq hu
    rcases Nat.lt_trichotomy k (cfg.chunks.length + 3) with hk | hk | hk
    · exact (hlt hk).2.1 q
    · rw [(heq hk).2]
      have hqt : tmpOf cfg d ≠ q := by
        intro he
        rw [← he, tmp_under] at hu
        cases hu
      unfold afterReplace afterDump
      rw [read_put_other _ _ q _ (Ne.symm hq), read_del_other _ _ q hqt, read_put_other _ _ q _ hqt]
      rfl
    · rw [(hgt hk).2]; exact afterCleanup_read_other cfg fs d h q hq
  · intro hne
    rcases Nat.lt_trichotomy k (cfg.chunks.length + 3) with hk | hk | hk
    · exact ⟨fun q _ => (hlt hk).2.1 q, (hlt hk).2.2⟩
    · exact absurd hk hne
    · rw [(hgt hk).2]
      exact ⟨fun q hq => afterCleanup_read_other cfg fs d h q hq, afterCleanup_dirs cfg fs d h⟩
  · intro hk
    exact ⟨(hlt hk).1, (hlt hk).2.1 _⟩

/-! ## Non-vacuity and what the repaired defects looked like -/

def fs0 : FS := { dirs := [[], ["w"], ["w", "sub"]], files := [(["w", "old.skops"], [1, 1]), (["w", "sub", "new.skops"], [7])] }
def cfgInplace : Cfg := { cwd := ["w"], input := ⟨false, ["old.skops"]⟩, output := none, inplace := true, chunks := [[2], [2, 2]] }
def cfgNested : Cfg := { cwd := ["w"], input := ⟨false, ["old.skops"]⟩, output := some ⟨false, ["sub", "new.skops"]⟩,
                         chunks := [[2], [2, 2]], sysTmp := ["tmp"], sysTmpSameFs := false }

/-- the hypotheses of `rewritten`/`crash_safe` are satisfiable: in place … -/
example : WriteHyp cfgInplace fs0 ⟨false, ["old.skops"]⟩ where
  hdest := rfl
  hparts := by decide
  hproto := by decide
  hload := rfl
  hdump := rfl
  hpar := by decide
  hnd := by decide
  hfreshName := by decide
  hfreshDir := by decide
  hfreshFile := by decide
  hunderF := by
    intro q hq
    unfold FS.read
    simp only [fs0, List.find?]
    by_cases h1 : (["w", "old.skops"] : RPath) = q
    · subst h1; revert hq; decide
    · by_cases h2 : (["w", "sub", "new.skops"] : RPath) = q
      · subst h2; revert hq; decide
      · have e1 : ((["w", "old.skops"] : RPath) == q) = false := by simpa using h1
        have e2 : ((["w", "sub", "new.skops"] : RPath) == q) = false := by simpa using h2
        simp only [e1, e2]
  hunderD := by decide

/-- … and to a nested relative destination (the case that failed before the repair) -/
example : (update cfgNested fs0).2 = .next ∧
    (update cfgNested fs0).1.fs.read ["w", "sub", "new.skops"] = some [2, 2, 2] ∧
    (update cfgNested fs0).1.fs.read ["w", "old.skops"] = some [1, 1] ∧
    (update cfgNested fs0).1.fs.dirs = fs0.dirs := by decide +kernel

/-- before the repair (`updateProgOld`): a nested relative destination raises and writes nothing … -/
example : (run [] updateProgOld cfgNested { fs0 with dirs := ["tmp"] :: fs0.dirs }).2 = .raised "OSError" := by decide +kernel

/-- … and with the temporary directory on another file system a kill in the middle of the copy leaves a partial
destination: neither the old content `[7]` nor the new `[2,2,2]` -/
example :
    let cfg := { cfgNested with output := some ⟨true, ["w", "sub", "new.skops"]⟩ }
    let fs := { fs0 with dirs := ["tmp"] :: ["tmp", "tmpdir", "w"] :: ["tmp", "tmpdir", "w", "sub"] :: fs0.dirs }
    let w := (run [] updateProgOld cfg fs).1
    (applyAll fs (w.trace.take 6)).read ["w", "sub", "new.skops"] = some [2] := by decide +kernel

/-- faults on a concrete run (`cfgNested`: 2 chunks, so operations 0…5): a failing write (operation 2) leaves
everything as before; a failing removal of the temporary directory (operation 5) leaves the new archive in place and
the directory behind; countdown 6 is past the last operation: the clean run -/
example : (updateF cfgNested fs0 (some 2)).1.2 = .raised "OSError" ∧
    (updateF cfgNested fs0 (some 2)).1.1.fs.read ["w", "sub", "new.skops"] = some [7] ∧
    (updateF cfgNested fs0 (some 2)).1.1.fs.dirs = fs0.dirs ∧
    (updateF cfgNested fs0 (some 2)).1.1.fs.read ["w", "sub", "tmpdir", "new.skops.tmp"] = none := by decide +kernel

example : (updateF cfgNested fs0 (some 5)).1.2 = .raised "OSError" ∧
    (updateF cfgNested fs0 (some 5)).1.1.fs.read ["w", "sub", "new.skops"] = some [2, 2, 2] ∧
    (updateF cfgNested fs0 (some 5)).1.1.fs.isDir ["w", "sub", "tmpdir"] = true := by decide +kernel

example : (updateF cfgNested fs0 (some 6)).1.2 = (update cfgNested fs0).2 ∧
    (updateF cfgNested fs0 (some 6)).1.1.trace = (update cfgNested fs0).1.trace ∧
    (updateF cfgNested fs0 (some 6)).1.1.fs.dirs = (update cfgNested fs0).1.fs.dirs ∧
    (updateF cfgNested fs0 (some 6)).1.1.fs.files = (update cfgNested fs0).1.fs.files := by decide +kernel

end Skops.Properties.C16
