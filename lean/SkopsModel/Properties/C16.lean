import SkopsModel.Generated.Skeletons
import SkopsModel.Lemmas.Update
/-!
# C16 — `skops update` upgrades old archives without ever endangering the original

The model is the statement-level skeleton of `skops.cli._update` regenerated from the source on every run
(`Generated.updateMain`, `Generated.updateInner`), interpreted over the file-system model of `Fs/Fs.lean`.
What is *not* modelled: `..`/`.`/symlink path components, permissions, a full disk, durability across power
loss; `load`/`dump` appear through their outcome (`loadable`, `dumpable`, `chunks`) — that the new bytes load to
an equal object is C04/C05/C08 and is evaluated on the real code by the harness.
-/
namespace Skops.Properties.C16
open Skops.Fs

/-- the translator's output for the current source is the program the lemmas are about -/
theorem skeleton_inner : Skops.Generated.updateInner = updateProg := rfl
theorem skeleton_main : Skops.Generated.updateMain = updateMainProg := rfl

/-- `skops update` as translated from the current source -/
def update (cfg : Cfg) (fs : FS) : World × Sig :=
  run Skops.Generated.updateMain Skops.Generated.updateInner cfg fs

/-- an archive that is current or newer, no destination, or an input that does not load: no file operation at all -/
theorem decision_untouched (cfg : Cfg) (fs : FS)
    (h : cfg.cur ≤ cfg.proto ∨ destOf cfg = none ∨ cfg.loadable = false) :
    (update cfg fs).1.fs = fs ∧ (update cfg fs).1.trace = [] := by
  unfold update
  rw [skeleton_inner, skeleton_main]
  exact update_no_write cfg fs h

/-- output and `--inplace` together: an error, and again no file operation -/
theorem both_flags_error (cfg : Cfg) (fs : FS) (o : Path) (ho : cfg.output = some o) (hi : cfg.inplace = true) :
    (update cfg fs).2 = .raised "ValueError" ∧ (update cfg fs).1.fs = fs ∧ (update cfg fs).1.trace = [] := by
  unfold update
  rw [skeleton_inner, skeleton_main, update_both_flags cfg fs o ho hi]
  exact ⟨rfl, rfl, rfl⟩

/-- an older archive is rewritten at the destination — relative or absolute, the input itself for `--inplace` —
and nothing else changes: every other path reads as before (in particular the input unless it is the
destination) and the set of directories is the same (no temporary files remain) -/
theorem rewritten (cfg : Cfg) (fs : FS) (d : Path) (h : WriteHyp cfg fs d) :
    ∃ w, update cfg fs = (w, .next) ∧
      w.fs.read (d.resolve cfg.cwd) = some cfg.chunks.flatten ∧
      (∀ q, q ≠ d.resolve cfg.cwd → w.fs.read q = fs.read q) ∧
      w.fs.dirs = fs.dirs := by
  obtain ⟨w, hw, _, hf⟩ := update_run cfg fs d h
  refine ⟨w, ?_, ?_, ?_, ?_⟩
  · unfold update; rw [skeleton_inner, skeleton_main]; exact hw
  · rw [hf]; exact afterCleanup_read_dest cfg fs d h
  · intro q hq; rw [hf]; exact afterCleanup_read_other cfg fs d h q hq
  · rw [hf]; exact afterCleanup_dirs cfg fs d h

/-- the input is never altered unless it is the destination -/
theorem input_untouched (cfg : Cfg) (fs : FS) (d : Path) (h : WriteHyp cfg fs d)
    (hne : cfg.input.resolve cfg.cwd ≠ d.resolve cfg.cwd) :
    (update cfg fs).1.fs.read (cfg.input.resolve cfg.cwd) = fs.read (cfg.input.resolve cfg.cwd) := by
  obtain ⟨w, hw, _, ho, _⟩ := rewritten cfg fs d h
  rw [hw]
  exact ho _ hne

/-- the object turns out not to be persistable under the current protocol (`dump` raises inside the update): the
command fails, every path reads as before and no directory remains -/
theorem failed_dump_untouched (cfg : Cfg) (fs : FS) (d : Path) (h : WriteHyp cfg fs d) :
    ∃ w, update { cfg with dumpable := false } fs = (w, .raised "dump") ∧
      (∀ q, w.fs.read q = fs.read q) ∧ w.fs.dirs = fs.dirs := by
  unfold update
  rw [skeleton_inner, skeleton_main]
  exact update_dump_fails cfg fs d h

/-- **crash safety**: if the process dies after any number `k` of the file operations of the run — the chunking of
the writes is arbitrary, so this includes dying in the middle of writing the new archive — the destination reads
either exactly as before or as the complete new archive -/
theorem crash_safe (cfg : Cfg) (fs : FS) (d : Path) (h : WriteHyp cfg fs d) :
    ∃ w, update cfg fs = (w, .next) ∧ ∀ k,
      (applyAll fs (w.trace.take k)).read (d.resolve cfg.cwd) = fs.read (d.resolve cfg.cwd) ∨
      (applyAll fs (w.trace.take k)).read (d.resolve cfg.cwd) = some cfg.chunks.flatten := by
  obtain ⟨w, hw, ht, _⟩ := update_run cfg fs d h
  refine ⟨w, ?_, ?_⟩
  · unfold update; rw [skeleton_inner, skeleton_main]; exact hw
  · intro k; rw [ht]; exact crash_read cfg fs d h k

/-! ## Non-vacuity and what the repaired defects looked like -/

def fs0 : FS := { dirs := [[], ["w"], ["w", "sub"]], files := [(["w", "old.skops"], [1, 1]), (["w", "sub", "new.skops"], [7])] }
def cfgInplace : Cfg := { cwd := ["w"], input := ⟨false, ["old.skops"]⟩, output := none, inplace := true, chunks := [[2], [2, 2]] }
def cfgNested : Cfg := { cwd := ["w"], input := ⟨false, ["old.skops"]⟩, output := some ⟨false, ["sub", "new.skops"]⟩,
                         chunks := [[2], [2, 2]], sysTmp := ["tmp"], sysTmpSameFs := false }

/-- the hypotheses of `rewritten`/`crash_safe` are satisfiable: in place … -/
example : WriteHyp cfgInplace fs0 ⟨false, ["old.skops"]⟩ where
  hdest := rfl
  hparts := by decide
  hproto := by decide
  hload := rfl
  hdump := rfl
  hpar := by decide
  hnd := by decide
  hfreshName := by decide
  hfreshDir := by decide
  hfreshFile := by decide
  hunderF := by
    intro q hq
    unfold FS.read
    simp only [fs0, List.find?]
    by_cases h1 : (["w", "old.skops"] : RPath) = q
    · subst h1; revert hq; decide
    · by_cases h2 : (["w", "sub", "new.skops"] : RPath) = q
      · subst h2; revert hq; decide
      · have e1 : ((["w", "old.skops"] : RPath) == q) = false := by simpa using h1
        have e2 : ((["w", "sub", "new.skops"] : RPath) == q) = false := by simpa using h2
        simp only [e1, e2]
  hunderD := by decide

/-- … and to a nested relative destination (the case that failed before the repair) -/
example : (update cfgNested fs0).2 = .next ∧
    (update cfgNested fs0).1.fs.read ["w", "sub", "new.skops"] = some [2, 2, 2] ∧
    (update cfgNested fs0).1.fs.read ["w", "old.skops"] = some [1, 1] ∧
    (update cfgNested fs0).1.fs.dirs = fs0.dirs := by decide +kernel

/-- before the repair (`updateProgOld`): a nested relative destination raises and writes nothing … -/
example : (run [] updateProgOld cfgNested { fs0 with dirs := ["tmp"] :: fs0.dirs }).2 = .raised "OSError" := by decide +kernel

/-- … and with the temporary directory on another file system a kill in the middle of the copy leaves a partial
destination: neither the old content `[7]` nor the new `[2,2,2]` -/
example :
    let cfg := { cfgNested with output := some ⟨true, ["w", "sub", "new.skops"]⟩ }
    let fs := { fs0 with dirs := ["tmp"] :: ["tmp", "tmpdir", "w"] :: ["tmp", "tmpdir", "w", "sub"] :: fs0.dirs }
    let w := (run [] updateProgOld cfg fs).1
    (applyAll fs (w.trace.take 6)).read ["w", "sub", "new.skops"] = some [2] := by decide +kernel

end Skops.Properties.C16
