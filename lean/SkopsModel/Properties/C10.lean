import SkopsModel.Card.Ops
/-!
# C10 — Rendering shows exactly the visible tree, in order, and save/TOC agree with it
-/
namespace Skops.Properties.C10
open Skops Skops.Card

/-- every section of the tree in document (DFS) order, with the chain of its ancestors -/
def allSecs (anc : List Sec) : Forest → List (List Sec × Sec)
  | .nil => []
  | .cons _ s ch rest => (anc, s) :: (allSecs (anc ++ [s]) ch ++ allSecs anc rest)

/-- an ancestor lets its subsections through iff it is visible and not folded -/
def passes (a : Sec) : Bool := a.visible && !a.folded

/-- The property's sentence: a section is shown iff it is visible and has no invisible or folded
ancestor. -/
def isShown (e : List Sec × Sec) : Bool := e.2.visible && e.1.all passes

/-- what one shown section contributes to the rendering: its heading (depth many '#') and its
formatted content -/
def linesOf (e : List Sec × Sec) : List String := [heading (e.1.length + 1) e.2.title, e.2.format]

theorem hidden_subtree (anc : List Sec) (f : Forest) (h : anc.all passes = false) :
    (allSecs anc f).filter isShown = [] := by
  induction f generalizing anc with
  | nil => simp [allSecs]
  | cons k s ch rest ihc ihr =>
    have h2 : (anc ++ [s]).all passes = false := by simp [List.all_append, h]
    simp [allSecs, List.filter_append, isShown, h, ihc _ h2, ihr _ h]

/-- generalised statement used for the induction -/
theorem render_events_aux (anc : List Sec) (f : Forest) (h : anc.all passes = true) :
    renderLines (anc.length + 1) f = ((allSecs anc f).filter isShown).flatMap linesOf := by
  induction f generalizing anc with
  | nil => simp [renderLines, allSecs]
  | cons k s ch rest ihc ihr =>
    simp only [renderLines, allSecs, List.filter_cons, List.filter_append, List.flatMap_append]
    rw [ihr anc h]
    by_cases hv : s.visible = true
    · by_cases hf : s.folded = true
      · have h2 : (anc ++ [s]).all passes = false := by simp [List.all_append, passes, hf]
        simp [isShown, hv, hf, h, hidden_subtree _ ch h2, linesOf]
      · have hf' : s.folded = false := by simpa using hf
        have h2 : (anc ++ [s]).all passes = true := by simp [List.all_append, passes, hv, hf', h]
        have := ihc (anc ++ [s]) h2
        simp only [List.length_append, List.length_cons, List.length_nil, Nat.zero_add] at this
        simp [isShown, hv, hf', h, this, linesOf]
    · have hv' : s.visible = false := by simpa using hv
      have h2 : (anc ++ [s]).all passes = false := by simp [List.all_append, passes, hv']
      simp [isShown, hv', hidden_subtree _ ch h2]

/-- **render**: one heading per shown section, in tree order, with as many '#' as its depth and
the section's title, followed by that section's formatted content; nothing else is emitted. -/
theorem render_events (f : Forest) :
    renderLines 1 f = ((allSecs [] f).filter isShown).flatMap linesOf :=
  render_events_aux [] f rfl

/-- nothing belonging to a hidden section appears: every emitted line is the heading or the content
of a shown section -/
theorem nothing_hidden (f : Forest) (l : String) (h : l ∈ renderLines 1 f) :
    ∃ e ∈ allSecs [] f, isShown e = true ∧ l ∈ linesOf e := by
  rw [render_events] at h
  simp only [List.mem_flatMap, List.mem_filter] at h
  obtain ⟨e, ⟨he, hs⟩, hl⟩ := h
  exact ⟨e, he, hs, hl⟩

theorem toc_events_aux (anc : List Sec) (f : Forest) (h : anc.all passes = true) :
    tocEntries anc.length f = ((allSecs anc f).filter isShown).map fun e => (e.2.title, e.1.length) := by
  induction f generalizing anc with
  | nil => simp [tocEntries, allSecs]
  | cons k s ch rest ihc ihr =>
    simp only [tocEntries, allSecs, List.filter_cons, List.filter_append, List.map_append]
    rw [ihr anc h]
    by_cases hv : s.visible = true
    · by_cases hf : s.folded = true
      · have h2 : (anc ++ [s]).all passes = false := by simp [List.all_append, passes, hf]
        simp [isShown, hv, hf, h, hidden_subtree _ ch h2]
      · have hf' : s.folded = false := by simpa using hf
        have h2 : (anc ++ [s]).all passes = true := by simp [List.all_append, passes, hv, hf', h]
        have := ihc (anc ++ [s]) h2
        simp only [List.length_append, List.length_cons, List.length_nil, Nat.zero_add] at this
        simp [isShown, hv, hf', h, this]
    · have hv' : s.visible = false := by simpa using hv
      have h2 : (anc ++ [s]).all passes = false := by simp [List.all_append, passes, hv']
      simp [isShown, hv', hidden_subtree _ ch h2]

/-- **get_toc** lists exactly the shown sections, in the same order, at indentation = depth - 1 -/
theorem toc_events (f : Forest) :
    tocEntries 0 f = ((allSecs [] f).filter isShown).map fun e => (e.2.title, e.1.length) :=
  toc_events_aux [] f rfl

/-- the TOC and the rendering agree: the i-th TOC entry is the i-th rendered heading -/
theorem toc_matches_render (f : Forest) :
    (tocEntries 0 f).map (fun (t, l) => heading (l + 1) t) =
      ((allSecs [] f).filter isShown).map fun e => heading (e.1.length + 1) e.2.title := by
  rw [toc_events]
  simp [List.map_map, Function.comp_def]

/-- content is wrapped in a `<details>` block exactly when the section is folded -/
theorem details_iff_folded (s : Sec) (c : String) (h : s.body = .text c) :
    s.format = if s.folded then
        "<details>\n<summary> Click to expand </summary>\n\n" ++ c ++ "\n\n</details>" else c := by
  simp [Sec.format, h, wrapDetails]

/-- for plot and table sections the payload (image link / table) is what gets wrapped, and the
description stays outside -/
theorem details_payload (s : Sec) :
    (∀ c alt path, s.body = .plot c alt path →
      s.format = withDescription c
        (wrapDetails ("![" ++ (if alt = "" then path else alt) ++ "](" ++ path ++ ")") s.folded)) ∧
    (∀ c cols, s.body = .table c cols →
      s.format = withDescription c (wrapDetails (tableToken (tableCells cols)) s.folded)) := by
  constructor
  · intro c alt path h; simp [Sec.format, h]
  · intro c cols h; simp [Sec.format, h]

/-- `save` writes exactly the rendered text, UTF-8 encoded -/
theorem save_eq_render (f : Forest) : savedBytes f = (render f).toUTF8 := rfl

theorem step_save_eq_render (c : Card) : (step c .save).2 = (step c .render).2 ∧ (step c .save).1 = c := by
  simp [step]

/-! non-vacuity: a tree with a hidden and a folded branch -/
example :
    let f := Forest.cons "A" { title := "A", body := .text "a", folded := true }
              (.cons "B" { title := "B", body := .text "b" } .nil .nil)
              (.cons "C" { title := "C", body := .text "c", visible := false } .nil
                (.cons "D" { title := "D", body := .text "" } .nil .nil))
    (tocEntries 0 f = [("A", 0), ("D", 0)]) ∧ (allSecs [] f).length = 4 := by decide

end Skops.Properties.C10
