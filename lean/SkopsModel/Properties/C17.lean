import SkopsModel.Generated.Skeletons
import SkopsModel.Fs.Canon
import SkopsModel.Lemmas.Fs
import SkopsModel.Io.Value
/-!
# C17 — `skops convert` produces an equivalent, auditable archive

Statement-level model of `skops.cli._convert` regenerated from the source.  `unpickle`, `dumps` and
`get_untrusted_types` enter through their outcome (`loadable`, `encode v`, `untrusted`); that the written bytes
load to an object equal to the unpickled one is C04/C05 (value model) and is evaluated on the real code by the
harness, as is the exact text of the warning.
-/
namespace Skops.Properties.C17
open Skops.Fs Skops.Io.Value
set_option linter.unusedSimpArgs false

theorem skeleton_inner : Skops.Generated.convertInner = convertProg := rfl
theorem skeleton_main : Skops.Generated.convertMain = convertMainProg := rfl

/-- `skops convert` on a pickle holding `v` -/
def convert (v : PyVal) (cfg : Cfg) (fs : FS) : World × Sig :=
  run Skops.Generated.convertMain Skops.Generated.convertInner { cfg with dumpable := (encode v).isSome } fs

/-- where the archive goes: the given path, or `<cwd>/<input stem>.skops` -/
def outPath (cfg : Cfg) : RPath :=
  match cfg.output with
  | some o => o.resolve cfg.cwd
  | none => cfg.cwd ++ [stem cfg.input.name ++ ".skops"]

/-- if the object cannot be persisted (or the pickle cannot be read) no file is created or altered: there is no
file operation at all -/
theorem failed_convert_untouched (v : PyVal) (cfg : Cfg) (fs : FS) (h : encode v = none ∨ cfg.loadable = false) :
    (convert v cfg fs).1.fs = fs ∧ (convert v cfg fs).1.trace = [] ∧ (convert v cfg fs).2 ≠ .next := by
  unfold convert
  rw [skeleton_inner, skeleton_main]
  unfold run convertMainProg convertProg
  cases ho : cfg.output <;> by_cases hl : cfg.loadable = true <;> cases he : encode v <;>
    simp [execL, execS, Cond.eval, ho, hl, he] at h ⊢

/-- on success the archive is at the output path — given or default — holding exactly the bytes of `dumps`, every
other path (the input among them) reads as before, and no directory appears -/
theorem converted (v : PyVal) (cfg : Cfg) (fs : FS) (s : Sch) (he : encode v = some s) (hl : cfg.loadable = true)
    (hpar : fs.isDir (outPath cfg).dropLast = true) (hnd : fs.isDir (outPath cfg) = false) :
    (convert v cfg fs).2 = .next ∧
    (convert v cfg fs).1.fs.read (outPath cfg) = some cfg.chunks.flatten ∧
    (∀ q, q ≠ outPath cfg → (convert v cfg fs).1.fs.read q = fs.read q) ∧
    (convert v cfg fs).1.fs.dirs = fs.dirs ∧
    ((convert v cfg fs).1.logs.contains "warning" = !cfg.untrusted.isEmpty) := by
  unfold convert
  rw [skeleton_inner, skeleton_main]
  unfold run convertMainProg convertProg
  cases ho : cfg.output with
  | none =>
    simp only [outPath, ho] at hpar hnd ⊢
    by_cases hu : cfg.untrusted.isEmpty = true <;>
    · simp only [execL, execS, Cond.eval, ho, hl, he, hu, Option.isNone_none, Option.isSome_some, if_true,
        Bool.false_eq_true, if_false, Path.resolve]
      rw [doOps_writeOps _ _ _ hpar hnd]
      refine ⟨rfl, by simp, fun q hq => read_put_other _ _ _ _ (Ne.symm hq), rfl, by simp [hu]⟩
  | some o =>
    simp only [outPath, ho] at hpar hnd ⊢
    by_cases hu : cfg.untrusted.isEmpty = true <;>
    · simp only [execL, execS, Cond.eval, ho, hl, he, hu, Option.isNone_some, Option.isSome_some, if_true,
        Bool.false_eq_true, if_false]
      rw [doOps_writeOps _ _ _ hpar hnd]
      refine ⟨rfl, by simp, fun q hq => read_put_other _ _ _ _ (Ne.symm hq), rfl, by simp [hu]⟩

/-- **the default output name**: with no `-o`, an input called `<base>.<ext>` (`base` non-empty, `ext` non-empty and
dot-free: `model.pkl`, `model.v1.pkl`, `ünï.pickle`) goes to `<cwd>/<base>.skops` — only the last suffix is
replaced — wherever the input lies; an input name without a dot, with only a leading dot (`.hidden`) or ending in a
dot keeps its whole name and gets `.skops` appended -/
theorem default_output_name (cfg : Cfg) (dir : List String) (abs : Bool) (b e : List Char) (ho : cfg.output = none)
    (hi : cfg.input = ⟨abs, dir ++ [String.ofList (b ++ '.' :: e)]⟩) (hb : b ≠ []) (hne : e ≠ [])
    (he : ∀ c ∈ e, c ≠ '.') :
    outPath cfg = cfg.cwd ++ [String.ofList b ++ ".skops"] := by
  have hn : ∀ n : String, (⟨abs, dir ++ [n]⟩ : Path).name = n := by intro n; simp [Path.name]
  simp only [outPath, ho, hi, hn, stem_base_ext b e hb hne he]

theorem default_output_name_no_suffix (cfg : Cfg) (dir : List String) (abs : Bool) (name : String)
    (ho : cfg.output = none) (hi : cfg.input = ⟨abs, dir ++ [name]⟩)
    (h : (∀ c ∈ name.toList, c ≠ '.') ∨ (∃ e, name = String.ofList ('.' :: e) ∧ ∀ c ∈ e, c ≠ '.') ∨
         (∃ b, name = String.ofList (b ++ ['.']))) :
    outPath cfg = cfg.cwd ++ [name ++ ".skops"] := by
  have hs : stem name = name := by
    rcases h with h | ⟨e, rfl, he⟩ | ⟨b, rfl⟩
    · exact stem_no_dot name h
    · exact stem_leading_dot e he
    · exact stem_trailing_dot b
  have hn : ∀ n : String, (⟨abs, dir ++ [n]⟩ : Path).name = n := by intro n; simp [Path.name]
  simp only [outPath, ho, hi, hn, hs]

/-- non-vacuity: default output name from the input stem; the warning appears exactly with untrusted types -/
example :
    let v := PyVal.obj "mod.Mine" (.dict .dict .nil)
    let cfg : Cfg := { cwd := ["w"], input := ⟨true, ["data", "model.v1.pkl"]⟩, output := none, chunks := [[5], [6]],
                       untrusted := ["mod.Mine"] }
    let fs : FS := { dirs := [[], ["w"], ["data"]], files := [(["data", "model.v1.pkl"], [1])] }
    (convert v cfg fs).1.fs.read ["w", "model.v1.skops"] = some [5, 6] ∧
    (convert v cfg fs).1.fs.read ["data", "model.v1.pkl"] = some [1] ∧
    (convert v cfg fs).1.logs = ["debug", "warning", "debug"] ∧
    (convert v { cfg with untrusted := [] } fs).1.logs = ["debug", "info", "debug"] ∧
    (convert (.unsupported "x") cfg fs).1.fs.read ["w", "model.v1.skops"] = none := by decide +kernel

end Skops.Properties.C17
