import SkopsModel.Generated.Skeletons
import SkopsModel.Generated.Facts
import SkopsModel.Fs.Canon
import SkopsModel.Io.Value
/-!
# C18 — A failed dump leaves the destination untouched

`Generated.dumpBody`/`Generated.dumpsBody` are the statement skeletons of `skops.io.dump`/`dumps` regenerated from
the source; `encode` is the value-level model of `get_state` (C04/C05) where `none` means "the dump raises".
Modelled, not verified: that `_save` itself touches nothing but its own `BytesIO` — this is the generated flow
fact `saveWritesOnlyBuffer`, re-established from the source on every run and sampled by the harness through
`open` audit events.
-/
namespace Skops.Properties.C18
open Skops.Fs Skops.Io.Value

theorem skeleton_dump : Skops.Generated.dumpBody = dumpProg := rfl
theorem skeleton_dumps : Skops.Generated.dumpsBody = dumpsProg := rfl

/-- the flow facts the skeleton relies on hold of the current source -/
theorem flow_facts :
    Skops.Generated.facts.saveWritesOnlyBuffer = true ∧ Skops.Generated.facts.dumpSavesFirst = true ∧
    Skops.Generated.facts.dumpOpensAfterSave = true ∧ Skops.Generated.facts.dumpsSavesFirst = true := by decide

mutual
/-- an unsupported element somewhere inside: at any depth, in any position of a list/tuple/set/object array, as
a dict value, or in the state of an object -/
def hasUnsupported : PyVal → Bool
  | .unsupported _ => true
  | .list _ xs => hasUnsupportedAll xs
  | .tuple xs => hasUnsupportedAll xs
  | .namedtuple _ xs => hasUnsupportedAll xs
  | .tupleSub _ xs => hasUnsupportedAll xs
  | .set _ xs => hasUnsupportedAll xs
  | .frozenset xs => hasUnsupportedAll xs
  | .dict _ es => hasUnsupportedEntries es
  | .objarray _ cells => hasUnsupportedAll cells
  | .obj _ s => hasUnsupported s
  | .scalar _ => false
  | .opaque _ _ => false
  | .property => false
def hasUnsupportedAll : PyVals → Bool
  | .nil => false
  | .cons x xs => hasUnsupported x || hasUnsupportedAll xs
def hasUnsupportedEntries : PyEntries → Bool
  | .nil => false
  | .cons _ v rest => hasUnsupported v || hasUnsupportedEntries rest
end

mutual
/-- … makes `get_state` raise -/
theorem encode_none : ∀ v : PyVal, hasUnsupported v = true → encode v = none
  | .unsupported _, _ => by simp [encode]
  | .list _ xs, h => by simp [encode, encodeAll_none xs (by simpa [hasUnsupported] using h)]
  | .tuple xs, h => by simp [encode, encodeAll_none xs (by simpa [hasUnsupported] using h)]
  | .namedtuple _ xs, h => by simp [encode, encodeAll_none xs (by simpa [hasUnsupported] using h)]
  | .tupleSub _ xs, h => by simp [encode, encodeAll_none xs (by simpa [hasUnsupported] using h)]
  | .set _ xs, h => by simp [encode, encodeAll_none xs (by simpa [hasUnsupported] using h)]
  | .frozenset xs, h => by simp [encode, encodeAll_none xs (by simpa [hasUnsupported] using h)]
  | .dict _ es, h => by
      have := encodeEntries_none es (by simpa [hasUnsupported] using h)
      simp only [encode, this]
      split <;> rfl
  | .objarray shape cells, h => by
      have := encodeAll_none cells (by simpa [hasUnsupported] using h)
      simp only [encode, this]
      split
      · rfl
      · split <;> simp
  | .obj _ s, h => by simp [encode, encode_none s (by simpa [hasUnsupported] using h)]
  | .scalar _, h => by simp [hasUnsupported] at h
  | .opaque _ _, h => by simp [hasUnsupported] at h
  | .property, h => by simp [hasUnsupported] at h
theorem encodeAll_none : ∀ xs : PyVals, hasUnsupportedAll xs = true → encodeAll xs = none
  | .nil, h => by simp [hasUnsupportedAll] at h
  | .cons x xs, h => by
      simp only [hasUnsupportedAll, Bool.or_eq_true] at h
      rcases h with h | h
      · simp [encodeAll, encode_none x h]
      · have := encodeAll_none xs h
        simp only [encodeAll, this]
        split <;> simp_all
theorem encodeEntries_none : ∀ es : PyEntries, hasUnsupportedEntries es = true → encodeEntries es = none
  | .nil, h => by simp [hasUnsupportedEntries] at h
  | .cons k v rest, h => by
      simp only [hasUnsupportedEntries, Bool.or_eq_true] at h
      rcases h with h | h
      · have hp : v.isProperty = false := by
          cases v <;> simp [PyVal.isProperty, hasUnsupported] at h ⊢
        simp [encodeEntries, hp, encode_none v h]
      · have := encodeEntries_none rest h
        simp only [encodeEntries, this]
        split
        · rfl
        · split <;> simp_all
end

/-- `dump(v, sink)` as translated from the current source, with the outcome of `get_state` taken from the value model -/
def dump (v : PyVal) (cfg : Cfg) (w : World) : World × Sig :=
  execL { cfg with dumpable := (encode v).isSome } Skops.Generated.dumpBody w

def dumps (v : PyVal) (cfg : Cfg) (w : World) : World × Sig :=
  execL { cfg with dumpable := (encode v).isSome } Skops.Generated.dumpsBody w

/-- **C18**: if the object cannot be persisted the call raises and the world — every file (existing or missing
destination alike), the list of operations performed, the bytes received by an open file object — is exactly as
before, whatever kind of sink was given -/
theorem failed_dump_untouched (v : PyVal) (cfg : Cfg) (w : World) (h : encode v = none) :
    dump v cfg w = (w, .raised "dump") := by
  unfold dump
  rw [skeleton_dump]
  simp [dumpProg, execL, execS, h]

/-- … in particular when an unsupported element sits anywhere inside the object -/
theorem unsupported_inside_untouched (v : PyVal) (cfg : Cfg) (w : World) (h : hasUnsupported v = true) :
    dump v cfg w = (w, .raised "dump") :=
  failed_dump_untouched v cfg w (encode_none v h)

/-- `dumps` returns nothing partial -/
theorem failed_dumps_nothing (v : PyVal) (cfg : Cfg) (w : World) (h : encode v = none) :
    dumps v cfg w = (w, .raised "dump") := by
  unfold dumps
  rw [skeleton_dumps]
  simp [dumpsProg, execL, execS, h]

/-- non-vacuity: a supported object does get written, to a path and to a file object -/
example :
    let v := PyVal.list "builtins.list" (.cons (.scalar (.int "1")) .nil)
    let cfg : Cfg := { cwd := ["w"], input := ⟨false, []⟩, output := some ⟨false, ["m.skops"]⟩, chunks := [[5, 5]] }
    let fs : FS := { dirs := [[], ["w"]], files := [(["w", "m.skops"], [9])] }
    (dump v cfg { fs := fs, output := cfg.output }).1.fs.read ["w", "m.skops"] = some [5, 5] ∧
    (dump v { cfg with sinkIsPath := false } { fs := fs, output := cfg.output }).1.handle = [[5, 5]] ∧
    (dump (.list "builtins.list" (.cons (.scalar (.int "1")) (.cons (.tuple (.cons (.unsupported "dok") .nil)) .nil))) cfg
        { fs := fs, output := cfg.output }).1.fs.read ["w", "m.skops"] = some [9] := by decide +kernel

end Skops.Properties.C18
