import SkopsModel.Conc.Frame
import SkopsModel.Card.Ops
import SkopsModel.Io.Load
import SkopsModel.Io.Value
import SkopsModel.Generated.Frame
/-!
# C20 — Calls are independent of history and of concurrent calls

The process model of `Conc/Frame.lean`, instantiated with the models of the API calls themselves: the model-card
operations (`Card.step`, one state per `Card` instance) and the persistence calls (`encode` for `dumps`, `load`,
`getUntrustedTypes` — functions of their arguments and the import-time tables only).  What links the model to the
code is the frame hypothesis; it is re-derived from the source by `harness/translate/frame.py` on every run
(`Generated.frameFacts`) and `frame_facts_hold` checks it by `decide`.

PARTIAL: real CPython interleavings (byte-code granularity, the GIL, C extensions releasing it) are not
enumerated by any theorem; the schedule theorem is about micro-steps that respect the frame, and whether the real
calls do is established statically (translator) and sampled dynamically (isolated vs sequenced vs threaded runs).
-/
namespace Skops.Properties.C20
open Skops.Conc

/-- every frame fact extracted from the current source holds -/
theorem frame_facts_hold : Skops.Generated.frameFacts.all = true := by decide

/-! ### model-card calls: one state per `Card` instance -/

/-- a card call as a process step: the shared state is not even an argument of `Card.step` -/
def cardStep : Step Unit Skops.Card.Card Skops.Card.Op Skops.Card.Out :=
  fun g c op => (g, (Skops.Card.step c op).1, (Skops.Card.step c op).2)

theorem cardStep_frame : FrameRespecting cardStep := fun _ _ _ => rfl

/-- **separate Card instances never share sections or metrics**, and every card operation's result depends only on
the operations applied to that card before: in any history over any number of cards, card `i` ends in the state
and returns the results of its own operations alone -/
theorem cards_independent (cards : Nat → Skops.Card.Card) (h : List (Nat × Skops.Card.Op)) (i : Nat) :
    (runHist cardStep () cards h).2.1 i = (runAlone cardStep () (cards i) (opsOn i h)).1 ∧
    resultsOn i (runHist cardStep () cards h).2.2 = (runAlone cardStep () (cards i) (opsOn i h)).2 :=
  history_independent cardStep cardStep_frame () cards h i

/-! ### persistence calls: functions of their arguments and the import-time registry -/

inductive IoCall
  | dumps (v : Skops.Io.Value.PyVal)
  | loads (schema : Skops.J) (members : List String) (fuel : Nat) (T : List String)
  | untrusted (schema : Skops.J) (members : List String) (fuel : Nat)

inductive IoResult
  | dumped (s : Option Skops.Io.Value.Sch)
  | loaded (o : Skops.Io.Outcome)
  | names (l : Option (List String))

/-- the registry/table is the shared state: filled at import, only read afterwards -/
def ioStep : Step Skops.Io.Table Unit IoCall IoResult := fun tbl _ c =>
  match c with
  | .dumps v => (tbl, (), .dumped (Skops.Io.Value.encode v))
  | .loads s m f T => (tbl, (), .loaded (Skops.Io.load tbl s m f T))
  | .untrusted s m f => (tbl, (), .names (Skops.Io.getUntrustedTypes tbl s m f))

theorem ioStep_frame : FrameRespecting ioStep := by
  intro g l op
  cases op <;> rfl

/-- the result of a persistence call is the same whether it is the first call in a fresh process or follows any
sequence of other calls -/
theorem io_call_history_free (tbl : Skops.Io.Table) (before : List (Nat × IoCall)) (i : Nat) (c : IoCall)
    (hb : ∀ x ∈ before, x.1 ≠ i) :
    resultsOn i (runHist ioStep tbl (fun _ => ()) (before ++ [(i, c)])).2.2 = [(ioStep tbl () c).2.2] :=
  first_or_later ioStep ioStep_frame tbl _ before i c hb

/-! ### threads -/

/-- under any interleaving of frame-respecting micro-steps, each thread computes what it computes alone -/
theorem threads_independent {G L : Type} (micro : Micro G L) (hf : MicroFrame micro) (g : G) (locals : Nat → L)
    (sched : List Nat) (i : Nat) :
    (runSched micro g locals sched).2 i = iter (fun l => (micro g l).2) (sched.count i) (locals i) :=
  schedule_independent micro hf g locals sched i

/-- the frame hypothesis is necessary: a memoising step is history dependent -/
theorem leaky_counterexample :
    resultsOn 1 (runHist leakyStep none (fun _ => ()) [(0, 7), (1, 5)]).2.2 ≠
    resultsOn 1 (runHist leakyStep none (fun _ => ()) [(1, 5)]).2.2 := leaky_history_dependent

/-- non-vacuity: two cards in one history -/
example :
    let h : List (Nat × Skops.Card.Op) := [(0, .add false [("A", "x")]), (1, .add false [("B", "y")]), (0, .render), (1, .render)]
    resultsOn 0 (runHist cardStep () (fun _ => {}) h).2.2 = (runAlone cardStep () {} (opsOn 0 h)).2 :=
  (cards_independent (fun _ => {}) _ 0).2

end Skops.Properties.C20
