import SkopsModel.Card.Ops
import SkopsModel.Lemmas.Forest
import SkopsModel.Lemmas.Path
/-!
# C09 — The model card is an ordered section tree with stable addressing

Property theorems only (helper lemmas live in `Lemmas/`).
The abstract specification of a card is a partial map from full paths to section data
(`Spec`, obtained by `dataAt`) together with the order of the keys at every level (`kidsAt`).
-/
namespace Skops.Properties.C09
open Skops Skops.Card Skops.Card.Forest

/-- abstract card: which section data lives at each full path -/
abbrev Spec := List String → Option Sec

/-- Specification of `add` at full path `full`: the section there becomes `s`; every missing
ancestor is created with empty content; nothing else changes. -/
def specAdd (m : Spec) (full : List String) (s : Sec) : Spec := fun q =>
  if q = full then some s
  else if q ≠ [] ∧ q <+: full then some ((m q).getD (emptySec (q.getLast?.getD "")))
  else m q

/-- Specification of `delete`: the whole subtree disappears, nothing else changes. -/
def specDelete (m : Spec) (full : List String) : Spec := fun q =>
  if full <+: q then none else m q

/-- Specification of the key order after `add`: at every ancestor level the next path element is
appended if it is new and keeps its position otherwise; the added section keeps its subsections;
every other level is untouched. -/
def specKidsAdd (kids : List String → Option (List String)) (full q : List String) :
    Option (List String) :=
  if h : q.length < full.length ∧ q <+: full then
    let k := full[q.length]'h.1
    let ks := (kids q).getD []
    some (if k ∈ ks then ks else ks ++ [k])
  else if q = full then some ((kids q).getD [])
  else kids q

/-! ## 1. path splitting -/

/-- `split_subsection_names` is the property's sentence: split on unescaped '/', strip each part,
`\/` yields a literal slash — for every key. -/
theorem split_spec (key : List Char) : splitImpl key = splitSpec key :=
  Skops.Card.splitImpl_eq_spec key

/-! ## 2. `add` -/

/-- adding refines the abstract map: the target holds the new section, missing ancestors appear
with empty content, existing ancestors and everything unrelated are untouched -/
theorem add_refines (f : Forest) (p : List String) (leaf : String) (s : Sec) (q : List String) :
    dataAt (f.addAt p leaf s) q = specAdd (dataAt f) (p ++ [leaf]) s q := by
  induction p generalizing f q with
  | nil =>
    simp only [addAt, List.nil_append]
    match q with
    | [] => simp [dataAt, specAdd]
    | [k] =>
      by_cases hk : k = leaf
      · subst hk; simp [dataAt, specAdd, lookup_single, get?_setLeaf_same]
      · simp [dataAt, specAdd, lookup_single, get?_setLeaf_other _ _ _ _ hk, hk]
    | k :: k' :: ks =>
      have hne : ¬ (k :: k' :: ks = [leaf]) := by simp
      have hpre : ¬ (k :: k' :: ks <+: [leaf]) := by
        intro h; have := h.length_le; simp at this
      simp only [dataAt, specAdd, hne, if_false, hpre, and_false, lookup_cons_cons]
      by_cases hk : k = leaf
      · subst hk
        rw [get?_setLeaf_same]
        cases hg : f.get? k with
        | none => simp [lookup_of_nil]
        | some pr => simp
      · rw [get?_setLeaf_other _ _ _ _ hk]
  | cons n ns ih =>
    match q with
    | [] => simp [dataAt, specAdd]
    | [k] =>
      by_cases hk : k = n
      · subst hk
        simp [dataAt, specAdd, lookup_single, get?_addAt_cons_same]
      · simp [dataAt, specAdd, lookup_single, get?_addAt_cons_other _ _ _ _ _ _ hk, hk]
    | k :: k' :: ks =>
      by_cases hk : k = n
      · subst hk
        have ih' := ih (((f.get? k).map (·.2)).getD nil) (k' :: ks)
        simp only [dataAt, lookup_cons_cons, get?_addAt_cons_same] at ih' ⊢
        rw [ih']
        simp only [specAdd, List.cons_append, List.cons.injEq, true_and, List.cons_prefix_cons,
          ne_eq, reduceCtorEq, not_false_eq_true, List.getLast?_cons_cons, dataAt_child]
      · have hne : ¬ (k :: k' :: ks = n :: ns ++ [leaf]) := by
          intro h; simp at h; exact hk h.1
        have hpre : ¬ (k :: k' :: ks <+: n :: ns ++ [leaf]) := by
          intro h; simp [List.cons_prefix_cons] at h; exact hk h.1
        simp only [dataAt, specAdd, hne, if_false, hpre, and_false, lookup_cons_cons,
          get?_addAt_cons_other _ _ _ _ _ _ hk]

/-- `select` right after `add` returns exactly what was added, with the subsections the section
had before (none if it is new) -/
theorem select_add_same (f : Forest) (p : List String) (leaf : String) (s : Sec) :
    (f.addAt p leaf s).selectAt p leaf =
      some (s, ((f.selectAt p leaf).map (·.2)).getD nil) := by
  induction p generalizing f with
  | nil => simp [selectAt, descend, addAt, get?_setLeaf_same]
  | cons n ns ih =>
    have h := ih (((f.get? n).map (·.2)).getD nil)
    simp only [selectAt, descend_cons, get?_addAt_cons_same] at h ⊢
    rw [h]
    cases hg : f.get? n with
    | none =>
      cases ns <;> simp [descend, descend_of_nil, get?]
    | some pr => simp

/-- key order: an existing section keeps its position, a new one goes to the end of its parent,
the section's own subsections are kept, all other levels are untouched -/
theorem add_kids (f : Forest) (p : List String) (leaf : String) (s : Sec) (q : List String) :
    kidsAt (f.addAt p leaf s) q = specKidsAdd (kidsAt f) (p ++ [leaf]) q := by
  induction p generalizing f q with
  | nil =>
    simp only [addAt, List.nil_append]
    match q with
    | [] =>
      simp [kidsAt, specKidsAdd, descend, keys_setLeaf]
      split <;> simp_all
    | [k] =>
      by_cases hk : k = leaf
      · subst hk
        simp only [kidsAt_cons, get?_setLeaf_same, specKidsAdd]
        cases hg : f.get? k <;> simp [kidsAt, descend, keys]
      · simp [kidsAt_cons, specKidsAdd, get?_setLeaf_other _ _ _ _ hk, hk]
    | k :: k' :: ks =>
      have hne : ¬ (k :: k' :: ks = [leaf]) := by simp
      simp only [specKidsAdd, hne, if_false, List.length_cons, List.length_nil]
      rw [dif_neg (by omega)]
      by_cases hk : k = leaf
      · subst hk
        simp only [kidsAt_cons _ k, get?_setLeaf_same]
        cases hg : f.get? k with
        | none => simp [kidsAt, descend_of_nil]
        | some pr => simp
      · simp only [kidsAt_cons _ k, get?_setLeaf_other _ _ _ _ hk]
  | cons n ns ih =>
    match q with
    | [] =>
      simp [kidsAt, specKidsAdd, descend, keys_addAt_cons]
      split <;> simp_all
    | k :: ks =>
      by_cases hk : k = n
      · subst hk
        have ih' := ih (((f.get? k).map (·.2)).getD nil) ks
        rw [kidsAt_cons, get?_addAt_cons_same]
        simp only []
        rw [ih']
        unfold specKidsAdd
        simp only [List.cons_append, List.length_cons, List.cons_prefix_cons, true_and,
          List.cons.injEq, Nat.add_lt_add_iff_right, List.getElem_cons_succ, kidsAt_child_getD]
        by_cases h1 : ks.length < (ns ++ [leaf]).length ∧ ks <+: ns ++ [leaf]
        · rw [dif_pos h1, dif_pos h1]
        · rw [dif_neg h1, dif_neg h1]
          have hne : ks ≠ [] := by
            intro h; apply h1; subst h; simp
          rw [kidsAt_child _ _ _ hne]
      · have hne : ¬ (k :: ks = n :: ns ++ [leaf]) := by
          intro h; simp at h; exact hk h.1
        unfold specKidsAdd
        have hpre : ¬ ((k :: ks).length < (n :: ns ++ [leaf]).length ∧ k :: ks <+: n :: ns ++ [leaf]) := by
          intro h; simp [List.cons_prefix_cons] at h; exact hk h.2.1
        rw [dif_neg hpre, if_neg hne]
        simp only [kidsAt_cons _ k, get?_addAt_cons_other _ _ _ _ _ _ hk]

/-! ## 3. `delete` -/

/-- deleting fails (KeyError) exactly when the path does not exist -/
theorem delete_fails_iff (f : Forest) (p : List String) (leaf : String) :
    f.deleteAt p leaf = none ↔ lookup f (p ++ [leaf]) = none := by
  induction p generalizing f with
  | nil => simp [deleteAt, updateAt, erase_eq_none_iff, lookup_single]
  | cons n ns ih =>
    have h2 : ∃ k' ks', ns ++ [leaf] = k' :: ks' := by
      cases ns with
      | nil => exact ⟨leaf, [], rfl⟩
      | cons a b => exact ⟨a, b ++ [leaf], rfl⟩
    obtain ⟨k', ks', hk⟩ := h2
    simp only [deleteAt] at ih ⊢
    rw [updateAt_cons_none, List.cons_append, hk, lookup_cons_cons]
    cases hg : f.get? n with
    | none => simp
    | some pr =>
      obtain ⟨s, ch⟩ := pr
      have := ih ch
      rw [hk] at this
      simp only [Option.some.injEq, Prod.mk.injEq, reduceCtorEq, false_or]
      constructor
      · rintro ⟨s1, ch1, ⟨_, rfl⟩, h⟩; exact this.mp h
      · intro h; exact ⟨s, ch, ⟨rfl, rfl⟩, this.mpr h⟩

/-- a successful delete removes the whole subtree and nothing else -/
theorem delete_refines (f f' : Forest) (p : List String) (leaf : String) (hw : WF f)
    (h : f.deleteAt p leaf = some f') (q : List String) :
    dataAt f' q = specDelete (dataAt f) (p ++ [leaf]) q := by
  induction p generalizing f f' q with
  | nil =>
    simp only [deleteAt, updateAt] at h
    match q with
    | [] => simp [dataAt, specDelete]
    | k :: ks =>
      by_cases hk : k = leaf
      · subst hk
        have := get?_erase_same f f' k hw h
        simp [dataAt, specDelete, lookup, this, List.cons_prefix_cons]
      · have := get?_erase_other f f' leaf k h hk
        have hk' : ¬ (leaf = k) := fun e => hk e.symm
        simp [dataAt, specDelete, lookup_congr_head f f' k ks this, List.cons_prefix_cons, hk']
  | cons n ns ih =>
    obtain ⟨s, ch, ch', h1, h2, h3, h4, _⟩ := updateAt_cons_some _ f f' n ns h
    have hwch : WF ch := by
      clear ih h h2 h3 h4 ‹f'.keys = f.keys›
      induction f with
      | nil => simp [get?] at h1
      | cons k s0 c0 rest _ ihr =>
        by_cases hk : k = n
        · subst hk; simp [get?] at h1; rw [← h1.2]; exact hw.2.1
        · simp [get?, hk] at h1; exact ihr hw.2.2 h1
    match q with
    | [] => simp [dataAt, specDelete]
    | [k] =>
      have hpre : ¬ (n :: ns ++ [leaf] <+: [k]) := by
        intro hp; have := hp.length_le; simp at this
      by_cases hk : k = n
      · subst hk; simp [dataAt, specDelete, lookup_single, h1, h3, hpre]
      · simp [dataAt, specDelete, lookup_single, h4 k hk, hpre]
    | k :: k' :: ks =>
      by_cases hk : k = n
      · subst hk
        have ih' := ih ch ch' hwch h2 (k' :: ks)
        simp only [dataAt, specDelete, lookup_cons_cons, h1, h3, List.cons_append,
          List.cons_prefix_cons, true_and] at ih' ⊢
        exact ih'
      · have hpre : ¬ (n :: ns ++ [leaf] <+: k :: k' :: ks) := by
          intro hp; simp [List.cons_prefix_cons] at hp; exact hk hp.1.symm
        simp only [dataAt, specDelete, hpre, if_false, lookup_congr_head f f' k (k' :: ks) (h4 k hk)]

/-- `KeyError` changes nothing: selecting never modifies the card, and a failing delete,
`set_visible`/`set_folded` leaves the card exactly as it was -/
theorem errors_change_nothing (c : Card) :
    (∀ key, (step c (.select key)).1 = c) ∧
    (∀ key more, (step c (.selectChain key more)).1 = c) ∧
    (∀ key e, (step c (.delete key)).2 = .err e → (step c (.delete key)).1 = c) ∧
    (∀ names e, (step c (.deleteList names)).2 = .err e → (step c (.deleteList names)).1 = c) := by
  refine ⟨fun _ => rfl, fun _ _ => rfl, ?_, ?_⟩
  · intro key e h
    simp only [step] at h ⊢
    cases hd : cardDelete c.data key <;> simp_all
  · intro names e h
    simp only [step] at h ⊢
    cases hd : cardDeleteList c.data names <;> simp_all

/-- an empty name or an empty last part is always a `KeyError` for select and delete -/
theorem empty_name_keyError (f : Forest) :
    cardSelect f "" = .error .keyError ∧ cardDelete f "" = .error .keyError ∧
    cardDeleteList f [] = .error .keyError ∧
    (∀ key, (keyPath key).2 = "" → cardSelect f key = .error .keyError ∧
                                     cardDelete f key = .error .keyError) := by
  refine ⟨by simp [cardSelect], by simp [cardDelete], by simp [cardDeleteList], ?_⟩
  intro key h
  constructor
  · simp only [cardSelect]; split <;> simp_all
  · simp only [cardDelete]; split <;> simp_all

/-- selecting a missing path is a `KeyError`; an existing one returns the stored section -/
theorem select_exact (f : Forest) (key : String) (hk : key ≠ "") (hl : (keyPath key).2 ≠ "") :
    cardSelect f key =
      match lookup f ((keyPath key).1 ++ [(keyPath key).2]) with
      | some r => .ok r
      | none => .error .keyError := by
  simp only [cardSelect, hk, if_false, hl, selectAt_eq_lookup]
  cases lookup f ((keyPath key).1 ++ [(keyPath key).2]) <;> rfl

/-- chained `select` equals a single `select` of the concatenated path -/
theorem chained_select (f : Forest) (p : List String) (leaf : String) (s : Sec) (ch : Forest)
    (h : f.selectAt p leaf = some (s, ch)) (p2 : List String) (leaf2 : String) :
    ch.selectAt p2 leaf2 = f.selectAt (p ++ leaf :: p2) leaf2 := by
  induction p generalizing f with
  | nil =>
    simp only [selectAt, descend] at h
    simp [selectAt, descend_cons, h]
  | cons n ns ih =>
    simp only [selectAt, descend_cons] at h ⊢
    cases hg : f.get? n with
    | none => simp [hg] at h
    | some pr =>
      obtain ⟨s0, c0⟩ := pr
      simp only [hg] at h
      have := ih c0 h
      simp only [selectAt] at this
      rw [this]
      simp [descend_cons _ n, hg]

/-! ## 4. histories -/

/-- a structural edit of the tree -/
inductive Edit
  | add (p : List String) (leaf : String) (s : Sec)
  | del (p : List String) (leaf : String)

def applyEdit (f : Forest) : Edit → Forest
  | .add p leaf s => f.addAt p leaf s
  | .del p leaf => (f.deleteAt p leaf).getD f        -- a failing delete changes nothing

def specEdit (m : Spec) : Edit → Spec
  | .add p leaf s => specAdd m (p ++ [leaf]) s
  | .del p leaf => if m (p ++ [leaf]) = none then m else specDelete m (p ++ [leaf])

/-- every reachable forest encodes a dict tree (unique keys per level) -/
theorem wf_history (edits : List Edit) (f : Forest) (hw : WF f) : WF (edits.foldl applyEdit f) := by
  induction edits generalizing f with
  | nil => exact hw
  | cons e es ih =>
    apply ih
    cases e with
    | add p leaf s => exact wf_addAt f p leaf s hw
    | del p leaf =>
      simp only [applyEdit]
      cases hd : f.deleteAt p leaf with
      | none => simpa using hw
      | some f' =>
        simp only [Option.getD_some]
        exact wf_updateAt _ (fun d d' hwd he => wf_erase d d' leaf hwd he) f f' p hw hd

/-- **Refinement for every history**: after any sequence of adds and deletes, starting from the
empty card, the tree is exactly what the abstract map says — so `select` returns what was last
added at a path unless a later delete removed it or an ancestor. -/
theorem history_refines (edits : List Edit) (f : Forest) (hw : WF f) :
    dataAt (edits.foldl applyEdit f) = edits.foldl specEdit (dataAt f) := by
  induction edits generalizing f with
  | nil => rfl
  | cons e es ih =>
    simp only [List.foldl_cons]
    have hw' : WF (applyEdit f e) := wf_history [e] f hw
    rw [ih _ hw']
    congr 1
    funext q
    cases e with
    | add p leaf s => exact add_refines f p leaf s q
    | del p leaf =>
      simp only [applyEdit, specEdit]
      cases hd : f.deleteAt p leaf with
      | none =>
        have := (delete_fails_iff f p leaf).mp hd
        simp [dataAt, this]
      | some f' =>
        have hne : ¬ (dataAt f (p ++ [leaf]) = none) := by
          intro hn
          have : lookup f (p ++ [leaf]) = none := by
            simpa [dataAt] using hn
          rw [← delete_fails_iff] at this
          simp [this] at hd
        simp only [Option.getD_some, hne, if_false]
        exact delete_refines f f' p leaf hw hd q

/-- the card operations *are* such edits: `add` with several keys is the left fold of the
single-key edits (so several items in one call equal one call per item), `delete` is one edit -/
theorem step_add_is_edits (c : Card) (folded : Bool) (items : List (String × String)) :
    (step c (.add folded items)).1.data =
      (items.map fun kv => Edit.add (keyPath kv.1).1 (keyPath kv.1).2
        { title := (keyPath kv.1).2, body := .text kv.2, folded := folded }).foldl applyEdit c.data := by
  simp only [step, addSingle, List.foldl_map, applyEdit]

theorem step_delete_is_edit (c : Card) (key : String) (hk : key ≠ "") (hl : (keyPath key).2 ≠ "") :
    (step c (.delete key)).1.data = applyEdit c.data (.del (keyPath key).1 (keyPath key).2) := by
  simp only [step, cardDelete, hk, if_false, hl, applyEdit]
  cases hd : c.data.deleteAt (keyPath key).1 (keyPath key).2 <;> simp

/-! ## non-vacuity -/

example : WF (Forest.nil.addAt ["A"] "B" (emptySec "B")) := by simp [WF, addAt, chain, keys]
example : (Forest.nil.addAt ["A"] "B" { title := "B", body := .text "x" }).deleteAt ["A"] "B"
    = some (Forest.cons "A" (emptySec "A") .nil .nil) := by decide
example : split "a \\/ b/ c" = ["a / b", "c"] := by decide
example : split "\\/a" = ["/a"] := by decide

end Skops.Properties.C09
