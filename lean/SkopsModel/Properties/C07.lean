import SkopsModel.Properties.C05
/-!
# C07 — A reloaded scikit-learn estimator is the same model

What Lean carries is the object layer: an estimator is `PyVal.obj cls state`; pipelines, unions, searches,
ensembles are just nested `obj`s inside lists / tuples / dicts of that state.  The numerical behaviour of
scikit-learn is outside any Lean model: "equal state ⇒ bit-identical predictions" is the contract that the
prediction methods are deterministic functions of the state, exercised by the harness on the estimator zoo.
-/
namespace Skops.Properties.C07
open Skops.Io.Value Skops.Properties.C05

/-- **state preserved**: an estimator — arbitrarily nested — whose state only contains supported values is
loaded with exactly that class and state, and stays so under repeated cycles -/
theorem state_preserved (cls : String) (state : PyVal) (h : Supported state) :
    cycle (.obj cls state) = some (.obj cls state) := roundtrip (.obj cls state) h

/-- compositions: a pipeline-like object holding a list of (name, estimator) pairs -/
theorem composition_preserved (outer : String) (steps : PyVals) (h : SupportedAll steps) :
    cycle (.obj outer (.dict .dict (.cons (.str "steps") (.list "builtins.list" steps) .nil))) =
      some (.obj outer (.dict .dict (.cons (.str "steps") (.list "builtins.list" steps) .nil))) := by
  apply roundtrip
  simp [Supported, SupportedEntries, supportedKey, PyEntries.keys, h]

/-! non-vacuity: Pipeline([("s", Scaler{mean_: <array>}), ("c", Clf{coef_: <array>, classes_: <array>})]) -/
example : Supported (.obj "sklearn.pipeline.Pipeline" (.dict .dict (.cons (.str "steps") (.list "builtins.list"
    (.cons (.tuple (.cons (.scalar (.str "s")) (.cons (.obj "Scaler" (.dict .dict (.cons (.str "mean_") (.opaque "ndarray" "a") .nil))) .nil))) .nil)) .nil))) := by
  simp [Supported, SupportedEntries, SupportedAll, supportedKey, PyEntries.keys, Key.text]

end Skops.Properties.C07
