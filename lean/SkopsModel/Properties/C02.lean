import SkopsModel.Io.Load
import SkopsModel.Io.Obligations
import SkopsModel.Generated.Specs
import SkopsModel.Generated.Facts
/-!
# C02 — Inspecting an archive is inert
-/
namespace Skops.Properties.C02
open Skops Skops.Io

/-- **generated side-condition**: no registered loader does anything in `__init__` except reading the
state, reading zip members by name and building child nodes (no import, no name resolution, no call
of anything the archive names, no file access besides `load_context.src.read`) -/
theorem table_init_inert : Generated.table.AllInitInert = true := by decide

/-- generated flow facts: `get_untrusted_types` and `visualize` never call `construct`; `load`/`loads`
audit before they construct; `get_untrusted_types` builds the tree with `trusted=None` -/
theorem flow_facts :
    Generated.facts.untrustedNoConstruct = true ∧ Generated.facts.visualizeNoConstruct = true ∧
    Generated.facts.loadOrder = true ∧ Generated.facts.loadsOrder = true ∧
    Generated.facts.untrustedTreeWithNone = true := by decide

variable (tbl : Table)

theorem kind_inert (h : tbl.AllInitInert = true) (kind : Nat) : (tbl.kind kind).initEffects = [] := by
  unfold Table.kind
  by_cases hlt : kind < tbl.kinds.length
  · simp only [Table.AllInitInert, List.all_eq_true] at h
    have := h _ (List.getElem_mem hlt)
    simp only [List.getD_eq_getElem?_getD, List.getElem?_eq_getElem hlt, Option.getD_some]
    simpa [KindSpec.initInert] using this
  · have : tbl.kinds[kind]? = none := List.getElem?_eq_none (by omega)
    simp [List.getD_eq_getElem?_getD, this]

mutual
theorem node_inert (h : tbl.AllInitInert = true) : ∀ n : Node, n.initEvents tbl = []
  | .backref _ => rfl
  | .mk _ kind _ _ _ kids ref => by
    simp [Node.initEvents, kind_inert tbl h kind, kids_inert h kids, ref_inert h ref]
theorem kids_inert (h : tbl.AllInitInert = true) : ∀ ks : Kids, ks.initEvents tbl = []
  | .nil => rfl
  | .node _ _ _ n rest => by simp [Kids.initEvents, node_inert h n, kids_inert h rest]
  | .raw _ _ rest => by simpa [Kids.initEvents] using kids_inert h rest
  | .absent _ rest => by simpa [Kids.initEvents] using kids_inert h rest
  | .blob _ _ rest => by simpa [Kids.initEvents] using kids_inert h rest
  | .synth _ _ _ _ _ rest => by simpa [Kids.initEvents] using kids_inert h rest
theorem ref_inert (h : tbl.AllInitInert = true) : ∀ r : Ref, r.initEvents tbl = []
  | .to n => by simpa [Ref.initEvents] using node_inert h n
  | .no => rfl
  | .missing => rfl
end

/-- **building the tree is inert**: whatever the archive contains — every loader kind at every
protocol, any name in any string slot — the nodes built for it performed nothing besides reading -/
theorem tree_building_inert (h : tbl.AllInitInert = true) (root : Node) : root.initEvents tbl = [] :=
  node_inert tbl h root

/-- the verdict (`get_untrusted_types`, and the part of `load` before the trust decision) is a function
of the tree alone: the construct trace `traceOf` is only ever produced by the `constructed` outcome -/
theorem verdict_before_construct (root : Node) (T : List String) :
    (∃ names, loadTree tbl root T = .untrusted names) ∨ loadTree tbl root T = .auditError ∨
    loadTree tbl root T = .constructed (traceOf tbl root) := by
  simp only [loadTree]
  cases root.unsafe tbl T with
  | none => exact Or.inr (Or.inl rfl)
  | some l =>
    by_cases he : (sortDedup l).isEmpty = true
    · exact Or.inr (Or.inr (by simp [he]))
    · exact Or.inl ⟨sortDedup l, by simp [he]⟩

theorem C02_current (root : Node) : root.initEvents Generated.table = [] :=
  tree_building_inert Generated.table table_init_inert root

end Skops.Properties.C02
