import SkopsModel.Io.Visualize
import SkopsModel.Lemmas.IoAudit
import SkopsModel.Generated.Specs
/-!
# C13 — visualize is total and agrees with the audit
-/
namespace Skops.Properties.C13
open Skops Skops.Io

variable (tbl : Table) (T : List String)

/-- each row is at most one level deeper than the previous one, and not above `base` -/
def Steps (base : Nat) : List Row → Prop
  | [] => True
  | [r] => base ≤ r.level
  | a :: b :: rest => base ≤ a.level ∧ b.level ≤ a.level + 1 ∧ Steps base (b :: rest)

/-- a well-formed listing: first row at `level`, then `Steps` -/
def WellFormedFrom (level : Nat) (rows : List Row) : Prop :=
  match rows with
  | [] => True
  | r :: _ => r.level = level ∧ Steps level rows

theorem steps_append (base : Nat) : ∀ (xs ys : List Row), Steps base xs → Steps base ys →
    (∀ x y, xs.getLast? = some x → ys.head? = some y → y.level ≤ x.level + 1) → Steps base (xs ++ ys)
  | [], ys, _, hy, _ => hy
  | [a], [], hx, _, _ => by simpa using hx
  | [a], y :: ys, hx, hy, hl => by
    have := hl a y rfl rfl
    simp only [List.cons_append, List.nil_append]
    cases ys with
    | nil => exact ⟨hx, this, hy⟩
    | cons z zs => exact ⟨hx, this, hy⟩
  | a :: b :: rest, ys, hx, hy, hl => by
    simp only [List.cons_append]
    refine ⟨hx.1, hx.2.1, ?_⟩
    have := steps_append base (b :: rest) ys hx.2.2 hy (by
      intro x y h1 h2
      exact hl x y (by simpa [List.getLast?_cons_cons] using h1) h2)
    simpa using this

/-- all rows of a listing are at or below `base`, and the last row bounds how deep the next may start -/
theorem steps_ge (base : Nat) : ∀ rows : List Row, Steps base rows → ∀ r ∈ rows, base ≤ r.level
  | [], _, r, hr => by cases hr
  | [a], h, r, hr => by simp at hr; subst hr; exact h
  | a :: b :: rest, h, r, hr => by
    cases hr with
    | head => exact h.1
    | tail _ hr' => exact steps_ge base (b :: rest) h.2.2 r hr'

mutual
/-- the stream handed to a custom sink: rows of a subtree start at `level`, never go above it and
descend by at most one per row -/
theorem node_walk_steps : ∀ (n : Node) (key : String) (level : Nat) (rows : List Row),
    n.walk tbl T key level = .ok rows → (rows = [] ∨ (rows.head?.map (·.level) = some level)) ∧ Steps level rows
  | .backref _, _, _, _, h => by simp [Node.walk] at h
  | .mk nid kind mod cls extra kids ref, key, level, rows, h => by
    simp only [Node.walk] at h
    split at h
    · rename_i ss sf _ _
      split at h
      · cases h; exact ⟨Or.inl rfl, trivial⟩
      · split at h
        · cases h; exact ⟨Or.inr rfl, Nat.le_refl _⟩
        · cases hk : kids.walk tbl T (level + 1) with
          | error e => simp [hk] at h
          | ok rest =>
            simp only [hk, Except.ok.injEq] at h
            subst h
            have hr := kids_walk_steps kids (level + 1) rest hk
            refine ⟨Or.inr rfl, ?_⟩
            cases rest with
            | nil => exact Nat.le_refl _
            | cons b bs =>
              have hb : b.level = level + 1 := by
                rcases hr.1 with h0 | h0
                · cases h0
                · simpa using h0
              refine ⟨Nat.le_refl _, by simp [hb], ?_⟩
              -- rows of the children are ≥ level + 1 ≥ level
              have : ∀ (l : List Row), Steps (level + 1) l → Steps level l := by
                intro l
                induction l with
                | nil => intro _; trivial
                | cons x xs ih =>
                  intro hs
                  cases xs with
                  | nil => exact Nat.le_of_succ_le hs
                  | cons y ys => exact ⟨Nat.le_of_succ_le hs.1, hs.2.1, ih hs.2.2⟩
              exact this _ hr.2
    · cases h
theorem kids_walk_steps : ∀ (ks : Kids) (level : Nat) (rows : List Row),
    ks.walk tbl T level = .ok rows → (rows = [] ∨ (rows.head?.map (·.level) = some level)) ∧ Steps level rows
  | .nil, _, _, h => by simp [Kids.walk] at h; subst h; exact ⟨Or.inl rfl, trivial⟩
  | .node _ label _ n rest, level, rows, h => by
    simp only [Kids.walk] at h
    cases hn : n.walk tbl T label level with
    | error e => simp [hn] at h
    | ok a =>
      cases hr : rest.walk tbl T level with
      | error e => simp [hn, hr] at h
      | ok b =>
        simp only [hn, hr, Except.ok.injEq] at h
        subst h
        have ha := node_walk_steps n label level a hn
        have hb := kids_walk_steps rest level b hr
        constructor
        · cases a with
          | nil => simpa using hb.1
          | cons x xs => rcases ha.1 with h0 | h0 <;> simp_all
        · apply steps_append level a b ha.2 hb.2
          intro x y hx hy
          have hyl : y.level = level := by
            rcases hb.1 with h0 | h0
            · subst h0; simp at hy
            · cases b with
              | nil => simp at hy
              | cons z zs => simp at hy h0; subst hy; exact h0
          have hxl : level ≤ x.level := steps_ge level a ha.2 x (List.mem_of_getLast? hx)
          omega
  | .raw _ _ rest, level, rows, h => kids_walk_steps rest level rows (by simpa [Kids.walk] using h)
  | .absent _ rest, level, rows, h => kids_walk_steps rest level rows (by simpa [Kids.walk] using h)
  | .blob _ _ rest, level, rows, h => kids_walk_steps rest level rows (by simpa [Kids.walk] using h)
  | .synth slot _ mod cls extra rest, level, rows, h => by
    simp only [Kids.walk] at h
    cases hq : qual mod cls with
    | none => simp [hq] at h
    | some q =>
      cases hr : rest.walk tbl T level with
      | error e => simp [hq, hr] at h
      | ok b =>
        simp only [hq, hr, Except.ok.injEq] at h
        subst h
        have hb := kids_walk_steps rest level b hr
        refine ⟨Or.inr rfl, ?_⟩
        cases b with
        | nil => exact Nat.le_refl _
        | cons y ys =>
          have hyl : y.level = level := by
            rcases hb.1 with h0 | h0
            · cases h0
            · simpa using h0
          exact ⟨Nat.le_refl _, by simp [hyl], hb.2⟩
end

/-- **custom sink**: root first (level 0), each row at most one level deeper than the previous one -/
theorem walk_wellformed (root : Node) (rows : List Row) (h : root.walk tbl T "root" 0 = .ok rows) :
    WellFormedFrom 0 rows := by
  have := node_walk_steps tbl T root "root" 0 rows h
  cases rows with
  | nil => trivial
  | cons r rs =>
    rcases this.1 with h0 | h0
    · cases h0
    · exact ⟨by simpa using h0, this.2⟩

/-- **default sink**: after filtering by `show`, the rows that are printed still never jump by more than
one level — for every show mode, whatever is hidden (`traverse` has no failing branch left) -/
theorem traverse_steps (s : Show) : ∀ (rows : List Row) (stack : List Nat) (prev : Row),
    stack.length = prev.level + 1 →
    Steps 0 (prev :: traverseRest s stack rows)
  | [], _, prev, _ => by simp [traverseRest, Steps]
  | r :: rs, stack, prev, hlen => by
    simp only [traverseRest]
    split
    · have hle : (stack.dropWhile fun l => decide (r.level ≤ l)).length ≤ stack.length :=
        (List.dropWhile_sublist _).length_le
      have := traverse_steps s rs (r.level :: stack.dropWhile fun l => decide (r.level ≤ l))
        { r with level := (stack.dropWhile fun l => decide (r.level ≤ l)).length } (by simp)
      exact ⟨Nat.zero_le _, by simp only []; omega, this⟩
    · exact traverse_steps s rs stack prev hlen

theorem traverse_wellformed (s : Show) (root : Row) (rest : List Row) (h0 : root.level = 0) :
    WellFormedFrom 0 (traverse s (root :: rest)) := by
  simp only [traverse, WellFormedFrom]
  exact ⟨h0, traverse_steps s rest [root.level] root (by simp [h0])⟩

/-! ## agreement with the audit -/

/-- every row that displays an untrusted name is marked unsafe (and only those): for kinds shown by name,
`selfSafe` is exactly "the displayed name is in what the node trusts" -/
theorem unsafe_marked (nid kind : Nat) (mod cls : NameVal) (extra : List String) (kids : Kids) (ref : Ref)
    (key : String) (level : Nat) (r : Row) (rest : List Row)
    (hfmt : (tbl.kind kind).fmt = .name) (hss : (tbl.kind kind).selfSafeAlways = false)
    (h : (Node.mk nid kind mod cls extra kids ref).walk tbl T key level = .ok (r :: rest))
    (hkey : ¬ (key = "key_types" ∧ (tbl.kind kind).isListNode = true)) :
    r.val = qualFmt mod cls ∧ (r.selfSafe = true ↔ r.val ∈ trustedOf tbl T kind extra) := by
  simp only [Node.walk, selfSafeOf, hss, Bool.false_eq_true, if_false] at h
  cases hq : qual mod cls with
  | none => simp [hq] at h
  | some q =>
    simp only [hq] at h
    split at h
    · rename_i ss sf hs1 hs2
      simp only [Option.some.injEq] at hs1
      have hkt : (key = "key_types" && (tbl.kind kind).isListNode && sf) = false := by
        by_cases hk : key = "key_types"
        · have : (tbl.kind kind).isListNode = false := by
            cases hl : (tbl.kind kind).isListNode with
            | false => rfl
            | true => exact absurd ⟨hk, hl⟩ hkey
          simp [this]
        · simp [hk]
      simp only [hkt, Bool.false_eq_true, if_false] at h
      have hrow : r = { level := level, key := key, val := formatOf (tbl.kind kind) mod cls, selfSafe := ss, safe := sf } := by
        split at h
        · simp only [Except.ok.injEq, List.cons.injEq] at h; exact h.1.symm
        · cases hk : kids.walk tbl T (level + 1) with
          | error e => simp [hk] at h
          | ok rs => simp only [hk, Except.ok.injEq, List.cons.injEq] at h; exact h.1.symm
      subst hrow
      simp only [formatOf, hfmt, qualFmt_of_qual hq]
      refine ⟨trivial, ?_⟩
      rw [← hs1]
      simp
    · cases h

/-- a row is "fully safe" exactly when the audit of that node finds nothing: so no row is marked safe while
an untrusted name occurs at or beneath it (`node_safe_of_unsafe_nil` turns this into the statement about
every walked descendant), and the root row is safe iff `get_untrusted_types` under that trust is empty -/
theorem safe_iff_audit_empty (nid kind : Nat) (mod cls : NameVal) (extra : List String) (kids : Kids) (ref : Ref)
    (key : String) (level : Nat) (r : Row) (rest : List Row)
    (hsa : (tbl.kind kind).isSafeAlways = false)
    (h : (Node.mk nid kind mod cls extra kids ref).walk tbl T key level = .ok (r :: rest))
    (hkey : ¬ (key = "key_types" ∧ (tbl.kind kind).isListNode = true)) :
    (r.safe = true ↔ (Node.mk nid kind mod cls extra kids ref).unsafe tbl T = some []) := by
  simp only [Node.walk, hsa, Bool.false_eq_true, if_false] at h
  cases hu : (Node.mk nid kind mod cls extra kids ref).unsafe tbl T with
  | none =>
    simp only [hu, Option.map_none] at h
    split at h <;> simp_all
  | some l =>
    simp only [hu, Option.map_some] at h
    cases hs : selfSafeOf tbl T kind mod cls extra with
    | none => simp [hs] at h
    | some ss =>
      simp only [hs] at h
      have hkt : (key = "key_types" && (tbl.kind kind).isListNode && l.isEmpty) = false := by
        by_cases hk : key = "key_types"
        · have : (tbl.kind kind).isListNode = false := by
            cases hl : (tbl.kind kind).isListNode with
            | false => rfl
            | true => exact absurd ⟨hk, hl⟩ hkey
          simp [this]
        · simp [hk]
      simp only [hkt, Bool.false_eq_true, if_false] at h
      have hrow : r.safe = l.isEmpty := by
        split at h
        · simp only [Except.ok.injEq, List.cons.injEq] at h; rw [← h.1]
        · cases hk : kids.walk tbl T (level + 1) with
          | error e => simp [hk] at h
          | ok rs => simp only [hk, Except.ok.injEq, List.cons.injEq] at h; rw [← h.1]
      rw [hrow]
      cases l <;> simp

/-- with `show="untrusted"` nothing ever has to be re-attached: an unsafe node has only unsafe ancestors -/
theorem no_safe_row_hides_unsafe_descendant (n : Node) (hnr : n.NoRefs) (h : n.unsafe tbl T = some []) :
    n.Safe tbl T := node_safe_of_unsafe_nil tbl T n hnr h

/-! non-vacuity -/
example : traverse .trusted
    [{ level := 0, key := "root", val := "a.B", selfSafe := false, safe := false },
     { level := 1, key := "x", val := "os.system", selfSafe := false, safe := false },
     { level := 2, key := "y", val := "builtins.list", selfSafe := true, safe := true }]
    = [{ level := 0, key := "root", val := "a.B", selfSafe := false, safe := false },
       { level := 1, key := "y", val := "builtins.list", selfSafe := true, safe := true }] := by decide

end Skops.Properties.C13
