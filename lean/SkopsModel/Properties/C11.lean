import SkopsModel.Properties.C01
import SkopsModel.Generated.Trust
import SkopsModel.Generated.Facts
/-!
# C11 — Nothing outside the documented families is trusted by default
-/
namespace Skops.Properties.C11
open Skops Skops.Io

/-! ## general part: with no `trusted` list, only default names get through -/

/-- for every archive tree: if `load(trusted=None)` gets past the audit, every name it resolves is a
default-trusted name or a fixed documented constructor (classes named by archive data are only looked
up in a guarded module) -/
theorem no_T_only_defaults (tbl : Table) (hv : tbl.Vouched = true) (root : Node) (hnr : root.NoRefs)
    (hx : root.ExtrasIn tbl.allDefaults) (ev : List Event) (hload : loadTree tbl root [] = .constructed ev) :
    ∀ e ∈ ev, match e with
      | .resolve name _ _ => name ∈ tbl.allDefaults ∨ name ∈ fixedNames
      | .resolveIn m _ _ => ∃ base, (m, base) ∈ guardedModules
      | .getattr name _ _ => name ∈ tbl.allDefaults := by
  intro e he
  have := C01.load_only_vouched tbl hv root [] hnr hx ev hload e he
  cases e with
  | resolve name k n => simpa [EventOK] using this
  | resolveIn m k n => simpa [EventOK] using this
  | getattr name k n => simpa [EventOK] using this

/-- the same for **every archive**: whatever JSON the schema holds, an archive that loads with no trusted list
resolves only default-trusted names and fixed documented constructors (memo invariant proved, no hypothesis on
the tree) -/
theorem no_T_only_defaults_archive (tbl : Table) (hv : tbl.Vouched = true) (hr : tbl.RefKindsInert = true)
    (schema : Skops.J) (members : List String) (fuel : Nat) (ev : List Event)
    (hload : load tbl schema members fuel [] = .constructed ev) :
    ∀ e ∈ ev, match e with
      | .resolve name _ _ => name ∈ tbl.allDefaults ∨ name ∈ fixedNames
      | .resolveIn m _ _ => ∃ base, (m, base) ∈ guardedModules
      | .getattr name _ _ => name ∈ tbl.allDefaults := by
  intro e he
  have := C01.load_archive_only_vouched tbl hv hr schema members fuel [] ev hload e he
  cases e with
  | resolve name k n => simpa [EventOK] using this
  | resolveIn m k n => simpa [EventOK] using this
  | getattr name k n => simpa [EventOK] using this

/-- an untrusted name in an audited position is reported: a node that is walked and whose name is not
among what it trusts contributes that name to the unsafe list -/
theorem untrusted_name_reported (tbl : Table) (T : List String) (nid kind : Nat) (m c : String)
    (extra : List String) (kids : Kids) (ref : Ref)
    (hsc : (tbl.kind kind).selfCheck = .standard ∨ (tbl.kind kind).selfCheck = .fnSelf)
    (hnot : (m ++ "." ++ c) ∉ trustedOf tbl T kind extra)
    (l : List String) (h : (Node.mk nid kind (.str m) (.str c) extra kids ref).unsafe tbl T = some l) :
    (m ++ "." ++ c) ∈ l := by
  have hc : (trustedOf tbl T kind extra).contains (m ++ "." ++ c) = false := by simpa using hnot
  rcases hsc with hsc | hsc
  · simp only [Node.unsafe, hsc, qual, hc] at h
    by_cases hw : (tbl.kind kind).walksKids = true
    · simp only [hw, if_true] at h
      cases hk : kids.unsafe tbl T with
      | none => simp [hk] at h
      | some rest => simp [hk] at h; subst h; simp
    · simp [hw] at h; subst h; simp
  · simp only [Node.unsafe, hsc, qualFmt, NameVal.py, hc] at h
    simp at h; subst h; simp

/-! ## table part: finite enumeration against the installed versions, decided in the kernel -/

def subsetSorted : List Nat → List Nat → Bool
  | [], _ => true
  | _ :: _, [] => false
  | a :: as, b :: bs =>
    if a = b then subsetSorted as bs else if b < a then subsetSorted (a :: as) bs else false

/-- merge-style disjointness test on explicit fuel (so that the kernel can evaluate it) -/
def disjointFuel : Nat → List Nat → List Nat → Bool
  | 0, _, _ => false
  | _ + 1, [], _ => true
  | _ + 1, _ :: _, [] => true
  | f + 1, a :: as, b :: bs =>
    if a = b then false else if a < b then disjointFuel f as (b :: bs) else disjointFuel f (a :: as) bs

def disjointSorted (xs ys : List Nat) : Bool := disjointFuel (xs.length + ys.length + 1) xs ys

def sortedLt : List Nat → Bool
  | [] => true
  | [_] => true
  | a :: b :: rest => decide (a < b) && sortedLt (b :: rest)

theorem subsetSorted_sound : ∀ (xs ys : List Nat), subsetSorted xs ys = true → ∀ x ∈ xs, x ∈ ys := by
  intro xs ys
  induction ys generalizing xs with
  | nil =>
    intro h x hx
    cases xs with
    | nil => cases hx
    | cons a as => simp [subsetSorted] at h
  | cons b bs ih =>
    intro h x hx
    cases xs with
    | nil => cases hx
    | cons a as =>
      unfold subsetSorted at h
      split at h
      · rename_i hab
        cases hx with
        | head => simp [hab]
        | tail _ hx' => exact List.mem_cons_of_mem _ (ih as h x hx')
      · split at h
        · exact List.mem_cons_of_mem _ (ih (a :: as) h x hx)
        · cases h

theorem sortedLt_head_lt : ∀ (a : Nat) (rest : List Nat), sortedLt (a :: rest) = true → ∀ x ∈ rest, a < x
  | _, [], _, x, hx => by cases hx
  | a, b :: rest, h, x, hx => by
    simp only [sortedLt, Bool.and_eq_true, decide_eq_true_eq] at h
    cases hx with
    | head => exact h.1
    | tail _ hx' => exact Nat.lt_trans h.1 (sortedLt_head_lt b rest h.2 x hx')

theorem sortedLt_tail : ∀ (a : Nat) (rest : List Nat), sortedLt (a :: rest) = true → sortedLt rest = true
  | _, [], _ => rfl
  | a, b :: rest, h => by
    simp only [sortedLt, Bool.and_eq_true] at h
    exact h.2

theorem disjointFuel_sound : ∀ (f : Nat) (xs ys : List Nat), sortedLt xs = true → sortedLt ys = true →
    disjointFuel f xs ys = true → ∀ x ∈ xs, x ∉ ys
  | 0, _, _, _, _, h, _, _ => by simp [disjointFuel] at h
  | _ + 1, [], _, _, _, _, x, hx => by cases hx
  | _ + 1, _ :: _, [], _, _, _, x, _ => by simp
  | f + 1, a :: as, b :: bs, hxs, hys, h, x, hx => by
    simp only [disjointFuel] at h
    split at h
    · cases h
    · rename_i hne
      split at h
      · rename_i hlt
        cases hx with
        | head =>
          intro hm
          cases hm with
          | head => exact hne rfl
          | tail _ hm' => exact absurd (sortedLt_head_lt b bs hys a hm') (by omega)
        | tail _ hx' => exact disjointFuel_sound f as (b :: bs) (sortedLt_tail a as hxs) hys h x hx'
      · rename_i hnlt
        have hba : b < a := by omega
        have ih := disjointFuel_sound f (a :: as) bs hxs (sortedLt_tail b bs hys) h x hx
        intro hm
        cases hm with
        | head =>
          cases hx with
          | head => omega
          | tail _ hx' => exact absurd (sortedLt_head_lt a as hxs b hx') (by omega)
        | tail _ hm' => exact ih hm'

theorem disjointSorted_sound (xs ys : List Nat) (hxs : sortedLt xs = true) (hys : sortedLt ys = true)
    (h : disjointSorted xs ys = true) : ∀ x ∈ xs, x ∉ ys :=
  disjointFuel_sound _ xs ys hxs hys h

/-- every name accepted by default resolves (in the installed environment, per the translator's family
predicates) to a member of a documented family -/
theorem defaults_in_families : ∀ x ∈ Generated.defaultIds, x ∈ Generated.familyIds :=
  subsetSorted_sound _ _ (by decide +kernel)

/-- no general-purpose callable of the enumerated namespaces is among the defaults -/
theorem defaults_not_dangerous : ∀ x ∈ Generated.defaultIds, x ∉ Generated.dangerousIds :=
  disjointSorted_sound _ _ (by decide +kernel) (by decide +kernel) (by decide +kernel)

/-- generated side-condition used by the general part -/
theorem table_vouched : Generated.table.Vouched = true := C01.table_vouched

/-! ## the default lists come from registries other packages can write to -/

/-- what the import-time construction of the default lists takes from a registry: the names with the library's prefix -/
def defaultsFrom (pfx : String) (registry : List String) : List String := registry.filter (fun n => pfx.toList.isPrefixOf n.toList)

/-- the two default lists that are built from registries other packages can write to (`all_estimators()` walks the public
scikit-learn modules, `numpy.sctypeDict` is a plain dict) are filtered by the library's own module prefix in the current
source … -/
theorem registries_filtered :
    Generated.facts.estimatorNamesFilteredByPrefix = true ∧ Generated.facts.scalarNamesFilteredByPrefix = true := by decide +kernel

/-- … so that, whatever a foreign package registered before `skops.io` was imported, a name of another package never
becomes a default -/
theorem foreign_registration_not_default (pfx : String) (registry : List String) (n : String)
    (h : n ∈ defaultsFrom pfx registry) : pfx.toList.isPrefixOf n.toList = true := by
  unfold defaultsFrom at h
  exact (List.mem_filter.mp h).2

example : defaultsFrom "sklearn." ["sklearn.dummy.DummyClassifier", "accel_patch.FastDummy"] = ["sklearn.dummy.DummyClassifier"] := by decide +kernel

end Skops.Properties.C11
