import SkopsModel.Io.Walk
import SkopsModel.Io.Load
/-!
# C19 — Malformed archives fail cleanly (PARTIAL)

What Lean carries:

* the io model (`getTreeRoot`, `load`, `getUntrustedTypes`, `visualizeRows`) is a total function of *every* JSON
  value — no well-formedness hypothesis; wrong value types, dropped keys, repeated or cross-wired ids, cycles,
  any depth, wrong members all land in one of the constructors of `Outcome` — and its event alphabet
  (`Event`: resolve / resolveIn / getattr) has no file, cwd, environment, `sys.path` or RNG operation.  Whether
  the implementation agrees with the model's outcome is the correspondence run on every check (schema level);
* the audit walk with its in-progress guard terminates on every finite node graph, cyclic or not
  (`cycle_guard_terminates`), but takes `2^(n+1) - 1` visits on the `2 n + 1`-state archive `evil n`
  (`audit_exponential`): "terminate promptly" is false for that family (known finding).

What no Lean model here expresses: byte-level corruption of the zip container and the native parsers
(`np.load`, `load_npz`, Cython `__setstate__`).  Those are sampled in sandboxed workers by the harness.
-/
namespace Skops.Properties.C19
open Skops.Io Skops.Io.Walk

/-- every archive, however malformed its schema, gets one of four verdicts -/
theorem load_total (tbl : Table) (schema : Skops.J) (members : List String) (fuel : Nat) (T : List String) :
    (∃ e, load tbl schema members fuel T = .treeError e) ∨ load tbl schema members fuel T = .auditError ∨
    (∃ ns, load tbl schema members fuel T = .untrusted ns) ∨ (∃ ev, load tbl schema members fuel T = .constructed ev) := by
  cases h : load tbl schema members fuel T with
  | treeError e => exact Or.inl ⟨e, rfl⟩
  | auditError => exact Or.inr (Or.inl rfl)
  | untrusted ns => exact Or.inr (Or.inr (Or.inl ⟨ns, rfl⟩))
  | constructed ev => exact Or.inr (Or.inr (Or.inr ⟨ev, rfl⟩))

/-- the cycle guard: on a graph with `N` nodes the audit walk from any node is the same for every amount of fuel
above `N` — i.e. the real, fuel-less recursion terminates, whatever cycles the ids create -/
theorem cycle_guard_terminates (g : Graph) (N : Nat) (hg : ∀ i, ∀ c ∈ g i, c < N) (i f1 f2 : Nat) (hi : i < N)
    (h1 : N < f1) (h2 : N < f2) : visits g f1 [] i = visits g f2 [] i := by
  apply visits_fuel_indep g N hg N [] i f1 f2 _ hi h1 h2
  unfold free
  exact Nat.le_trans (List.length_filter_le _ _) (by simp)

/-- … but not promptly: the archive `evil n` has `2 n + 1` states and costs `2^(n+1) - 1` audit visits -/
theorem audit_exponential (n : Nat) : visits (evil n) (n + 1) [] 0 = 2 ^ (n + 1) - 1 ∧ evilStates n = 2 * n + 1 :=
  ⟨Skops.Io.Walk.audit_exponential n, rfl⟩

/-- non-vacuity: a two-node cycle is walked in three visits for any fuel above 2 -/
example : visits (fun i => if i = 0 then [1] else [0]) 3 [] 0 = 3 ∧ visits (fun i => if i = 0 then [1] else [0]) 50 [] 0 = 3 := by
  decide +kernel

end Skops.Properties.C19
