import SkopsModel.Io.Load
import SkopsModel.Lemmas.IoAudit
import SkopsModel.Lemmas.SortDedup
import SkopsModel.Generated.Specs
import SkopsModel.Generated.Facts
/-!
# C03 — The audit verdict is exact and load enforces exactly that verdict
-/
namespace Skops.Properties.C03
open Skops Skops.Io

/-- generated side-condition: every registered loader trusts *the caller's list plus its defaults* -/
theorem table_callerPlus : Generated.table.AllCallerPlus = true := by decide

/-- generated flow facts: `trusted=True` is rejected first; `get_tree ≺ audit_tree ≺ construct` in
`load` and `loads`; `audit_tree` raises exactly when the unsafe set is non-empty and the exception
lists `sorted(unsafe)`; `get_untrusted_types` audits with `trusted=None` and returns `sorted(...)` -/
theorem flow_facts :
    Generated.facts.loadRejectsTrue = true ∧ Generated.facts.loadsRejectsTrue = true ∧
    Generated.facts.loadOrder = true ∧ Generated.facts.loadsOrder = true ∧
    Generated.facts.auditRaisesOnUnsafe = true ∧ Generated.facts.exceptionNamesSorted = true ∧
    Generated.facts.untrustedTreeWithNone = true ∧ Generated.facts.untrustedSorted = true ∧
    Generated.facts.checkTypeIsMembership = true ∧ Generated.facts.getTrustedIsCallerPlusDefault = true ∧
    Generated.facts.typePathsKeepStrings = true ∧ Generated.facts.typeNameIsModuleDotName = true ∧
    Generated.facts.baseNodeMethodsAsModelled = true := by
  decide

variable (tbl : Table)

/-- the names load complains about under `T` are exactly the reported names that are missing from `T` -/
theorem unsafe_under_T (h : tbl.AllCallerPlus = true) (root : Node) (T : List String) :
    root.unsafe tbl T = (root.unsafe tbl []).map (dropT T) :=
  node_unsafe_filter tbl h T root

/-- **exactness**: for every tree and every `T`: the audit blocks iff some reported name is missing
from `T`, and then it names exactly the missing ones (sorted, without duplicates) -/
theorem verdict_exact (h : tbl.AllCallerPlus = true) (root : Node) (T : List String) (reported : List String)
    (hr : untrusted tbl root = some reported) :
    (∀ names, loadTree tbl root T = .untrusted names ↔
        (names = sortDedup (dropT T reported) ∧ names ≠ [])) ∧
    ((∃ ev, loadTree tbl root T = .constructed ev) ↔ ∀ n ∈ reported, n ∈ T) := by
  simp only [untrusted] at hr
  cases hu : root.unsafe tbl [] with
  | none => simp [hu] at hr
  | some l0 =>
    simp only [hu, Option.map_some, Option.some.injEq] at hr
    subst hr
    have hT := unsafe_under_T tbl h root T
    simp only [hu, Option.map_some] at hT
    -- same members, both strictly sorted ⇒ equal
    have hsame : sortDedup (dropT T l0) = sortDedup (dropT T (sortDedup l0)) := by
      apply sorted_ext _ _ (sorted_sortDedup _) (sorted_sortDedup _)
      intro x
      simp [mem_sortDedup, dropT, List.mem_filter]
    constructor
    · intro names
      simp only [loadTree, hT]
      constructor
      · intro hh
        split at hh
        · cases hh
        · rename_i hne
          simp only [Outcome.untrusted.injEq] at hh
          subst hh
          exact ⟨hsame, by simpa using hne⟩
      · rintro ⟨rfl, hne⟩
        rw [← hsame] at hne ⊢
        have : (sortDedup (dropT T l0)).isEmpty = false := by
          cases hs : sortDedup (dropT T l0) with
          | nil => exact absurd hs hne
          | cons a b => rfl
        simp [this]
    · simp only [loadTree, hT]
      constructor
      · rintro ⟨ev, hh⟩
        split at hh
        · rename_i hemp
          intro n hn
          have hnil : sortDedup (dropT T l0) = [] := by simpa using hemp
          have hn0 : n ∈ l0 := (mem_sortDedup n l0).mp hn
          by_cases hin : n ∈ T
          · exact hin
          · have : n ∈ sortDedup (dropT T l0) := by
              rw [mem_sortDedup]; simp [dropT, List.mem_filter, hn0, hin]
            rw [hnil] at this; cases this
        · cases hh
      · intro hall
        have hnil : sortDedup (dropT T l0) = [] := by
          cases hs : sortDedup (dropT T l0) with
          | nil => rfl
          | cons a b =>
            have ha : a ∈ sortDedup (dropT T l0) := by rw [hs]; simp
            rw [mem_sortDedup] at ha
            simp only [dropT, List.mem_filter, Bool.not_eq_eq_eq_not, Bool.not_true, decide_eq_false_iff_not,
              List.contains_eq_mem] at ha
            exact absurd (hall a ((mem_sortDedup a l0).mpr ha.1)) ha.2
        exact ⟨traceOf tbl root, by simp [hnil]⟩

/-- when nothing is missing the audit does not block, and *what construct does* (`traceOf`) does
not mention `T` at all: enlarging `T` cannot change a successfully loaded result -/
theorem enlarging_T (h : tbl.AllCallerPlus = true) (root : Node) (T T' : List String) (hsub : ∀ x ∈ T, x ∈ T')
    (ev : List Event) (hok : loadTree tbl root T = .constructed ev) :
    loadTree tbl root T' = .constructed ev := by
  have hT := unsafe_under_T tbl h root T
  have hT' := unsafe_under_T tbl h root T'
  simp only [loadTree] at hok ⊢
  cases hu : root.unsafe tbl [] with
  | none => simp [hT, hu] at hok
  | some l0 =>
    simp only [hT, hT', hu, Option.map_some] at hok ⊢
    split at hok
    · rename_i hemp
      cases hok
      have hnil : sortDedup (dropT T l0) = [] := by simpa using hemp
      have : sortDedup (dropT T' l0) = [] := by
        cases hs : sortDedup (dropT T' l0) with
        | nil => rfl
        | cons a b =>
          have ha : a ∈ sortDedup (dropT T' l0) := by rw [hs]; simp
          rw [mem_sortDedup] at ha
          simp only [dropT, List.mem_filter, Bool.not_eq_eq_eq_not, Bool.not_true, decide_eq_false_iff_not,
            List.contains_eq_mem] at ha
          have : a ∈ sortDedup (dropT T l0) := by
            rw [mem_sortDedup]
            simp only [dropT, List.mem_filter, Bool.not_eq_eq_eq_not, Bool.not_true, decide_eq_false_iff_not,
              List.contains_eq_mem]
            exact ⟨ha.1, fun hc => ha.2 (hsub a hc)⟩
          rw [hnil] at this; cases this
      simp [this]
    · cases hok

/-- `get_untrusted_types` returns a strictly sorted (hence duplicate-free) list -/
theorem reported_sorted_nodup (root : Node) (reported : List String) (hr : untrusted tbl root = some reported) :
    Sorted reported ∧ reported.Nodup := by
  simp only [untrusted] at hr
  cases hu : root.unsafe tbl [] with
  | none => simp [hu] at hr
  | some l0 =>
    simp only [hu, Option.map_some, Option.some.injEq] at hr
    subst hr
    exact ⟨sorted_sortDedup l0, sorted_nodup _ (sorted_sortDedup l0)⟩

/-- order and duplicates in `T` do not matter -/
theorem T_as_set (h : tbl.AllCallerPlus = true) (root : Node) (T T' : List String) (hs : ∀ x, x ∈ T ↔ x ∈ T') :
    loadTree tbl root T = loadTree tbl root T' := by
  have e : dropT T = dropT T' := by
    funext l
    simp only [dropT]
    apply List.filter_congr
    intro x _
    have := hs x
    by_cases hx : x ∈ T <;> simp_all
  simp only [loadTree, unsafe_under_T tbl h root T, unsafe_under_T tbl h root T', e]

/-- instantiation on the table generated from the current source -/
theorem C03_current (root : Node) (T reported : List String)
    (hr : untrusted Generated.table root = some reported) :
    (∃ ev, loadTree Generated.table root T = .constructed ev) ↔ ∀ n ∈ reported, n ∈ T :=
  (verdict_exact Generated.table table_callerPlus root T reported hr).2

/-! non-vacuity -/
example : sortDedup ["b", "a", "b"] = ["a", "b"] := by decide

end Skops.Properties.C03
