import SkopsModel.Markup.Parser
import SkopsModel.Lemmas.Markdown
import SkopsModel.Lemmas.Outline
import SkopsModel.Lemmas.Forest
import SkopsModel.Properties.C09
/-!
# C15 — Parsing a document yields a card with the same outline and content
-/
namespace Skops.Properties.C15
open Skops Skops.Card Skops.Card.Forest Skops.Markup

/-! ## conversion is deterministic and independent of earlier conversions -/

/-- every conversion — successful or raising — leaves the converter's indentation state as it found it -/
theorem conv_state_restored (x : Item) (st : St) : (conv x st).2 = st := conv_st x st

/-- converting a sequence of items on ONE `Markdown` instance, keeping its state between calls -/
def convSeq : List Item → St → List (Except Markup.Err String)
  | [], _ => []
  | x :: xs, st => (conv x st).1 :: convSeq xs (conv x st).2

/-- **order independence**: on a fresh instance every item converts to what it converts to alone,
whatever was converted (or failed to convert) before it -/
theorem conv_order_independent (items : List Item) :
    convSeq items [] = items.map fun x => (conv x []).1 := by
  induction items with
  | nil => rfl
  | cons x xs ih => simp [convSeq, conv_st, ih]

/-! ## outline -/

/-- the parser's header step keeps exactly the stack of the level-aware algorithm, creates the
section at the stack's path and titles it with the header text verbatim (no splitting on '/') -/
theorem header_step (ps ps' : PState) (level : Nat) (xs : Items)
    (hp : parseStep ps (.header level xs) = .ok ps') :
    ∃ content, (conv (.header level xs) ps.md).1 = .ok content ∧
      ps'.stack = (level, postProcess content) :: Outline.pop level ps.stack ∧
      ps'.cur = some (pathOf ps'.stack) ∧
      lookup ps'.forest (pathOf ps'.stack) =
        some ({ title := postProcess content, body := .text "" },
              ((lookup ps.forest (pathOf ps'.stack)).map (·.2)).getD .nil) := by
  simp only [parseStep] at hp
  split at hp
  · cases hp
  · rename_i content md' hc
    cases hp
    refine ⟨content, by rw [hc], rfl, rfl, ?_⟩
    simp only []
    generalize hst : ((level, postProcess content) :: popTo level ps.stack) = stack
    have hne : pathOf stack ≠ [] := by subst hst; simp [pathOf]
    have hsplit : ∀ l : List String, l ≠ [] → (splitLastS l).1 ++ [(splitLastS l).2] = l := by
      intro l
      induction l with
      | nil => intro h; exact absurd rfl h
      | cons a b ih =>
        intro _
        cases b with
        | nil => simp [splitLastS]
        | cons c d => simp [splitLastS, ih (by simp)]
    have hlast : (splitLastS (pathOf stack)).2 = postProcess content := by
      subst hst
      have : ∀ (l : List String) (x : String), (splitLastS (l ++ [x])).2 = x := by
        intro l x
        induction l with
        | nil => simp [splitLastS]
        | cons a b ih =>
          cases hb : b ++ [x] with
          | nil => simp at hb
          | cons c d => simp [splitLastS, hb] at ih ⊢; exact ih
      simp [pathOf, this]
    have := C09.select_add_same ps.forest (splitLastS (pathOf stack)).1 (splitLastS (pathOf stack)).2
      { title := (splitLastS (pathOf stack)).2, body := .text "" }
    rw [selectAt_eq_lookup, selectAt_eq_lookup, hsplit _ hne] at this
    rw [this, hlast]

/-- **nesting**: for every list of headers the stack algorithm used above yields, for each
header, the path of "nearest preceding header of lower level, recursively" -/
theorem outline_spec (hs : List (Nat × String)) : Outline.stackAlg [] hs = Outline.specAlg [] hs :=
  Outline.stackAlg_correct hs

/-! ## content -/

/-- a non-header block is appended (once) to the current section and touches nothing else -/
theorem content_step (ps ps' : PState) (b : Item) (hb : ∀ l xs, b ≠ .header l xs)
    (h : parseStep ps b = .ok ps') :
    ∃ res path, (conv b ps.md).1 = .ok res ∧ ps.cur = some path ∧ ps'.cur = ps.cur ∧ ps'.stack = ps.stack ∧
      ∀ q, dataAt ps'.forest q =
        if q = (splitLastS path).1 ++ [(splitLastS path).2]
        then (dataAt ps.forest q).map (appendContent (postProcess res)) else dataAt ps.forest q := by
  cases b with
  | header l xs => exact absurd rfl (hb l xs)
  | _ =>
    all_goals
      simp only [parseStep] at h
      split at h
      · cases h
      · rename_i res md' hc
        split at h
        · cases h
        · rename_i path hcur
          split at h
          · rename_i f hm
            cases h
            exact ⟨res, path, by rw [hc], hcur, rfl, rfl, fun q => modify_refines _ _ _ _ _ hm q⟩
          · cases h

/-- content before the first header is refused (ValueError), nothing is silently dropped -/
theorem content_without_section (ps : PState) (b : Item) (hb : ∀ l xs, b ≠ .header l xs)
    (hc : ps.cur = none) : ∀ ps', parseStep ps b ≠ .ok ps' := by
  intro ps' h
  cases b with
  | header l xs => exact absurd rfl (hb l xs)
  | _ =>
    all_goals
      simp only [parseStep] at h
      split at h
      · cases h
      · simp [hc] at h

/-- what `_add_content` does to a section: first block sets the content, later ones are appended
after an empty line; flags and title are untouched -/
theorem append_content_spec (s : Sec) (c text : String) (h : s.body = .text c) :
    appendContent text s =
      { s with body := .text (if c = "" then text else c ++ "\n\n" ++ text) } := by
  simp [appendContent, h]

/-! non-vacuity / witnesses -/
example : Outline.specAlg [] [(1, "A"), (3, "B"), (3, "C"), (2, "D")] = [[], ["A"], ["A"], ["A"]] := by decide
example : Outline.stackAlg [] [(3, "X"), (2, "Y")] = [[], []] := by decide

end Skops.Properties.C15
