import SkopsModel.Lemmas.Value
/-!
# C05 — Supported data round-trips exactly, and stably
-/
namespace Skops.Properties.C05
open Skops.Io.Value

def supportedKey : Key → Bool
  | .str _ | .int _ | .float _ | .npint _ _ | .npfloat _ _ => true
  | _ => false

mutual
/-- the families C05 promises: JSON scalars; nested list/tuple/set/dict/OrderedDict/defaultdict with
str/int/float/numpy-number keys whose json texts are pairwise distinct; opaque leaves (arrays, numpy
scalars, dtypes, masked arrays, RNGs, sparse, bytes, slices, ufuncs/types/partials/operator helpers);
non-empty object arrays of rank ≥ 1 whose cells are scalars -/
def Supported : PyVal → Prop
  | .scalar _ => True
  | .list cls xs => cls = "builtins.list" ∧ SupportedAll xs
  | .tuple xs => SupportedAll xs
  | .set cls xs => cls = "builtins.set" ∧ SupportedAll xs
  | .dict cls es =>
    (match cls with | .sub _ => False | _ => True) ∧
    (es.keys.map Key.text).Nodup ∧ SupportedEntries es
  | .opaque _ _ => True
  | .objarray shape cells =>
    shape ≠ [] ∧ cells.length = shape.foldl (· * ·) 1 ∧ cells.length ≠ 0 ∧ ScalarCells cells
  | .obj _ state => Supported state            -- C07: an estimator whose state is supported
  | _ => False
def SupportedAll : PyVals → Prop
  | .nil => True
  | .cons x xs => Supported x ∧ SupportedAll xs
def SupportedEntries : PyEntries → Prop
  | .nil => True
  | .cons k v rest => supportedKey k = true ∧ Supported v ∧ SupportedEntries rest
def ScalarCells : PyVals → Prop
  | .nil => True
  | .cons (.scalar _) xs => ScalarCells xs
  | .cons _ _ => False
end

mutual
theorem supported_wf : ∀ v : PyVal, Supported v → v.WF ∧ v.NoProperty
  | .scalar _, _ => ⟨trivial, trivial⟩
  | .list _ xs, h => supportedAll_wf xs h.2
  | .tuple xs, h => supportedAll_wf xs h
  | .set _ xs, h => supportedAll_wf xs h.2
  | .dict cls es, h => by
    have := supportedEntries_wf es h.2.2
    refine ⟨⟨?_, this.1⟩, this.2⟩
    cases cls <;> simp_all [Supported]
  | .opaque _ _, _ => ⟨trivial, trivial⟩
  | .objarray _ cells, h => scalarCells_wf cells h.2.2.2
  | .obj _ state, h => supported_wf state h
  | .namedtuple _ _, h => by simp [Supported] at h
  | .tupleSub _ _, h => by simp [Supported] at h
  | .frozenset _, h => by simp [Supported] at h
  | .property, h => by simp [Supported] at h
  | .unsupported _, h => by simp [Supported] at h
theorem supportedAll_wf : ∀ xs : PyVals, SupportedAll xs → xs.WF ∧ xs.NoProperty
  | .nil, _ => ⟨trivial, trivial⟩
  | .cons x xs, h => ⟨⟨(supported_wf x h.1).1, (supportedAll_wf xs h.2).1⟩, ⟨(supported_wf x h.1).2, (supportedAll_wf xs h.2).2⟩⟩
theorem supportedEntries_wf : ∀ es : PyEntries, SupportedEntries es → es.WF ∧ es.NoProperty
  | .nil, _ => ⟨trivial, trivial⟩
  | .cons _ v rest, h => by
    have hv := supported_wf v h.2.1
    have hr := supportedEntries_wf rest h.2.2
    have hp : v.isProperty = false := by
      cases v <;> first | rfl | (exfalso; simpa [Supported] using h.2.1)
    exact ⟨⟨hv.1, hr.1⟩, ⟨hp, hv.2, hr.2⟩⟩
theorem scalarCells_wf : ∀ xs : PyVals, ScalarCells xs → xs.WF ∧ xs.NoProperty
  | .nil, _ => ⟨trivial, trivial⟩
  | .cons (.scalar _) xs, h => ⟨⟨trivial, (scalarCells_wf xs h).1⟩, ⟨trivial, (scalarCells_wf xs h).2⟩⟩
  | .cons (.list _ _) _, h => by simp [ScalarCells] at h
  | .cons (.tuple _) _, h => by simp [ScalarCells] at h
  | .cons (.namedtuple _ _) _, h => by simp [ScalarCells] at h
  | .cons (.tupleSub _ _) _, h => by simp [ScalarCells] at h
  | .cons (.set _ _) _, h => by simp [ScalarCells] at h
  | .cons (.frozenset _) _, h => by simp [ScalarCells] at h
  | .cons (.dict _ _) _, h => by simp [ScalarCells] at h
  | .cons (.opaque _ _) _, h => by simp [ScalarCells] at h
  | .cons (.objarray _ _) _, h => by simp [ScalarCells] at h
  | .cons (.obj _ _) _, h => by simp [ScalarCells] at h
  | .cons .property _, h => by simp [ScalarCells] at h
  | .cons (.unsupported _) _, h => by simp [ScalarCells] at h
end

mutual
/-- a supported value is never refused at dump -/
theorem supported_encodes : ∀ v : PyVal, Supported v → ∃ s, encode v = some s
  | .scalar s, _ => ⟨_, rfl⟩
  | .list cls xs, h => by obtain ⟨ss, hs⟩ := supportedAll_encodes xs h.2; simp [encode, hs]
  | .tuple xs, h => by obtain ⟨ss, hs⟩ := supportedAll_encodes xs h; simp [encode, hs]
  | .set cls xs, h => by obtain ⟨ss, hs⟩ := supportedAll_encodes xs h.2; simp [encode, hs]
  | .dict cls es, h => by
    obtain ⟨c, hc⟩ := supportedEntries_encodes es h.2.2
    have hk := kept_of_noProperty es (supportedEntries_wf es h.2.2).2
    cases cls with
    | dict => simp [encode, hk, h.2.1, hc]
    | ordered => simp [encode, hk, h.2.1, hc]
    | sub c => exact absurd h.1 (by simp)
    | default c f => simp [encode, hk, h.2.1, hc]
  | .opaque f p, _ => ⟨_, rfl⟩
  | .objarray shape cells, h => by
    obtain ⟨ss, hs⟩ := scalarCells_encodes cells h.2.2.2
    have hne : shape.isEmpty = false := by cases shape <;> simp_all [Supported]
    simp [encode, hne, h.2.1, hs]
  | .obj cls state, h => by obtain ⟨c, hc⟩ := supported_encodes state h; simp [encode, hc]
  | .namedtuple _ _, h => by simp [Supported] at h
  | .tupleSub _ _, h => by simp [Supported] at h
  | .frozenset _, h => by simp [Supported] at h
  | .property, h => by simp [Supported] at h
  | .unsupported _, h => by simp [Supported] at h
theorem supportedAll_encodes : ∀ xs : PyVals, SupportedAll xs → ∃ ss, encodeAll xs = some ss
  | .nil, _ => ⟨_, rfl⟩
  | .cons x xs, h => by
    obtain ⟨a, ha⟩ := supported_encodes x h.1
    obtain ⟨b, hb⟩ := supportedAll_encodes xs h.2
    simp [encodeAll, ha, hb]
theorem supportedEntries_encodes : ∀ es : PyEntries, SupportedEntries es → ∃ c, encodeEntries es = some c
  | .nil, _ => ⟨_, rfl⟩
  | .cons k v rest, h => by
    obtain ⟨a, ha⟩ := supported_encodes v h.2.1
    obtain ⟨b, hb⟩ := supportedEntries_encodes rest h.2.2
    have hp : v.isProperty = false := by
      cases v <;> first | rfl | (exfalso; simpa [Supported] using h.2.1)
    simp [encodeEntries, hp, ha, hb]
theorem scalarCells_encodes : ∀ xs : PyVals, ScalarCells xs → ∃ ss, encodeAll xs = some ss
  | .nil, _ => ⟨_, rfl⟩
  | .cons (.scalar s) xs, h => by
    obtain ⟨b, hb⟩ := scalarCells_encodes xs h
    simp [encodeAll, encode, hb]
  | .cons (.list _ _) _, h => by simp [ScalarCells] at h
  | .cons (.tuple _) _, h => by simp [ScalarCells] at h
  | .cons (.namedtuple _ _) _, h => by simp [ScalarCells] at h
  | .cons (.tupleSub _ _) _, h => by simp [ScalarCells] at h
  | .cons (.set _ _) _, h => by simp [ScalarCells] at h
  | .cons (.frozenset _) _, h => by simp [ScalarCells] at h
  | .cons (.dict _ _) _, h => by simp [ScalarCells] at h
  | .cons (.opaque _ _) _, h => by simp [ScalarCells] at h
  | .cons (.objarray _ _) _, h => by simp [ScalarCells] at h
  | .cons (.obj _ _) _, h => by simp [ScalarCells] at h
  | .cons .property _, h => by simp [ScalarCells] at h
  | .cons (.unsupported _) _, h => by simp [ScalarCells] at h
end

/-- dict keys come back with their type and value -/
theorem restore_key (k : Key) : restoreKey k.ty k.text = k := restore_text k

/-- keys of a supported dict have pairwise distinct json texts, so no entry can overwrite another -/
theorem key_texts_distinct (cls : DictCls) (es : PyEntries) (h : Supported (.dict cls es)) :
    (es.keys.map Key.text).Nodup := h.2.1

/-- one dump/load cycle: no error, the identical value -/
def cycle (v : PyVal) : Option PyVal := (encode v).bind decode

/-- **round trip**: every supported value dumps and loads without error to the same value -/
theorem roundtrip (v : PyVal) (h : Supported v) : cycle v = some v := by
  obtain ⟨s, hs⟩ := supported_encodes v h
  have hw := supported_wf v h
  simp [cycle, hs, roundtrip_val v s hw.1 hw.2 hs]

/-- **stability**: any number of further cycles yields the same value again -/
theorem roundtrip_stable (v : PyVal) (h : Supported v) : ∀ k : Nat, (Nat.repeat (fun o => o.bind cycle) k (some v)) = some v
  | 0 => rfl
  | k + 1 => by
    simp only [Nat.repeat, roundtrip_stable v h k, Option.bind_some, roundtrip v h]

/-! non-vacuity -/
example : Supported (.dict .ordered (.cons (.int "1") (.list "builtins.list" (.cons (.scalar (.float "1.5")) .nil))
    (.cons (.str "k") (.objarray [1, 2] (.cons (.scalar .none) (.cons (.scalar (.str "s")) .nil))) .nil))) := by
  simp [Supported, SupportedEntries, SupportedAll, ScalarCells, supportedKey, PyEntries.keys, Key.text, PyVals.length]

end Skops.Properties.C05
