import SkopsModel.Io.GetTree
import SkopsModel.Generated.Specs
import SkopsModel.Generated.Registry
/-!
# C08 — Archives of every supported protocol keep loading with the right loader
-/
namespace Skops.Properties.C08
open Skops Skops.Io

variable (t : Table)

def registered (l : String) (q : Nat) : Bool := (t.find? l q).isSome

/-- the code's rule: exact `(loader, protocol)`, else `(loader, PROTOCOL)`, else `TypeError` -/
def codeLookup (l : String) (p : Nat) : Option (Nat × KindSpec) :=
  match t.find? l p with
  | some r => some r
  | none => t.find? l t.protocol

/-- the property's rule: the loader registered for the smallest protocol not below the archive's -/
def specLookup (l : String) (p : Nat) : Option (Nat × KindSpec) :=
  (List.range' p (t.protocol + 1 - p)).findSome? fun q => t.find? l q

/-- registered old protocols of a loader form an initial segment `0..m` -/
def OldPrefixClosed : Prop :=
  ∀ l q q', q < t.protocol → q' < q → registered t l q = true → registered t l q' = true

def oldPrefixClosedB : Bool :=
  t.kinds.all fun k => k.protocol ≥ t.protocol || (List.range k.protocol).all fun q' => registered t k.loader q'

theorem lookupKind_int (members : List String) (l : String) (p : Nat) :
    lookupKind { tbl := t, proto := .int p, members := members } l = codeLookup t l p := by
  have hnn : ¬ ((p : Int) < 0) := by omega
  simp only [lookupKind, codeLookup, hnn, if_false, Int.toNat_natCast]
  cases t.find? l p <;> rfl

/-- the code's rule *is* the property's rule for every archive protocol up to the current one,
provided the registry has no gaps -/
theorem lookup_eq_spec (h : OldPrefixClosed t) (l : String) (p : Nat) (hp : p ≤ t.protocol) :
    codeLookup t l p = specLookup t l p := by
  unfold codeLookup specLookup
  cases hf : t.find? l p with
  | some r =>
    -- the first candidate is `p` itself
    have : t.protocol + 1 - p = (t.protocol - p) + 1 := by omega
    simp [this, List.range', hf]
  | none =>
    simp only []
    -- no protocol strictly between p and the current one is registered
    have hgap : ∀ q, p < q → q < t.protocol → t.find? l q = none := by
      intro q h1 h2
      cases hq : t.find? l q with
      | none => rfl
      | some r =>
        have := h l q p h2 h1 (by simp [registered, hq])
        simp [registered, hf] at this
    -- walk the candidate list
    have key : ∀ n s, s + n = t.protocol + 1 → p ≤ s →
        (∀ q, p ≤ q → q < s → t.find? l q = none) →
        (List.range' s n).findSome? (fun q => t.find? l q) = t.find? l t.protocol := by
      intro n
      induction n with
      | zero =>
        intro s hs hps hnone
        have : t.find? l t.protocol = none := hnone _ hp (by omega)
        simp [this]
      | succ n ih =>
        intro s hs hps hnone
        simp only [List.range', List.findSome?_cons]
        by_cases hcur : s = t.protocol
        · subst hcur
          have : n = 0 := by omega
          subst this
          cases t.find? l t.protocol <;> simp
        · have hlt : s < t.protocol := by omega
          have hsn : t.find? l s = none := by
            by_cases hsp : s = p
            · subst hsp; exact hf
            · exact hgap s (by omega) hlt
          simp only [hsn]
          apply ih (s + 1) (by omega) (by omega)
          intro q h1 h2
          by_cases hqs : q = s
          · subst hqs; exact hsn
          · exact hnone q h1 (by omega)
    exact (key (t.protocol + 1 - p) p (by omega) (Nat.le_refl _) (by intro q h1 h2; omega)).symm

/-- a node kind that never changed (no old registration) loads identically under every protocol -/
theorem unchanged_kind_same (l : String) (h : ∀ q, q < t.protocol → t.find? l q = none) (p : Nat)
    (hp : p ≤ t.protocol) : codeLookup t l p = codeLookup t l t.protocol := by
  unfold codeLookup
  by_cases hpc : p = t.protocol
  · subst hpc; rfl
  · have : t.find? l p = none := h p (by omega)
    simp only [this]
    cases t.find? l t.protocol <;> rfl

/-- a node kind nobody registered produces an error (the `TypeError` naming it) -/
theorem unregistered_error (l : String) (h : ∀ q, t.find? l q = none) (p : Nat) : codeLookup t l p = none := by
  simp [codeLookup, h]

theorem oldPrefixClosed_of_bool (h : oldPrefixClosedB t = true) : OldPrefixClosed t := by
  intro l q q' hq hq' hreg
  simp only [registered, Option.isSome_iff_exists] at hreg
  obtain ⟨r, hr⟩ := hreg
  -- the kind found for (l, q) is in the table with exactly these fields
  have hmem : ∀ (ks : List KindSpec) (i : Nat), Table.find?.go l q i ks = some r →
      r.2 ∈ ks ∧ r.2.loader = l ∧ r.2.protocol = q := by
    intro ks
    induction ks with
    | nil => intro i h; simp [Table.find?.go] at h
    | cons k ks ih =>
      intro i hgo
      simp only [Table.find?.go] at hgo
      split at hgo
      · rename_i hc
        simp only [Option.some.injEq] at hgo
        subst hgo
        simp only [Bool.and_eq_true, decide_eq_true_eq] at hc
        exact ⟨by simp, hc.1, hc.2⟩
      · obtain ⟨h1, h2, h3⟩ := ih (i + 1) hgo
        exact ⟨List.mem_cons_of_mem _ h1, h2, h3⟩
  obtain ⟨hin, hl, hp⟩ := hmem t.kinds 0 (by simpa [Table.find?] using hr)
  simp only [oldPrefixClosedB, List.all_eq_true] at h
  have := h r.2 hin
  simp only [Bool.or_eq_true, decide_eq_true_eq, List.all_eq_true, List.mem_range] at this
  rcases this with h1 | h1
  · omega
  · have := h1 q' (by omega)
    simpa [hl] using this

/-! ## the current registry -/

/-- generated side-conditions: the registry has no gaps, and everything the current dump can emit has
a loader registered for the current protocol -/
theorem registry_ok :
    oldPrefixClosedB Generated.table = true ∧
    (Generated.emittedLoaders.all fun l => registered Generated.table l Generated.table.protocol) = true := by
  decide

theorem C08_current (l : String) (p : Nat) (hp : p ≤ Generated.table.protocol) :
    codeLookup Generated.table l p = specLookup Generated.table l p :=
  lookup_eq_spec Generated.table (oldPrefixClosed_of_bool Generated.table registry_ok.1) l p hp

/-! non-vacuity: the old FunctionNode is what a protocol-0 archive gets; a current archive gets the new one -/
example : ((codeLookup Generated.table "FunctionNode" 0).map (·.2.cls)) = some "skops.io.old._general_v0.FunctionNode" := by decide
example : ((codeLookup Generated.table "FunctionNode" 1).map (·.2.cls)) = some "skops.io._general.FunctionNode" := by decide
example : ((codeLookup Generated.table "RandomGeneratorNode" 1).map (·.2.cls)) = some "skops.io.old._numpy_v1.RandomGeneratorNode" := by decide

end Skops.Properties.C08
