import SkopsModel.Card.Ops
import SkopsModel.Properties.C09
/-!
# C14 — Card content builders put the right content under the right heading
-/
namespace Skops.Properties.C14
open Skops Skops.Card Skops.Card.Forest

/-! ## metrics accumulate -/

/-- first-seen order without repetitions: scan left to right, append every name not seen yet -/
def firstSeenFrom (acc : List String) (xs : List String) : List String :=
  xs.foldl (fun acc k => if k ∈ acc then acc else acc ++ [k]) acc

/-- latest value of `k` in a list of updates (later entries win) -/
def latest (items : List (String × String)) (k : String) : Option String :=
  (items.reverse.find? (·.1 = k)).map (·.2)

def names (m : List (String × String)) : List String := m.map (·.1)
def valueOf (m : List (String × String)) (k : String) : Option String := (m.find? (·.1 = k)).map (·.2)

theorem names_assocSet (m : List (String × String)) (k v : String) :
    names (assocSet m k v) = if k ∈ names m then names m else names m ++ [k] := by
  induction m with
  | nil => simp [assocSet, names]
  | cons kv rest ih =>
    obtain ⟨k', v'⟩ := kv
    by_cases hk : k' = k
    · subst hk; simp [assocSet, names]
    · have hk' : ¬ (k = k') := fun e => hk e.symm
      simp only [names] at ih
      simp only [assocSet, hk, if_false, names, List.map_cons, ih, List.mem_cons, hk', false_or]
      split <;> simp_all

theorem valueOf_assocSet (m : List (String × String)) (k v x : String) :
    valueOf (assocSet m k v) x = if x = k then some v else valueOf m x := by
  induction m with
  | nil =>
    by_cases hx : x = k
    · subst hx; simp [assocSet, valueOf]
    · have : ¬ (k = x) := fun e => hx e.symm
      simp [assocSet, valueOf, hx, this]
  | cons kv rest ih =>
    obtain ⟨k', v'⟩ := kv
    by_cases hk : k' = k
    · subst hk
      by_cases hx : x = k'
      · subst hx; simp [assocSet, valueOf]
      · have : ¬ (k' = x) := fun e => hx e.symm
        simp [assocSet, valueOf, hx, this]
    · simp only [valueOf] at ih
      by_cases hx : k' = x
      · subst hx; simp [assocSet, valueOf, hk]
      · simp only [assocSet, hk, if_false, valueOf, List.find?_cons, hx, decide_false, ih]

theorem nodup_assocSet (m : List (String × String)) (k v : String) (h : (names m).Nodup) :
    (names (assocSet m k v)).Nodup := by
  rw [names_assocSet]
  split
  · exact h
  · rename_i hk
    exact List.nodup_append.mpr ⟨h, by simp, by intro a ha b hb; simp at hb; subst hb; intro e; subst e; exact hk ha⟩

/-- each metric appears once -/
theorem metrics_once (m : List (String × String)) (items : List (String × String)) (h : (names m).Nodup) :
    (names (assocUpdate m items)).Nodup := by
  induction items generalizing m with
  | nil => simpa [assocUpdate] using h
  | cons kv rest ih => exact ih _ (nodup_assocSet m kv.1 kv.2 h)

/-- with its latest value -/
theorem metrics_latest (m : List (String × String)) (items : List (String × String)) (x : String) :
    valueOf (assocUpdate m items) x = (latest items x).or (valueOf m x) := by
  induction items generalizing m with
  | nil => simp [assocUpdate, latest]
  | cons kv rest ih =>
    simp only [assocUpdate, List.foldl_cons] at ih ⊢
    rw [ih, valueOf_assocSet]
    simp only [latest, List.reverse_cons, List.find?_append]
    cases hr : rest.reverse.find? (·.1 = x) with
    | some p => simp
    | none =>
      by_cases hx : x = kv.1
      · subst hx; simp
      · have : ¬ (kv.1 = x) := fun e => hx e.symm
        simp [hx, this]

/-- in first-seen order (a metric that is updated keeps its row, a new one goes last) -/
theorem metrics_order (m : List (String × String)) (items : List (String × String)) :
    names (assocUpdate m items) = firstSeenFrom (names m) (names items) := by
  induction items generalizing m with
  | nil => simp [assocUpdate, firstSeenFrom, names]
  | cons kv rest ih =>
    simp only [assocUpdate, List.foldl_cons] at ih ⊢
    rw [ih, names_assocSet]
    simp only [firstSeenFrom, names, List.map_cons, List.foldl_cons]
    congr

/-- **any sequence of `add_metrics` calls**: the card's metrics are those of one big update with all
items in call order — hence each metric once, first-seen order, latest value -/
theorem metrics_calls (calls : List (List (String × String))) (m : List (String × String)) :
    calls.foldl assocUpdate m = assocUpdate m calls.flatten := by
  induction calls generalizing m with
  | nil => simp [assocUpdate]
  | cons c cs ih => simp [ih, assocUpdate, List.foldl_append]

/-- the state component: `add_metrics` stores exactly that accumulated dict and renders it as the
two-column table `Metric | Value` -/
theorem add_metrics_table (c : Card) (sect : String) (desc : Option String) (items : List (String × String)) :
    (step c (.addMetrics sect desc items)).1.metrics = assocUpdate c.metrics items ∧
    (step c (.addMetrics sect desc items)).1.data.selectAt (keyPath sect).1 (keyPath sect).2 =
      some ({ title := (keyPath sect).2,
              body := .table (orElse desc "") [("Metric", names (assocUpdate c.metrics items)),
                                               ("Value", (assocUpdate c.metrics items).map (·.2))] },
            ((c.data.selectAt (keyPath sect).1 (keyPath sect).2).map (·.2)).getD .nil) := by
  simp [step, addSingle, C09.select_add_same, metricsTable, names]

/-! ## placement: the section sits at the given path, titled by the last path part -/

theorem add_plot_places (f : Forest) (desc : String) (alt : Option String) (folded : Bool) (key path : String)
    (hp : path ≠ "") :
    ∃ f', addPlot1 desc alt folded f key path = .ok f' ∧
      f'.selectAt (keyPath key).1 (keyPath key).2 =
        some ({ title := (keyPath key).2, body := .plot desc (orElse alt (keyPath key).2) path, folded := folded },
              ((f.selectAt (keyPath key).1 (keyPath key).2).map (·.2)).getD .nil) := by
  simp [addPlot1, hp, addSingle, C09.select_add_same]

/-- each plot's alt text defaults to its own title -/
theorem alt_defaults_to_own_title (title : String) : orElse none title = title ∧ orElse (some "") title = title := by
  simp [orElse]

theorem add_table_places (f : Forest) (desc : String) (folded : Bool) (key : String) (t : Table)
    (ht : t ≠ []) :
    ∃ f', addTable1 desc folded f key t = .ok f' ∧
      f'.selectAt (keyPath key).1 (keyPath key).2 =
        some ({ title := (keyPath key).2, body := .table desc t, folded := folded },
              ((f.selectAt (keyPath key).1 (keyPath key).2).map (·.2)).getD .nil) := by
  have : t.isEmpty = false := by cases t <;> simp_all
  simp [addTable1, this, addSingle, C09.select_add_same]

/-- `add_hyperparams` lists exactly the given parameters (the harness passes `get_params(deep=True)`),
in order, folded, titled by the last path part -/
theorem add_hyperparams_exact (c : Card) (sect : String) (desc : Option String) (params : List (String × String)) :
    (step c (.addHyperparams sect desc params)).1.data.selectAt (keyPath sect).1 (keyPath sect).2 =
      some ({ title := (keyPath sect).2,
              body := .table (orElse desc "") [("Hyperparameter", params.map (·.1)), ("Value", params.map (·.2))],
              folded := true },
            ((c.data.selectAt (keyPath sect).1 (keyPath sect).2).map (·.2)).getD .nil) := by
  simp [step, addSingle, C09.select_add_same]

/-! ## several items in one call = one call per item -/

/-- one plot passed alone -/
theorem add_plot_single (c : Card) (desc alt : Option String) (folded : Bool) (x : String × String) :
    step c (.addPlot desc alt folded [x]) =
      match addPlot1 (orElse desc "") alt folded c.data x.1 x.2 with
      | .ok f' => ({ c with data := f' }, .ok)
      | .error e => (c, .err e) := by
  simp only [step, loopE]
  cases addPlot1 (orElse desc "") alt folded c.data x.1 x.2 <;> rfl

/-- several plots in one call behave as the first one alone followed by the rest (an exception
stops the call and keeps what was added so far) -/
theorem add_plot_multi (c : Card) (desc alt : Option String) (folded : Bool) (x : String × String)
    (xs : List (String × String)) :
    step c (.addPlot desc alt folded (x :: xs)) =
      match addPlot1 (orElse desc "") alt folded c.data x.1 x.2 with
      | .ok f' => step { c with data := f' } (.addPlot desc alt folded xs)
      | .error e => (c, .err e) := by
  simp only [step, loopE]
  cases addPlot1 (orElse desc "") alt folded c.data x.1 x.2 <;> rfl

theorem add_table_single (c : Card) (desc : Option String) (folded : Bool) (x : String × Table) :
    step c (.addTable desc folded [x]) =
      match addTable1 (orElse desc "") folded c.data x.1 x.2 with
      | .ok f' => ({ c with data := f' }, .ok)
      | .error e => (c, .err e) := by
  simp only [step, loopE]
  cases addTable1 (orElse desc "") folded c.data x.1 x.2 <;> rfl

theorem add_table_multi (c : Card) (desc : Option String) (folded : Bool) (x : String × Table)
    (xs : List (String × Table)) :
    step c (.addTable desc folded (x :: xs)) =
      match addTable1 (orElse desc "") folded c.data x.1 x.2 with
      | .ok f' => step { c with data := f' } (.addTable desc folded xs)
      | .error e => (c, .err e) := by
  simp only [step, loopE]
  cases addTable1 (orElse desc "") folded c.data x.1 x.2 <;> rfl

/-! ## table cells -/

theorem replaceChar_no_old (old : Char) (new : List Char) (h : old ∉ new) (s : List Char) :
    old ∉ replaceChar old new s := by
  induction s with
  | nil => simp [replaceChar]
  | cons c cs ih =>
    simp only [replaceChar]
    split
    · simp [h, ih]
    · rename_i hc
      simp only [List.mem_cons, not_or]
      exact ⟨fun e => hc e.symm, ih⟩

theorem replaceChar_mem (old : Char) (new : List Char) (x : Char) (hx : x ∉ new) (s : List Char)
    (h : x ∈ replaceChar old new s) : x ∈ s := by
  induction s with
  | nil => simp [replaceChar] at h
  | cons c cs ih =>
    simp only [replaceChar] at h
    split at h
    · simp only [List.mem_append] at h
      rcases h with h | h
      · exact absurd h hx
      · exact List.mem_cons_of_mem _ (ih h)
    · simp only [List.mem_cons] at h ⊢
      rcases h with h | h
      · exact Or.inl h
      · exact Or.inr (ih h)

theorem replaceChar_id (old : Char) (new : List Char) (l : List Char) (hl : old ∉ l) :
    replaceChar old new l = l := by
  induction l with
  | nil => rfl
  | cons c cs ih =>
    simp only [List.mem_cons, not_or] at hl
    have hc : ¬ (c = old) := fun e => hl.1 e.symm
    simp only [replaceChar, hc, if_false, ih hl.2]

/-- one row per entry, as many columns as given; line breaks never survive into a cell (they
become `<br />`), so a cell cannot start a new table row -/
theorem cells (t : Table) :
    (tableCells t).length = t.length ∧
    (tableCells t).map (·.2.length) = t.map (·.2.length) ∧
    ∀ col ∈ tableCells t, ∀ cell ∈ col.2, '\n' ∉ cell.toList := by
  refine ⟨by simp [tableCells], by simp [tableCells, List.map_map, Function.comp_def], ?_⟩
  intro col hcol cell hcell
  simp only [tableCells, List.mem_map] at hcol
  obtain ⟨c0, _, rfl⟩ := hcol
  simp only [List.mem_map] at hcell
  obtain ⟨v, _, rfl⟩ := hcell
  simp only [cellText, sReplaceChar, String.toList_ofList]
  intro hmem
  have h1 := replaceChar_mem '|' "\\|".toList '\n' (by decide) _ hmem
  exact replaceChar_no_old '\n' "<br />".toList (by decide) v.toList h1

/-- a cell or column name without line breaks and vertical bars is passed through unchanged -/
theorem cell_unchanged (v : String) (h : '\n' ∉ v.toList) (hp : '|' ∉ v.toList) :
    cellText v = v ∧ sReplaceChar '|' "\\|" v = v := by
  simp only [cellText, sReplaceChar]
  rw [replaceChar_id _ _ _ h]
  simp only [String.ofList_toList]
  rw [replaceChar_id _ _ _ hp]
  simp [String.ofList_toList]

/-! non-vacuity -/
example : names (assocUpdate [] [("acc", "1"), ("f1", "2"), ("acc", "3")]) = ["acc", "f1"] := by decide
example : valueOf (assocUpdate [] [("acc", "1"), ("f1", "2"), ("acc", "3")]) "acc" = some "3" := by decide
example : (tableCells [("a|b", ["x\ny|z"])]) = [("a\\|b", ["x<br />y\\|z"])] := by decide

end Skops.Properties.C14
