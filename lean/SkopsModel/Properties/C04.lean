import SkopsModel.Lemmas.Value
/-!
# C04 — Persistence is faithful or it refuses: never a quietly different object
-/
namespace Skops.Properties.C04
open Skops.Io.Value

/-- The full statement — for every value of the grammar, `dump` refuses or `load` refuses or the value
comes back unchanged — is **false of the current code**: a `property` object stored as a dict value is
silently skipped by `dict_get_state` (recorded finding `dict-property-values-dropped`). -/
def FaithfulOrRefuses (v : PyVal) : Prop :=
  encode v = none ∨ ∃ s, encode v = some s ∧ (decode s = none ∨ decode s = some v)

/-- negation witness, replayed on the implementation by the check: `{"p": property()}` loads as `{}` -/
theorem not_faithful_witness :
    ¬ FaithfulOrRefuses (.dict .dict (.cons (.str "p") .property .nil)) := by
  intro h
  rcases h with h | ⟨s, hs, hd | hd⟩
  · simp [encode, PyEntries.kept, PyVal.isProperty, PyEntries.keys, encodeEntries] at h
  · simp [encode, PyEntries.kept, PyVal.isProperty, PyEntries.keys, encodeEntries] at hs
    subst hs
    simp [decode, decodeEntries] at hd
  · simp [encode, PyEntries.kept, PyVal.isProperty, PyEntries.keys, encodeEntries] at hs
    subst hs
    simp [decode, decodeEntries] at hd

/-- **proved part**: everywhere else — every nesting of lists, tuples, namedtuples, tuple/list/dict/defaultdict
subclasses, sets, frozensets, dicts with any mix of str/int/float/bool/numpy keys, object arrays of rank ≥ 1,
opaque leaves — a dump that succeeds loads back to the same value; what cannot be represented (colliding key
texts, 0-d object arrays, unsupported leaves) is refused at dump -/
theorem faithful_or_refuses_partial (v : PyVal) (hw : v.WF) (hn : v.NoProperty) : FaithfulOrRefuses v := by
  cases h : encode v with
  | none => exact Or.inl h
  | some s => exact Or.inr ⟨s, h, Or.inr (roundtrip_val v s hw hn h)⟩

/-- bool and numpy-bool keys are restored from their json text -/
theorem restore_key_bool (b : Bool) :
    restoreKey .bool (Key.bool b).text = .bool b ∧ restoreKey .npbool (Key.npbool b).text = .npbool b :=
  ⟨restore_text (.bool b), restore_text (.npbool b)⟩

/-- why `k_type(key)` alone was wrong: `bool("false")` is `True` -/
theorem naive_restore_wrong : restoreKeyNaive .bool (Key.bool false).text = some (.bool true) := by decide

/-- two keys with the same json text make the dump refuse (instead of losing an entry) -/
theorem collision_refused (cls : DictCls) (k1 k2 : Key) (v1 v2 : PyVal) (h : k1.text = k2.text)
    (h1 : v1.isProperty = false) (h2 : v2.isProperty = false) :
    encode (.dict cls (.cons k1 v1 (.cons k2 v2 .nil))) = none := by
  simp [encode, PyEntries.kept, h1, h2, PyEntries.keys, h]

/-! non-vacuity: `{1: "a", "1": "b"}` is refused, `{False: 1}` round-trips -/
example : encode (.dict .dict (.cons (.int "1") (.scalar (.str "a")) (.cons (.str "1") (.scalar (.str "b")) .nil))) = none :=
  collision_refused .dict (.int "1") (.str "1") _ _ rfl rfl rfl
example : (encode (.dict .dict (.cons (.bool false) (.scalar (.int "1")) .nil))).bind decode
    = some (.dict .dict (.cons (.bool false) (.scalar (.int "1")) .nil)) := by
  simp [encode, decode, encodeEntries, decodeEntries, PyEntries.kept, PyEntries.keys, PyVal.isProperty, Key.text, Key.ty,
    restoreKey, boolText]

end Skops.Properties.C04
