import SkopsModel.Io.Heap
import SkopsModel.Io.GetTree
import SkopsModel.Lemmas.GetTreeInv
import SkopsModel.Generated.Specs
import SkopsModel.Generated.Facts
/-!
# C06 — The sharing structure of the object graph is preserved
-/
namespace Skops.Properties.C06
open Skops.Io.Heap

/-- invariant of a dump that memoizes before it writes ids -/
structure Inv (s : St) : Prop where
  pinned_live : ∀ o ∈ s.pinned, ∃ a, (o, a) ∈ s.live
  live_addr_inj : ∀ o1 a1 o2 a2, (o1, a1) ∈ s.live → (o2, a2) ∈ s.live → a1 = a2 → o1 = o2
  live_obj_inj : ∀ o a1 a2, (o, a1) ∈ s.live → (o, a2) ∈ s.live → a1 = a2
  ids_pinned : ∀ o a, (o, a) ∈ s.ids → o ∈ s.pinned ∧ (o, a) ∈ s.live

theorem addrOf_mem (live : List (Obj × Addr)) (o : Obj) (a : Addr) (h : addrOf live o = some a) : (o, a) ∈ live := by
  simp only [addrOf, Option.map_eq_some_iff] at h
  obtain ⟨p, hp, rfl⟩ := h
  have := List.find?_some hp
  have hm := List.mem_of_find?_eq_some hp
  simp at this
  rw [← this]
  exact hm

theorem step_inv (s s' : St) (e : Ev) (hi : Inv s) (h : step true s e = some s') : Inv s' := by
  cases e with
  | alloc o a =>
    simp only [step] at h
    split at h
    · cases h
    · rename_i hc
      simp only [Bool.or_eq_true, List.any_eq_true, decide_eq_true_eq, not_or, not_exists, not_and] at hc
      cases h
      refine ⟨?_, ?_, ?_, ?_⟩
      · intro o' ho'
        obtain ⟨a', ha'⟩ := hi.pinned_live o' ho'
        exact ⟨a', List.mem_cons_of_mem _ ha'⟩
      · intro o1 a1 o2 a2 h1 h2 he
        simp only [List.mem_cons, Prod.mk.injEq] at h1 h2
        rcases h1 with ⟨rfl, rfl⟩ | h1 <;> rcases h2 with ⟨rfl, rfl⟩ | h2
        · rfl
        · exact absurd he.symm (hc.1.1 _ h2)
        · exact absurd he (hc.1.1 _ h1)
        · exact hi.live_addr_inj _ _ _ _ h1 h2 he
      · intro o' a1 a2 h1 h2
        simp only [List.mem_cons, Prod.mk.injEq] at h1 h2
        rcases h1 with ⟨e1, e1'⟩ | h1 <;> rcases h2 with ⟨e2, e2'⟩ | h2
        · rw [e1', e2']
        · subst e1; exact absurd rfl (hc.1.2 _ h2)
        · subst e2; exact absurd rfl (hc.1.2 _ h1)
        · exact hi.live_obj_inj _ _ _ h1 h2
      · intro o' a' hm
        obtain ⟨h1, h2⟩ := hi.ids_pinned o' a' hm
        exact ⟨h1, List.mem_cons_of_mem _ h2⟩
  | free o =>
    simp only [step] at h
    split at h
    · cases h
    · rename_i hnp
      split at h
      · cases h
        have hnp' : o ∉ s.pinned := by simpa using hnp
        refine ⟨?_, ?_, ?_, ?_⟩
        · intro o' ho'
          obtain ⟨a', ha'⟩ := hi.pinned_live o' ho'
          refine ⟨a', ?_⟩
          simp only [List.mem_filter, ha', true_and, decide_eq_true_eq]
          intro e; subst e; exact hnp' ho'
        · intro o1 a1 o2 a2 h1 h2 he
          exact hi.live_addr_inj _ _ _ _ (List.mem_filter.mp h1).1 (List.mem_filter.mp h2).1 he
        · intro o' a1 a2 h1 h2
          exact hi.live_obj_inj _ _ _ (List.mem_filter.mp h1).1 (List.mem_filter.mp h2).1
        · intro o' a' hm
          obtain ⟨h1, h2⟩ := hi.ids_pinned o' a' hm
          refine ⟨h1, ?_⟩
          simp only [List.mem_filter, h2, true_and, decide_eq_true_eq]
          intro e; subst e; exact hnp' h1
      · cases h
  | visit o =>
    simp only [step] at h
    cases ha : addrOf s.live o with
    | none => simp [ha] at h
    | some a =>
      simp only [ha, if_true, Option.some.injEq] at h
      subst h
      have hmem := addrOf_mem s.live o a ha
      refine ⟨?_, hi.live_addr_inj, hi.live_obj_inj, ?_⟩
      · intro o' ho'
        simp only [List.mem_cons] at ho'
        rcases ho' with rfl | ho'
        · exact ⟨a, hmem⟩
        · exact hi.pinned_live o' ho'
      · intro o' a' hm
        simp only [List.mem_cons, Prod.mk.injEq] at hm
        rcases hm with ⟨rfl, rfl⟩ | hm
        · exact ⟨by simp, hmem⟩
        · obtain ⟨h1, h2⟩ := hi.ids_pinned o' a' hm
          exact ⟨List.mem_cons_of_mem _ h1, h2⟩

theorem run_inv : ∀ (es : List Ev) (s s' : St), Inv s → run true s es = some s' → Inv s'
  | [], s, s', hi, h => by simp [run] at h; subst h; exact hi
  | e :: es, s, s', hi, h => by
    simp only [run] at h
    cases hs : step true s e with
    | none => simp [hs] at h
    | some s1 =>
      simp only [hs] at h
      exact run_inv es s1 s' (step_inv s s1 e hi hs) h

theorem inv_init : Inv {} := ⟨by simp, by simp, by simp, by simp⟩

/-- **ids are faithful**: for every allocation history — any number of temporaries created and freed,
any address reuse the allocator likes — two ids written during one dump are equal exactly when they
belong to the same object.  (Hypothesis of the model: `get_state` memoizes the object before its id is
written and the memo is only cleared after the whole state is built — the generated flow facts below.) -/
theorem ids_faithful (es : List Ev) (s : St) (h : run true {} es = some s)
    (o1 o2 : Obj) (a1 a2 : Addr) (h1 : (o1, a1) ∈ s.ids) (h2 : (o2, a2) ∈ s.ids) :
    a1 = a2 ↔ o1 = o2 := by
  have hi := run_inv es {} s inv_init h
  constructor
  · intro he
    exact hi.live_addr_inj _ _ _ _ (hi.ids_pinned _ _ h1).2 (hi.ids_pinned _ _ h2).2 he
  · intro he
    subst he
    exact hi.live_obj_inj _ _ _ (hi.ids_pinned _ _ h1).2 (hi.ids_pinned _ _ h2).2

/-- the pin is necessary: without memoizing, a perfectly legal heap history gives two different objects
the same id (a temporary is visited, dies, and its address is reused by the next temporary) -/
theorem without_pin_ids_collide :
    ∃ es s, run false {} es = some s ∧ (1, 100) ∈ s.ids ∧ (2, 100) ∈ s.ids := by
  refine ⟨[.alloc 1 100, .visit 1, .free 1, .alloc 2 100, .visit 2], _, rfl, ?_, ?_⟩ <;> decide

/-- generated flow facts: `get_state` memoizes first and takes `__id__` from `memoize`; array / sparse
members are named after the memoized id and written once; the memo is cleared only after `get_state`
returned; `SaveContext.memoize` keeps a reference to *every* object it is given (exact body), and the load memo is
a plain dict from id to node -/
theorem flow_facts :
    Generated.facts.getStateMemoizesFirst = true ∧ Generated.facts.idFromMemoize = true ∧
    Generated.facts.memberNameFromMemoize = true ∧ Generated.facts.clearMemoAfterGetState = true ∧
    Generated.facts.memberWrittenOnce = true ∧ Generated.facts.memoizeKeepsReference = true ∧
    Generated.facts.loadMemoIsPlainDict = true := by decide

/-! non-vacuity: a history with a shared object and recycled temporaries -/
example : ∃ s, run true {} [.alloc 1 10, .visit 1, .alloc 2 11, .visit 2, .alloc 3 12, .free 3, .alloc 4 12, .visit 4, .visit 1] = some s ∧
    s.ids.length = 4 := ⟨_, rfl, rfl⟩

end Skops.Properties.C06

/-! ## load side: one node per `__id__` -/
namespace Skops.Properties.C06
open Skops.Io

/-- every registered loader memoizes its node under the archive's id, except the one that *reads* the memo
(`CachedNode`) -/
theorem all_kinds_memoize : Generated.table.kinds.all (fun k => k.memoize || k.memoRef) = true := by decide +kernel

/-- **load side, second reference**: a state whose `__id__` the memo already maps to a finished node yields that very
node, builds nothing and leaves the load state as it is -/
theorem second_reference_shares (env : Env) (fuel : Nat) (kvs : JO) (extra : List String) (st : LoadSt) (n : Node)
    (hk : ((kvs.get? "__id__").getD .null).pyKey ≠ PyKey.unhashable)
    (hm : memoGet st.memo ((kvs.get? "__id__").getD .null).pyKey = some (.done n)) :
    getTree env (fuel + 1) (.obj kvs) extra st = .ok (n, st) := by
  rw [getTree]
  simp only [hk, if_false, hm]

/-- **load side, first reference**: a memoizing kind that builds a node for a state with a truthy `__id__` leaves that
node in the memo under that id -/
theorem first_reference_memoized (env : Env) (fuel ki : Nat) (k : KindSpec) (state : J) (extra : List String) (idv : J)
    (st st' : LoadSt) (node : Node) (hmemo : k.memoize = true) (ht : idv.truthy = true)
    (h : buildNode env fuel ki k state extra idv st = .ok (node, st')) :
    memoGet st'.memo idv.pyKey = some (.done node) := by
  rw [buildNode] at h
  simp only [hmemo, ht, Bool.and_self, if_true] at h
  repeat' split at h
  all_goals (try cases h)
  all_goals simp [memoGet_memoSet]
/-- the hypotheses of `second_reference_shares` are satisfiable -/
example : memoGet ({ memo := [((J.int 7).pyKey, .done (Node.mk 0 0 (.str "m") (.str "c") [] .nil .no))] } : LoadSt).memo (J.int 7).pyKey
    = some (.done (Node.mk 0 0 (.str "m") (.str "c") [] .nil .no)) := by simp [memoGet]

end Skops.Properties.C06
