import SkopsModel.Card.Render
/-!
# `skops.card._markup.Markdown`: pandoc items → markdown text

The pandoc JSON tree is decoded (by the driver glue) into the typed tree `Item`.  The only state of
a `Markdown` instance is `_indent_trace`; it is threaded explicitly (`St`) so that "conversion does
not depend on what was converted before" is a theorem and not an assumption.
`_indented` is modelled as in the source: push, run the body, pop — the pop also on an exception
(`try/finally`).
-/
namespace Skops.Markup
open Skops Skops.Card

inductive Err | valueError
deriving DecidableEq, Repr

mutual
inductive Item
  | raw (s : String)                       -- a Python `str` handed to `__call__`
  | space | softBreak | lineBreak
  | str (s : String)
  | plain (xs : Items) | para (xs : Items)
  | strong (xs : Items) | emph (xs : Items) | strikeout (xs : Items)
  | rawInline (s : String) | rawBlock (s : String)
  | header (level : Nat) (xs : Items)
  | image (caption : Items) (dest typef : String)
  | codeBlock (classes : List String) (content : String)
  | code (txt : String)
  | table (cols : Items) (rows : ItemsList)     -- header cells, body rows of cells (layout-normalised)
  | div (ident : String) (classes : List String) (kvs : List (String × String)) (contents : Items)
  | link (txt : Items) (src : String)
  | bulletList (items : ItemsList)
  | orderedList (start : Nat) (items : ItemsList)
  | quoted (kind : String) (content : Items)
  | blockQuote (items : Items)
  | other (t : String)                     -- a constructor that is not in the dispatch table
inductive Items
  | nil
  | cons (x : Item) (xs : Items)
inductive ItemsList
  | nil
  | cons (x : Items) (xs : ItemsList)
end

abbrev St := List Nat          -- `_indent_trace`
abbrev R (α : Type) := Except Err α × St

/-- `value.replace("\\", "\\\\")` -/
def escBackslash (s : String) : String := sReplaceChar '\\' "\\\\" s

/-- `sum(self._indent_trace[:-1])` -/
def indentOuter (st : St) : Nat := st.dropLast.sum

/-- `_soft_break`: `"\n" + " " * (last + sum(trace[:-1]))`, `last = 0` for an empty trace -/
def softBreakText (st : St) : String := "\n" ++ repeatStr st.sum " "

/-- `<div ...>` opening tag -/
def divOpen (ident : String) (classes : List String) (kvs : List (String × String)) : String :=
  "<div" ++ (if ident = "" then "" else " id=\"" ++ ident ++ "\"")
    ++ (if classes.isEmpty then "" else " class=\"" ++ sJoin " " classes ++ "\"")
    ++ (if kvs.isEmpty then "" else
          " " ++ sJoin " " (kvs.map fun (k, v) => if v = "" then k else k ++ "=\"" ++ v ++ "\""))
    ++ ">"

/-- `zip(*body)`: transpose, truncated to the shortest row -/
def transposeTrunc (rows : List (List String)) : List (List String) :=
  match rows with
  | [] => []
  | r :: rs =>
    let n := (r :: rs).foldl (fun m row => min m row.length) r.length
    (List.range n).map fun i => (r :: rs).map fun row => row.getD i ""

/-- `{key: val for key, val in pairs}`: a later duplicate key overwrites the value, keeps the position -/
def dictOfPairs (pairs : List (String × List String)) : Table :=
  pairs.foldl (fun t kv =>
    if t.any (·.1 = kv.1) then t.map (fun e => if e.1 = kv.1 then (e.1, kv.2) else e) else t ++ [kv]) []

/-- `_table`: build the column dict and format it through `TableSection` (`ValueError` if it has no
columns) -/
def tableText (cols : List String) (body : List (List String)) : Except Err String :=
  let table : Table :=
    if body.isEmpty then dictOfPairs (cols.map fun c => (c, []))
    else dictOfPairs (cols.zip (transposeTrunc body))
  if table.isEmpty then .error .valueError
  else .ok (tableToken (tableCells table))

def listMarker : Option Nat → String
  | none => "-"
  | some i => toString i ++ "."

mutual
/-- `Markdown.__call__` -/
def conv : Item → St → R String
  | .raw s, st => (.ok s, st)
  | .space, st => (.ok " ", st)
  | .softBreak, st => (.ok (softBreakText st), st)
  | .lineBreak, st => (.ok "\n", st)
  | .str s, st => (.ok (escBackslash s), st)
  | .plain xs, st => convJoin xs st
  | .para xs, st => convJoin xs st
  | .strong xs, st =>
    match convJoin xs st with
    | (.ok a, st') => (.ok ("**" ++ a ++ "**"), st')
    | (.error e, st') => (.error e, st')
  | .emph xs, st =>
    match convJoin xs st with
    | (.ok a, st') => (.ok ("_" ++ a ++ "_"), st')
    | (.error e, st') => (.error e, st')
  | .strikeout xs, st =>
    match convJoin xs st with
    | (.ok a, st') => (.ok ("~~" ++ a ++ "~~"), st')
    | (.error e, st') => (.error e, st')
  | .rawInline s, st => (.ok s, st)
  | .rawBlock s, st => (.ok s, st)
  | .header _ xs, st => convJoin xs st
  | .image caption dest typef, st =>
    match caption with
    | .nil => (.error .valueError, st)
    | .cons _ _ =>
      if !typef.startsWith "fig:" then (.error .valueError, st)
      else match convJoin caption st with
        | (.ok a, st') => (.ok ("![" ++ a ++ "](" ++ dest ++ ")"), st')
        | (.error e, st') => (.error e, st')
  | .codeBlock classes content, st =>
    (.ok (sJoin "\n" ["```" ++ (if classes.isEmpty then "" else sJoin ", " classes), content, "```"]), st)
  | .code txt, st => (.ok ("`" ++ txt ++ "`"), st)
  | .table cols rows, st =>
    match convList cols st with
    | (.error e, st') => (.error e, st')
    | (.ok cs, st') =>
      match convRows rows st' with
      | (.error e, st'') => (.error e, st'')
      | (.ok body, st'') => (tableText cs body, st'')
  | .div ident classes kvs contents, st =>
    match convDivBody contents st with
    | (.ok parts, st') => (.ok (divOpen ident classes kvs ++ String.join parts ++ "</div>"), st')
    | (.error e, st') => (.error e, st')
  | .link txt src, st =>
    match convJoin txt st with
    | (.ok a, st') => (.ok ("[" ++ a ++ "](" ++ src ++ ")"), st')
    | (.error e, st') => (.error e, st')
  | .bulletList items, st =>
    -- `with self._indented(spaces=2): ...` : push, body, pop (also on error)
    match convListItems items none (st ++ [2]) with
    | (.ok parts, st') => (.ok (sJoin "\n" parts), st'.dropLast)
    | (.error e, st') => (.error e, st'.dropLast)
  | .orderedList start items, st =>
    match convListItems items (some start) (st ++ [3]) with
    | (.ok parts, st') => (.ok (sJoin "\n" parts), st'.dropLast)
    | (.error e, st') => (.error e, st'.dropLast)
  | .quoted kind content, st =>
    if kind = "DoubleQuote" then
      match convJoin content st with
      | (.ok a, st') => (.ok ("\"" ++ a ++ "\""), st')
      | (.error e, st') => (.error e, st')
    else if kind = "SingleQuote" then
      match convJoin content st with
      | (.ok a, st') => (.ok ("'" ++ a ++ "'"), st')
      | (.error e, st') => (.error e, st')
    else (.error .valueError, st)
  | .blockQuote items, st =>
    match convList items st with
    | (.ok parts, st') =>
      (.ok ("> " ++ sJoin "\n> " (parts.map fun p => String.ofList (replaceChar '\n' "\n> ".toList p.toList))), st')
    | (.error e, st') => (.error e, st')
  | .other _, st => (.error .valueError, st)

/-- `"".join(self.__call__(i) for i in xs)` -/
def convJoin : Items → St → R String
  | .nil, st => (.ok "", st)
  | .cons x xs, st =>
    match conv x st with
    | (.error e, st1) => (.error e, st1)
    | (.ok a, st1) =>
      match convJoin xs st1 with
      | (.ok b, st2) => (.ok (a ++ b), st2)
      | (.error e, st2) => (.error e, st2)

/-- `[self.__call__(i) for i in xs]` -/
def convList : Items → St → R (List String)
  | .nil, st => (.ok [], st)
  | .cons x xs, st =>
    match conv x st with
    | (.error e, st1) => (.error e, st1)
    | (.ok a, st1) =>
      match convList xs st1 with
      | (.ok b, st2) => (.ok (a :: b), st2)
      | (.error e, st2) => (.error e, st2)

/-- table body: one list of cell texts per row -/
def convRows : ItemsList → St → R (List (List String))
  | .nil, st => (.ok [], st)
  | .cons r rs, st =>
    match convList r st with
    | (.error e, st1) => (.error e, st1)
    | (.ok a, st1) =>
      match convRows rs st1 with
      | (.ok b, st2) => (.ok (a :: b), st2)
      | (.error e, st2) => (.error e, st2)

/-- `_parse_div` body: every content item is converted inside its own `_indented(spaces=2)` -/
def convDivBody : Items → St → R (List String)
  | .nil, st => (.ok [], st)
  | .cons x xs, st =>
    match conv x (st ++ [2]) with
    | (.error e, st1) => (.error e, st1.dropLast)
    | (.ok a, st1) =>
      match convDivBody xs st1.dropLast with
      | (.ok b, st2) => (.ok (a :: b), st2)
      | (.error e, st2) => (.error e, st2)

/-- the loop of `_bullet_list` / `_ordered_list` over `_make_list_item` -/
def convListItems : ItemsList → Option Nat → St → R (List String)
  | .nil, _, st => (.ok [], st)
  | .cons it its, idx, st =>
    match convList it st with
    | (.error e, st1) => (.error e, st1)
    | (.ok parts, st1) =>
      let line := repeatStr (indentOuter st1) " " ++ listMarker idx ++ " " ++ sJoin "\n" parts
      match convListItems its (idx.map (· + 1)) st1 with
      | (.ok b, st2) => (.ok (line :: b), st2)
      | (.error e, st2) => (.error e, st2)
end

end Skops.Markup
