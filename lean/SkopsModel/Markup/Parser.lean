import SkopsModel.Markup.Markdown
import SkopsModel.Card.Forest
/-!
# `skops.card._parser.PandocParser.generate`

One `Markdown` instance converts every top-level block (its indentation state is threaded through
the whole document); headers maintain a stack of (level, title) and create the section at the
stack's path; every other block is appended to the current section's content.
-/
namespace Skops.Markup
open Skops Skops.Card

/-- `res.replace("- ☒", "- [x]").replace("- ☐", "- [ ]")` (the two patterns cannot overlap or
create one another, so one left-to-right pass equals the two sequential passes) -/
def postBoxes : List Char → List Char
  | '-' :: ' ' :: '☒' :: rest => "- [x]".toList ++ postBoxes rest
  | '-' :: ' ' :: '☐' :: rest => "- [ ]".toList ++ postBoxes rest
  | c :: rest => c :: postBoxes rest
  | [] => []

/-- `_post_process`: first NBSP → space, then the check-box replacement -/
def postProcess (s : String) : String :=
  String.ofList (postBoxes (s.toList.map fun c => if c = '\u00a0' then ' ' else c))

structure PState where
  forest : Forest := .nil
  stack : List (Nat × String) := []          -- open headers, innermost (most recent) first
  cur : Option (List String) := none         -- path of the current section
  md : St := []                              -- `_indent_trace` of the one Markdown instance

/-- `while level_trace and level_trace[-1] >= level: pop` — drop every open header whose level is
not lower than `level` -/
def popTo (level : Nat) (stack : List (Nat × String)) : List (Nat × String) :=
  stack.dropWhile (fun e => decide (level ≤ e.1))

/-- `section_trace`: the titles of the open headers, outermost first -/
def pathOf (stack : List (Nat × String)) : List String := stack.reverse.map (·.2)

def splitLastS : List String → List String × String
  | [] => ([], "")
  | [x] => ([], x)
  | x :: xs => let r := splitLastS xs; (x :: r.1, r.2)

/-- `_add_content` -/
def appendContent (text : String) (s : Sec) : Sec :=
  match s.body with
  | .text c => { s with body := .text (if c = "" then text else c ++ "\n\n" ++ text) }
  | _ => s

/-- one iteration of the loop in `generate` -/
def parseStep (ps : PState) (block : Item) : Except Err PState :=
  match block with
  | .header level xs =>
    match conv (.header level xs) ps.md with
    | (.error e, _) => .error e
    | (.ok content, md') =>
      let title := postProcess content
      let stack := (level, title) :: popTo level ps.stack
      let path := pathOf stack
      let p := splitLastS path
      .ok { forest := ps.forest.addAt p.1 p.2 { title := p.2, body := .text "" },
            stack := stack, cur := some path, md := md' }
  | b =>
    match conv b ps.md with
    | (.error e, _) => .error e
    | (.ok res, md') =>
      match ps.cur with
      | none => .error .valueError
      | some path =>
        let p := splitLastS path
        match ps.forest.modifyAt (appendContent (postProcess res)) p.1 p.2 with
        | some f => .ok { ps with forest := f, md := md' }
        | none => .error .valueError

def generateFrom (ps : PState) : List Item → Except Err PState
  | [] => .ok ps
  | b :: bs =>
    match parseStep ps b with
    | .ok ps' => generateFrom ps' bs
    | .error e => .error e

/-- `PandocParser(source).generate()._data` -/
def generate (blocks : List Item) : Except Err Forest :=
  match generateFrom {} blocks with
  | .ok ps => .ok ps.forest
  | .error e => .error e

end Skops.Markup
