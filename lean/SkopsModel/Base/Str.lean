/-!
# Python string primitives used by the modelled code

`str` is modelled as `List Char` (code points; lone surrogates are outside `Char` and
excluded from generators).  Everything here is total and structurally recursive.
-/
namespace Skops

/-- Code points for which CPython's `str.isspace()` is true, i.e. what `str.strip()`
removes.  Compared exhaustively (all code points) against the implementation by the
harness on every run (`op = "ws"`). -/
def pySpaceCodes : List Nat :=
  [0x9,0xa,0xb,0xc,0xd,0x1c,0x1d,0x1e,0x1f,0x20,0x85,0xa0,0x1680,0x2000,0x2001,0x2002,0x2003,
   0x2004,0x2005,0x2006,0x2007,0x2008,0x2009,0x200a,0x2028,0x2029,0x202f,0x205f,0x3000]

def pySpace (c : Char) : Bool := pySpaceCodes.contains c.toNat

theorem backslash_not_space : pySpace '\\' = false := by decide
theorem slash_not_space : pySpace '/' = false := by decide

/-- `s.rstrip()` on a list, by structural recursion (drop the longest suffix satisfying `p`). -/
def rstripBy {α} (p : α → Bool) : List α → List α
  | [] => []
  | c :: cs =>
    match rstripBy p cs with
    | [] => if p c then [] else [c]
    | r => c :: r

/-- `s.strip()` -/
def stripBy {α} (p : α → Bool) (s : List α) : List α := rstripBy p (s.dropWhile p)

def strip (s : List Char) : List Char := stripBy pySpace s

/-- Python `sep.join(parts)` -/
def joinWith (sep : List Char) : List (List Char) → List Char
  | [] => []
  | [p] => p
  | p :: ps => p ++ sep ++ joinWith sep ps

/-- Python `s.replace(old, new)` for a single-character `old`. -/
def replaceChar (old : Char) (new : List Char) : List Char → List Char
  | [] => []
  | c :: cs => if c = old then new ++ replaceChar old new cs else c :: replaceChar old new cs

def sJoin (sep : String) (parts : List String) : String :=
  String.ofList (joinWith sep.toList (parts.map String.toList))

def sReplaceChar (old : Char) (new : String) (s : String) : String :=
  String.ofList (replaceChar old new.toList s.toList)

/-- `n * s` -/
def repeatStr (n : Nat) (s : String) : String := String.join (List.replicate n s)

end Skops
