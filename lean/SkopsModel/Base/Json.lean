/-!
# JSON values as Python's `json.loads` produces them

Objects are insertion-ordered association lists (`JO`); the harness sends exactly what
`json.loads` returned (duplicate keys already collapsed by Python).  Integers are `Int`;
non-integral numbers are kept as their literal token and never interpreted.
The three types are mutually inductive so that every walker is structurally recursive.
-/
namespace Skops

mutual
inductive J
  | null
  | bool (b : Bool)
  | int (i : Int)
  | float (tok : String) (asInt : Option Int)   -- `asInt`: the value when `float.is_integer()`
  | str (s : String)
  | arr (xs : JL)
  | obj (kvs : JO)
inductive JL
  | nil
  | cons (x : J) (xs : JL)
inductive JO
  | nil
  | cons (k : String) (v : J) (rest : JO)
end

namespace JO
def get? : JO → String → Option J
  | nil, _ => none
  | cons k v rest, x => if k = x then some v else get? rest x

def toList : JO → List (String × J)
  | nil => []
  | cons k v rest => (k, v) :: toList rest

def isEmpty : JO → Bool
  | nil => true
  | _ => false
end JO

namespace JL
def toList : JL → List J
  | nil => []
  | cons x xs => x :: toList xs
end JL

namespace J

/-- `state[key]` : `none` = KeyError / TypeError (not a dict) -/
def get? : J → String → Option J
  | obj kvs, k => kvs.get? k
  | _, _ => none

/-- `state[k1][k2]...` -/
def getPath? : J → List String → Option J
  | j, [] => some j
  | j, k :: ks =>
    match j.get? k with
    | some v => getPath? v ks
    | none => none

def isNull : J → Bool
  | null => true
  | _ => false

def isObj : J → Bool
  | obj _ => true
  | _ => false

def asStr? : J → Option String
  | str s => some s
  | _ => none

/-- Python truthiness of a JSON value -/
def truthy : J → Bool
  | null => false
  | bool b => b
  | int i => i != 0
  | float _ asInt => asInt != some 0
  | str s => s != ""
  | arr .nil => false
  | arr _ => true
  | obj .nil => false
  | obj _ => true

/-- Python iteration `for x in v` over a JSON value: arrays yield their elements, dicts their keys,
strings their characters; anything else raises `TypeError` (`none`). -/
def pyIter : J → Option (List J)
  | arr xs => some xs.toList
  | obj kvs => some (kvs.toList.map fun kv => J.str kv.1)
  | str s => some (s.toList.map fun c => J.str (String.singleton c))
  | _ => none

end J

/-- A JSON value used as a Python dict key (`__id__` in the load memo, the protocol number in
`(loader, protocol)`): `1 == 1.0 == True` hash and compare equal; arrays/objects are unhashable. -/
inductive PyKey
  | none
  | int (i : Int)
  | float (tok : String)
  | str (s : String)
  | unhashable
deriving DecidableEq, Repr

def J.pyKey : J → PyKey
  | .null => .none
  | .bool b => .int (if b then 1 else 0)
  | .int i => .int i
  | .float tok none => .float tok
  | .float _ (some i) => .int i
  | .str s => .str s
  | .arr _ => .unhashable
  | .obj _ => .unhashable

end Skops
