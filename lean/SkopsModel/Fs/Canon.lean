import SkopsModel.Fs.Prog
/-!
# The three programs the theorems are proved about

They read like the code.  `Properties/C16|C17|C18.lean` check by `rfl` that the skeletons regenerated from the
current source (`Generated/Skeletons.lean`) are these very programs.
-/
namespace Skops.Fs

/-- `skops.cli._update._update_file` -/
def updateProg : List Stmt :=
  [ .ite .inplace [.ite .outputNone [.outputGetsInput] [.raise "ValueError"]] [],
    .loadInput,
    .readProtocol,
    .ite .protoEq [.log "warning", .ret] [],
    .ite .protoGt [.log "warning", .ret] [],
    .ite .outputNone [.log "warning", .ret] [],
    .destGetsOutput,
    .withTmpDir true [.tmpGets true, .dumpTmp, .replaceTmpDest],
    .log "info" ]

/-- `skops.cli._update.main`: pure argument wiring, then the call -/
def updateMainProg : List Stmt := []

/-- `_update_file` as it was before the repair (temporary directory in the system location, temporary name derived
from the whole output path, `shutil.move`): kept to state what was wrong with it -/
def updateProgOld : List Stmt :=
  [ .ite .inplace [.ite .outputNone [.outputGetsInput] [.raise "ValueError"]] [],
    .loadInput,
    .readProtocol,
    .ite .protoEq [.log "warning", .ret] [],
    .ite .protoGt [.log "warning", .ret] [],
    .ite .outputNone [.log "warning", .ret] [],
    .withTmpDir false [.tmpGets false, .dumpTmp, .moveTmpDest],
    .log "info" ]

/-- `skops.cli._convert._convert_file` -/
def convertProg : List Stmt :=
  [ .log "debug", .unpickle, .dumpsObj, .inspectDump,
    .ite .untrustedEmpty [.log "info"] [.log "warning"],
    .writeOutput, .log "debug" ]

/-- `skops.cli._convert.main` -/
def convertMainProg : List Stmt := [ .ite .outputNone [.defaultOutput] [] ]

/-- `skops.io.dump` -/
def dumpProg : List Stmt := [ .saveBuffer, .ite .sinkIsPath [.writeSinkPath] [.writeSinkFile] ]

/-- `skops.io.dumps` -/
def dumpsProg : List Stmt := [ .saveBuffer, .returnBytes ]

/-- the destination `skops update` writes to, if the options name one -/
def destOf (cfg : Cfg) : Option Path :=
  if cfg.inplace then (if cfg.output.isNone then some cfg.input else none) else cfg.output

end Skops.Fs
