import SkopsModel.Fs.Fs
/-!
# Statement-level skeletons of `skops update`, `skops convert` and `dump` (C16, C17, C18)

`harness/translate/skeleton.py` maps every statement of `_update_file`, `_convert_file`, the two CLI `main`s,
`dump` and `dumps` to one constructor of `Stmt` (anything it does not recognise becomes `.unknown src`, which the
interpreter turns into an `unmodelled` exception, so no theorem about a clean run survives it).  `exec` gives the
statements their meaning over the file-system model of `Fs.lean`.
-/
namespace Skops.Fs

/-- a `pathlib.Path` as written by the user: relative or absolute, components not normalised -/
structure Path where
  abs : Bool
  parts : List String
  deriving Repr, DecidableEq

def Path.resolve (cwd : RPath) (p : Path) : RPath := if p.abs then p.parts else cwd ++ p.parts
def Path.parent (p : Path) : Path := { p with parts := p.parts.dropLast }
def Path.name (p : Path) : String := p.parts.getLast?.getD ""
def Path.join (a b : Path) : Path := if b.abs then b else { a with parts := a.parts ++ b.parts }
/-- `Path(str(p) + suffix)` -/
def Path.addSuffix (p : Path) (s : String) : Path :=
  match p.parts.getLast? with
  | some l => { p with parts := p.parts.dropLast ++ [l ++ s] }
  | none => { p with parts := [s] }

/-- `PurePath.stem` of Python 3.12: the name without its last suffix; a leading or trailing dot is no suffix -/
def stem (name : String) : String :=
  let cs := name.toList
  let tailRev := cs.reverse.takeWhile (· ≠ '.')          -- the suffix without its dot, reversed
  if tailRev.length == cs.length then name                 -- no dot at all
  else
    let i := cs.length - tailRev.length - 1                -- index of the last dot
    if 0 < i ∧ i < cs.length - 1 then String.ofList (cs.take i) else name

structure Cfg where
  cwd : RPath
  input : Path
  output : Option Path
  inplace : Bool := false
  proto : Nat := 0
  cur : Nat := 2
  loadable : Bool := true
  dumpable : Bool := true
  untrusted : List String := []
  chunks : List Bytes := []
  fresh : String := "tmpdir"
  sysTmp : RPath := ["tmp"]
  sysTmpSameFs : Bool := true
  sinkIsPath : Bool := true
  deriving Repr

inductive Cond
  | inplace | outputNone | protoEq | protoGt | untrustedEmpty | sinkIsPath
  deriving Repr, DecidableEq

inductive Stmt
  | ite (c : Cond) (t e : List Stmt)
  | raise (exc : String)
  | ret
  | log (level : String)
  | outputGetsInput
  | loadInput
  | readProtocol
  | destGetsOutput
  | withTmpDir (besideDest : Bool) (body : List Stmt)
  | tmpGets (fromDestName : Bool)
  | dumpTmp
  | replaceTmpDest
  | moveTmpDest
  | unpickle
  | dumpsObj
  | inspectDump
  | writeOutput
  | saveBuffer
  | writeSinkPath
  | writeSinkFile
  | returnBytes
  | defaultOutput
  | unknown (src : String)
  deriving Repr

inductive Sig
  | next | ret | raised (e : String)
  deriving Repr, DecidableEq

structure World where
  fs : FS
  trace : List Op := []
  logs : List String := []
  output : Option Path := none
  dest : Option Path := none
  tmpDir : Option RPath := none
  tmp : Option RPath := none
  buffer : Option (List Bytes) := none
  handle : List Bytes := []
  returned : Option (List Bytes) := none
  deriving Repr

/-- perform operations one by one; the first failure raises `OSError` and the rest is not attempted -/
def doOps (w : World) : List Op → World × Sig
  | [] => (w, .next)
  | op :: rest =>
      match step w.fs op with
      | .ok fs' => doOps { w with fs := fs', trace := w.trace ++ [op] } rest
      | .error _ => (w, .raised "OSError")

def writeOps (p : RPath) (chunks : List Bytes) : List Op := .create p :: chunks.map (.append p)

def Cond.eval (cfg : Cfg) (w : World) : Cond → Bool
  | .inplace => cfg.inplace
  | .outputNone => w.output.isNone
  | .protoEq => cfg.proto == cfg.cur
  | .protoGt => cfg.proto > cfg.cur
  | .untrustedEmpty => cfg.untrusted.isEmpty
  | .sinkIsPath => cfg.sinkIsPath

mutual
def execS (cfg : Cfg) : Stmt → World → World × Sig
  | .ite c t e, w => if c.eval cfg w then execL cfg t w else execL cfg e w
  | .raise exc, w => (w, .raised exc)
  | .ret, w => (w, .ret)
  | .log lvl, w => ({ w with logs := w.logs ++ [lvl] }, .next)
  | .outputGetsInput, w => ({ w with output := some cfg.input }, .next)
  | .loadInput, w => if cfg.loadable then (w, .next) else (w, .raised "load")
  | .readProtocol, w => (w, .next)
  | .destGetsOutput, w =>
      match w.output with
      | some o => ({ w with dest := some o }, .next)
      | none => (w, .raised "TypeError")
  | .withTmpDir beside body, w =>
      let base : Option RPath := if beside then w.dest.map (fun d => d.parent.resolve cfg.cwd) else some cfg.sysTmp
      match base with
      | none => (w, .raised "NameError")
      | some b =>
          let d := b ++ [cfg.fresh]
          match doOps w [.mkdir d] with
          | (w1, .next) =>
              let (w2, s) := execL cfg body { w1 with tmpDir := some d }
              let (w3, _) := doOps w2 [.rmtree d]                  -- context-manager exit, on every way out
              (w3, s)
          | r => r
  | .tmpGets fromDestName, w =>
      match w.tmpDir, w.dest, w.output with
      | some t, some d, some o =>
          let rel : Path := if fromDestName then ⟨false, [d.name ++ ".tmp"]⟩ else o.addSuffix ".tmp"
          ({ w with tmp := some ((Path.join ⟨true, t⟩ rel).resolve cfg.cwd) }, .next)
      | some t, none, some o =>
          if fromDestName then (w, .raised "NameError")
          else ({ w with tmp := some ((Path.join ⟨true, t⟩ (o.addSuffix ".tmp")).resolve cfg.cwd) }, .next)
      | _, _, _ => (w, .raised "NameError")
  | .dumpTmp, w =>
      match w.tmp with
      | none => (w, .raised "NameError")
      | some t => if cfg.dumpable then doOps w (writeOps t cfg.chunks) else (w, .raised "dump")
  | .replaceTmpDest, w =>
      match w.tmp, w.dest with
      | some t, some d => doOps w [.replace t (d.resolve cfg.cwd)]
      | _, _ => (w, .raised "NameError")
  | .moveTmpDest, w =>
      match w.tmp, w.tmpDir, w.output with
      | some t, some td, some o =>
          let d := o.resolve cfg.cwd
          let same := if under cfg.sysTmp td then cfg.sysTmpSameFs else true
          if same then doOps w [.replace t d]
          else doOps w (writeOps d cfg.chunks ++ [.unlink t])        -- copy, then remove the source
      | _, _, _ => (w, .raised "NameError")
  | .unpickle, w => if cfg.loadable then (w, .next) else (w, .raised "unpickle")
  | .dumpsObj, w => if cfg.dumpable then ({ w with buffer := some cfg.chunks }, .next) else (w, .raised "dump")
  | .inspectDump, w => (w, .next)
  | .writeOutput, w =>
      match w.output, w.buffer with
      | some o, some b => doOps w (writeOps (o.resolve cfg.cwd) b)
      | _, _ => (w, .raised "NameError")
  | .saveBuffer, w => if cfg.dumpable then ({ w with buffer := some cfg.chunks }, .next) else (w, .raised "dump")
  | .writeSinkPath, w =>
      match w.output, w.buffer with
      | some o, some b => doOps w (writeOps (o.resolve cfg.cwd) b)
      | _, _ => (w, .raised "NameError")
  | .writeSinkFile, w =>
      match w.buffer with
      | some b => ({ w with handle := w.handle ++ b }, .next)
      | none => (w, .raised "NameError")
  | .returnBytes, w =>
      match w.buffer with
      | some b => ({ w with returned := some b }, .ret)
      | none => (w, .raised "NameError")
  | .defaultOutput, w =>
      ({ w with output := some ⟨true, cfg.cwd ++ [stem cfg.input.name ++ ".skops"]⟩ }, .next)
  | .unknown _, w => (w, .raised "unmodelled")

def execL (cfg : Cfg) : List Stmt → World → World × Sig
  | [], w => (w, .next)
  | s :: rest, w =>
      match execS cfg s w with
      | (w', .next) => execL cfg rest w'
      | r => r
end

/-- run `main` from the CLI options; its last statement is the call of `inner` (checked by the translator) -/
def run (main inner : List Stmt) (cfg : Cfg) (fs : FS) : World × Sig :=
  match execL cfg main { fs := fs, output := cfg.output } with
  | (w, .next) => execL cfg inner w
  | r => r

end Skops.Fs
