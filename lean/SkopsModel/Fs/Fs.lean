/-!
# A small POSIX-like file-system model (C16, C17, C18)

Paths are lists of components, already resolved against the working directory (no `.`/`..`/symlinks: those are
exercised on the real code by the harness only).  A state is a set of directories and a finite map from paths to
byte strings.  Each `Op` is one *atomic* step as seen by an observer that may kill the process between any two
steps: `create` (open for writing, truncating), `append` (one `write` of any size — the chunking is a parameter,
so a theorem quantified over all chunkings covers a kill in the middle of a logical write), `replace`
(`os.replace`, atomic by POSIX contract), `unlink`, `mkdir`, `rmtree`.
-/
namespace Skops.Fs

abbrev Bytes := List Nat
abbrev RPath := List String          -- resolved, absolute

structure FS where
  dirs : List RPath
  files : List (RPath × Bytes)
  deriving Repr

def FS.read (fs : FS) (p : RPath) : Option Bytes :=
  match fs.files.find? (fun e => e.1 == p) with
  | some e => some e.2
  | none => none

def FS.isDir (fs : FS) (d : RPath) : Bool := fs.dirs.contains d

def FS.put (fs : FS) (p : RPath) (b : Bytes) : FS :=
  { fs with files := (p, b) :: fs.files.filter (fun e => !(e.1 == p)) }

def FS.del (fs : FS) (p : RPath) : FS :=
  { fs with files := fs.files.filter (fun e => !(e.1 == p)) }

inductive Op
  | mkdir (d : RPath)
  | create (p : RPath)
  | append (p : RPath) (b : Bytes)
  | replace (src dst : RPath)
  | unlink (p : RPath)
  | rmtree (d : RPath)
  deriving Repr, DecidableEq

inductive Err
  | enoent | eexist | eisdir
  deriving Repr, DecidableEq

/-- `d <+: p` as a Bool -/
def under (d p : RPath) : Bool := d.isPrefixOf p

def step (fs : FS) : Op → Except Err FS
  | .mkdir d =>
      if !fs.isDir d.dropLast then .error .enoent
      else if fs.isDir d || (fs.read d).isSome then .error .eexist
      else .ok { fs with dirs := d :: fs.dirs }
  | .create p =>
      if !fs.isDir p.dropLast then .error .enoent
      else if fs.isDir p then .error .eisdir
      else .ok (fs.put p [])
  | .append p b =>
      match fs.read p with
      | some c => .ok (fs.put p (c ++ b))
      | none => .error .enoent
  | .replace s d =>
      match fs.read s with
      | none => .error .enoent
      | some c =>
          if !fs.isDir d.dropLast then .error .enoent
          else if fs.isDir d then .error .eisdir
          else .ok ((fs.del s).put d c)
  | .unlink p =>
      match fs.read p with
      | some _ => .ok (fs.del p)
      | none => .error .enoent
  | .rmtree d =>
      .ok { dirs := fs.dirs.filter (fun q => !under d q), files := fs.files.filter (fun e => !under d e.1) }

/-- apply a list of operations that are known to have succeeded (used for crash prefixes of a recorded trace);
a failing operation leaves the state as it is -/
def applyAll (fs : FS) : List Op → FS
  | [] => fs
  | op :: rest =>
      match step fs op with
      | .ok fs' => applyAll fs' rest
      | .error _ => applyAll fs rest

/-- does the operation write to, create or remove the path `p`? -/
def Op.touches (p : RPath) : Op → Bool
  | .mkdir _ => false
  | .create q => q == p
  | .append q _ => q == p
  | .replace s d => s == p || d == p
  | .unlink q => q == p
  | .rmtree d => under d p

end Skops.Fs
