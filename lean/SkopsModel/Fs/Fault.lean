import SkopsModel.Fs.Canon
/-!
# The same programs when one file operation fails with an I/O error (C16)

`execS`/`execL` of `Prog.lean` let an operation fail only for a reason the file-system model knows (a missing
directory, a name that is taken).  A full disk, a quota or a file-size limit make *any* operation fail: here the
run carries a countdown `k : Option Nat`, and the operation that is reached when the countdown stands at `0`
raises `OSError` instead of taking place (once: after it fired the countdown is `none`).  Everything else is the
interpreter of `Prog.lean`, statement for statement; `execSF_none`/`execLF_none` show that without a countdown
the two interpreters are the same function.
-/
namespace Skops.Fs

/-- `doOps` with a countdown: the operation reached at `some 0` fails instead of taking place -/
def doOpsF (w : World) (k : Option Nat) : List Op → (World × Sig) × Option Nat
  | [] => ((w, .next), k)
  | op :: rest =>
      match k with
      | some 0 => ((w, .raised "OSError"), none)
      | _ =>
          match step w.fs op with
          | .ok fs' => doOpsF { w with fs := fs', trace := w.trace ++ [op] } (k.map (· - 1)) rest
          | .error _ => ((w, .raised "OSError"), k.map (· - 1))

mutual
def execSF (cfg : Cfg) : Stmt → World → Option Nat → (World × Sig) × Option Nat
  | .ite c t e, w, k => if c.eval cfg w then execLF cfg t w k else execLF cfg e w k
  | .withTmpDir beside body, w, k =>
      let base : Option RPath := if beside then w.dest.map (fun d => d.parent.resolve cfg.cwd) else some cfg.sysTmp
      match base with
      | none => ((w, .raised "NameError"), k)
      | some b =>
          let d := b ++ [cfg.fresh]
          match doOpsF w k [.mkdir d] with
          | ((w1, .next), k1) =>
              match execLF cfg body { w1 with tmpDir := some d } k1 with
              | ((w2, s), k2) =>
                  -- context-manager exit, on every way out; if the removal itself fails, that error is what is raised
                  match doOpsF w2 k2 [.rmtree d] with
                  | ((w3, .next), k3) => ((w3, s), k3)
                  | r => r
          | r => r
  | .dumpTmp, w, k =>
      match w.tmp with
      | none => ((w, .raised "NameError"), k)
      | some t => if cfg.dumpable then doOpsF w k (writeOps t cfg.chunks) else ((w, .raised "dump"), k)
  | .replaceTmpDest, w, k =>
      match w.tmp, w.dest with
      | some t, some d => doOpsF w k [.replace t (d.resolve cfg.cwd)]
      | _, _ => ((w, .raised "NameError"), k)
  | .moveTmpDest, w, k =>
      match w.tmp, w.tmpDir, w.output with
      | some t, some td, some o =>
          let d := o.resolve cfg.cwd
          let same := if under cfg.sysTmp td then cfg.sysTmpSameFs else true
          if same then doOpsF w k [.replace t d]
          else doOpsF w k (writeOps d cfg.chunks ++ [.unlink t])
      | _, _, _ => ((w, .raised "NameError"), k)
  | .writeOutput, w, k =>
      match w.output, w.buffer with
      | some o, some b => doOpsF w k (writeOps (o.resolve cfg.cwd) b)
      | _, _ => ((w, .raised "NameError"), k)
  | .writeSinkPath, w, k =>
      match w.output, w.buffer with
      | some o, some b => doOpsF w k (writeOps (o.resolve cfg.cwd) b)
      | _, _ => ((w, .raised "NameError"), k)
  -- the statements that perform no file operation are those of `execS`
  | .raise exc, w, k => (execS cfg (.raise exc) w, k)
  | .ret, w, k => (execS cfg .ret w, k)
  | .log lvl, w, k => (execS cfg (.log lvl) w, k)
  | .outputGetsInput, w, k => (execS cfg .outputGetsInput w, k)
  | .loadInput, w, k => (execS cfg .loadInput w, k)
  | .readProtocol, w, k => (execS cfg .readProtocol w, k)
  | .destGetsOutput, w, k => (execS cfg .destGetsOutput w, k)
  | .tmpGets f, w, k => (execS cfg (.tmpGets f) w, k)
  | .unpickle, w, k => (execS cfg .unpickle w, k)
  | .dumpsObj, w, k => (execS cfg .dumpsObj w, k)
  | .inspectDump, w, k => (execS cfg .inspectDump w, k)
  | .saveBuffer, w, k => (execS cfg .saveBuffer w, k)
  | .writeSinkFile, w, k => (execS cfg .writeSinkFile w, k)
  | .returnBytes, w, k => (execS cfg .returnBytes w, k)
  | .defaultOutput, w, k => (execS cfg .defaultOutput w, k)
  | .unknown src, w, k => (execS cfg (.unknown src) w, k)

def execLF (cfg : Cfg) : List Stmt → World → Option Nat → (World × Sig) × Option Nat
  | [], w, k => ((w, .next), k)
  | s :: rest, w, k =>
      match execSF cfg s w k with
      | ((w', .next), k') => execLF cfg rest w' k'
      | r => r
end

/-- `run` with a countdown -/
def runF (main inner : List Stmt) (cfg : Cfg) (fs : FS) (k : Option Nat) : (World × Sig) × Option Nat :=
  match execLF cfg main { fs := fs, output := cfg.output } k with
  | ((w, .next), k') => execLF cfg inner w k'
  | r => r

end Skops.Fs
