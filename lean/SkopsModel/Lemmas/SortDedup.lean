import SkopsModel.Io.Audit
/-! `sorted(set(xs))`: membership, strict sortedness, uniqueness of the representation. -/
namespace Skops.Io

abbrev Sorted (l : List String) : Prop := l.Pairwise (· < ·)

theorem mem_insertSorted (x y : String) (l : List String) : y ∈ insertSorted x l ↔ y = x ∨ y ∈ l := by
  induction l with
  | nil => simp [insertSorted]
  | cons z zs ih =>
    simp only [insertSorted]
    split
    · simp
    · split
      · rename_i _ heq
        subst heq
        simp only [List.mem_cons]
        constructor
        · intro h; exact Or.inr h
        · intro h; rcases h with h | h
          · exact Or.inl h
          · exact h
      · simp only [List.mem_cons, ih]
        constructor
        · rintro (h | h | h)
          · exact Or.inr (Or.inl h)
          · exact Or.inl h
          · exact Or.inr (Or.inr h)
        · rintro (h | h | h)
          · exact Or.inr (Or.inl h)
          · exact Or.inl h
          · exact Or.inr (Or.inr h)

theorem mem_sortDedup (y : String) (l : List String) : y ∈ sortDedup l ↔ y ∈ l := by
  induction l with
  | nil => simp [sortDedup]
  | cons x xs ih =>
    simp only [sortDedup, List.foldr_cons, mem_insertSorted, List.mem_cons] at ih ⊢
    rw [ih]

theorem sorted_insertSorted (x : String) (l : List String) (h : Sorted l) : Sorted (insertSorted x l) := by
  induction l with
  | nil => simp [insertSorted, Sorted]
  | cons z zs ih =>
    simp only [Sorted, List.pairwise_cons] at h
    simp only [insertSorted]
    split
    · rename_i hlt
      simp only [Sorted, List.pairwise_cons, List.mem_cons]
      refine ⟨?_, h⟩
      rintro a (rfl | ha)
      · exact hlt
      · exact String.lt_trans hlt (h.1 a ha)
    · split
      · simpa [Sorted] using h
      · rename_i hnlt hne
        simp only [Sorted, List.pairwise_cons]
        refine ⟨?_, ih h.2⟩
        intro a ha
        rw [mem_insertSorted] at ha
        rcases ha with rfl | ha
        · -- ¬ a < z and a ≠ z, hence z < a
          have hle : z ≤ a := String.not_lt.mp hnlt
          rcases String.le_total a z with h1 | _
          · exact absurd (String.le_antisymm h1 hle) hne
          · exact Decidable.byContradiction fun hc => hne (String.le_antisymm (String.not_lt.mp hc) hle)
        · exact h.1 a ha

theorem sorted_sortDedup (l : List String) : Sorted (sortDedup l) := by
  induction l with
  | nil => simp [sortDedup, Sorted]
  | cons x xs ih => exact sorted_insertSorted x _ ih

theorem sorted_nodup (l : List String) (h : Sorted l) : l.Nodup := by
  induction l with
  | nil => exact List.nodup_nil
  | cons x xs ih =>
    simp only [Sorted, List.pairwise_cons] at h
    exact List.nodup_cons.mpr ⟨fun hm => String.lt_irrefl x (h.1 x hm), ih h.2⟩

/-- a strictly sorted list is determined by its members -/
theorem sorted_ext (l1 l2 : List String) (h1 : Sorted l1) (h2 : Sorted l2) (h : ∀ x, x ∈ l1 ↔ x ∈ l2) : l1 = l2 := by
  induction l1 generalizing l2 with
  | nil =>
    cases l2 with
    | nil => rfl
    | cons b bs => exact absurd ((h b).mpr (by simp)) (by simp)
  | cons a as ih =>
    cases l2 with
    | nil => exact absurd ((h a).mp (by simp)) (by simp)
    | cons b bs =>
      simp only [Sorted, List.pairwise_cons] at h1 h2
      have hab : a = b := by
        have ha := (h a).mp (by simp)
        have hb := (h b).mpr (by simp)
        simp only [List.mem_cons] at ha hb
        rcases ha with ha | ha
        · exact ha
        · rcases hb with hb | hb
          · exact hb.symm
          · exact absurd (h1.1 b hb) (String.lt_asymm (h2.1 a ha))
      subst hab
      congr 1
      apply ih bs h1.2 h2.2
      intro x
      constructor
      · intro hx
        have := (h x).mp (List.mem_cons_of_mem _ hx)
        simp only [List.mem_cons] at this
        rcases this with rfl | this
        · exact absurd (h1.1 x hx) (String.lt_irrefl x)
        · exact this
      · intro hx
        have := (h x).mpr (List.mem_cons_of_mem _ hx)
        simp only [List.mem_cons] at this
        rcases this with rfl | this
        · exact absurd (h2.1 x hx) (String.lt_irrefl x)
        · exact this

end Skops.Io
