import SkopsModel.Io.GetTree
import SkopsModel.Io.Obligations
import SkopsModel.Lemmas.IoAudit
/-!
# The memo invariant of `getTree`

Every tree that `getTree` returns (for any JSON, any fuel, any starting memo that satisfies the invariant) has no
`CachedNode` reference to a finished node (`NoTo`) and hands down only names from the table's default lists
(`ExtrasIn allDefaults`).  Consequently the hypotheses `RefsAudited` and `ExtrasIn` of the C01 theorems hold for
every archive, and C01 becomes a statement about `load` applied to arbitrary JSON.
-/
namespace Skops.Io

/-- kinds that look their node up in the memo (`CachedNode`) do not memoize themselves and build no children -/
def Table.RefKindsInert (t : Table) : Bool :=
  t.kinds.all fun k => !k.memoRef || (!k.memoize && k.variants.all (fun v => v.slots.isEmpty))

mutual
/-- no reference to a node: `CachedNode.cached` is absent (`no`), `None` (`missing`) or an ancestor under construction -/
def Node.NoTo : Node → Prop
  | .backref _ => True
  | .mk _ _ _ _ _ kids ref => (ref = .no ∨ ref = .missing) ∧ kids.NoTo
def Kids.NoTo : Kids → Prop
  | .nil => True
  | .node _ _ _ n rest => n.NoTo ∧ rest.NoTo
  | .raw _ _ rest => rest.NoTo
  | .absent _ rest => rest.NoTo
  | .blob _ _ rest => rest.NoTo
  | .synth _ _ _ _ _ rest => rest.NoTo
end

mutual
theorem node_refsAudited_of_noTo (tbl : Table) (T : List String) : ∀ n : Node, n.NoTo → n.RefsAudited tbl T
  | .backref _, _ => trivial
  | .mk _ _ _ _ _ kids ref, h => by
    obtain ⟨hr, hk⟩ := h
    refine ⟨?_, kids_refsAudited_of_noTo tbl T kids hk⟩
    rcases hr with rfl | rfl <;> trivial
theorem kids_refsAudited_of_noTo (tbl : Table) (T : List String) : ∀ ks : Kids, ks.NoTo → ks.RefsAudited tbl T
  | .nil, _ => trivial
  | .node _ _ _ n rest, h => ⟨node_refsAudited_of_noTo tbl T n h.1, kids_refsAudited_of_noTo tbl T rest h.2⟩
  | .raw _ _ rest, h => kids_refsAudited_of_noTo tbl T rest h
  | .absent _ rest, h => kids_refsAudited_of_noTo tbl T rest h
  | .blob _ _ rest, h => kids_refsAudited_of_noTo tbl T rest h
  | .synth _ _ _ _ _ rest, h => kids_refsAudited_of_noTo tbl T rest h
end

/-! ## memo lemmas -/

theorem memoGet_memoSet (m : List (PyKey × MemoEntry)) (k k' : PyKey) (e : MemoEntry) :
    memoGet (memoSet m k e) k' = if k' = k then some e else memoGet m k' := by
  induction m with
  | nil =>
    simp only [memoSet, memoGet]
    by_cases h : k = k'
    · subst h; simp
    · have : ¬ k' = k := fun h' => h h'.symm
      simp [h, this]
  | cons p rest ih =>
    obtain ⟨k0, e0⟩ := p
    simp only [memoSet]
    by_cases h0 : k0 = k
    · subst h0
      simp only [if_true, memoGet]
      by_cases h1 : k0 = k'
      · subst h1; simp
      · have : ¬ k' = k0 := fun h' => h1 h'.symm
        simp [h1, this]
    · simp only [h0, if_false, memoGet]
      by_cases h1 : k0 = k'
      · subst h1
        have : ¬ k0 = k := h0
        simp [this]
      · simp only [h1, if_false]
        exact ih

/-- what the invariant says about the memo: finished nodes are good -/
def MemoGood (X : List String) (st : LoadSt) : Prop :=
  ∀ k n, memoGet st.memo k = some (.done n) → n.NoTo ∧ n.ExtrasIn X

theorem memoGood_set_inProgress (X : List String) (st : LoadSt) (k : PyKey) (nid : Nat) (m c : NameVal) (nx : Nat)
    (h : MemoGood X st) : MemoGood X { memo := memoSet st.memo k (.inProgress nid m c), next := nx } := by
  intro k' n hk
  simp only [memoGet_memoSet] at hk
  by_cases he : k' = k
  · simp [he] at hk
  · simp only [he, if_false] at hk
    exact h k' n hk

theorem memoGood_set_done (X : List String) (st : LoadSt) (k : PyKey) (node : Node) (nx : Nat)
    (h : MemoGood X st) (hn : node.NoTo ∧ node.ExtrasIn X) :
    MemoGood X { memo := memoSet st.memo k (.done node), next := nx } := by
  intro k' n hk
  simp only [memoGet_memoSet] at hk
  by_cases he : k' = k
  · simp only [he, if_true, Option.some.injEq, MemoEntry.done.injEq] at hk
    subst hk
    exact hn
  · simp only [he, if_false] at hk
    exact h k' n hk

theorem memoGood_next (X : List String) (st : LoadSt) (nx : Nat) (h : MemoGood X st) :
    MemoGood X { st with next := nx } := h

set_option linter.unusedSimpArgs false


def SlotsOK (X : List String) (slots : List Slot) : Prop := ∀ s ∈ slots, ∀ x ∈ s.childExtra, x ∈ X

def KindOK (X : List String) (k : KindSpec) : Prop :=
  (∀ v ∈ k.variants, SlotsOK X v.slots) ∧ (k.memoRef = true → k.memoize = false ∧ ∀ v ∈ k.variants, v.slots = [])

def Good (X : List String) (n : Node) : Prop := n.NoTo ∧ n.ExtrasIn X
def GoodK (X : List String) (ks : Kids) : Prop := ks.NoTo ∧ ks.ExtrasIn X

variable (env : Env) (X : List String)

def PGet (fuel : Nat) : Prop := ∀ state extra st n st', getTree env fuel state extra st = .ok (n, st') →
  (∀ x ∈ extra, x ∈ X) → MemoGood X st → Good X n ∧ MemoGood X st'

def PNode (fuel : Nat) : Prop := ∀ ki k state extra idv st n st',
  buildNode env fuel ki k state extra idv st = .ok (n, st') → KindOK X k → memoGet st.memo idv.pyKey = none →
  (∀ x ∈ extra, x ∈ X) → MemoGood X st → Good X n ∧ MemoGood X st'

def PSlots (fuel : Nat) : Prop := ∀ state extra slots st kids st',
  buildSlots env fuel state extra slots st = .ok (kids, st') → SlotsOK X slots →
  (∀ x ∈ extra, x ∈ X) → MemoGood X st → GoodK X kids ∧ MemoGood X st'

def PElems (fuel : Nat) : Prop := ∀ items extra slot grp st mk st',
  buildElems env fuel items extra slot grp st = .ok (mk, st') →
  (∀ x ∈ extra, x ∈ X) → MemoGood X st → (∀ tail, GoodK X tail → GoodK X (mk tail)) ∧ MemoGood X st'

/-- every kind the lookup can return is a kind of the table -/
theorem find_go_mem' (loader : String) (proto : Nat) :
    ∀ (ks : List KindSpec) (i : Nat) (r : Nat × KindSpec), Table.find?.go loader proto i ks = some r → r.2 ∈ ks
  | [], _, _, h => by simp [Table.find?.go] at h
  | k :: ks, i, r, h => by
    simp only [Table.find?.go] at h
    split at h
    · simp only [Option.some.injEq] at h; subst h; simp
    · exact List.mem_cons_of_mem _ (find_go_mem' loader proto ks (i + 1) r h)

theorem lookupKind_mem (loader : String) (ki : Nat) (k : KindSpec) (h : lookupKind env loader = some (ki, k)) :
    k ∈ env.tbl.kinds := by
  unfold lookupKind at h
  simp only at h
  split at h
  · rename_i r hr
    cases h
    split at hr
    · split at hr
      · cases hr
      · exact find_go_mem' _ _ _ 0 _ (by simpa [Table.find?] using hr)
    · cases hr
  · exact find_go_mem' _ _ _ 0 _ (by simpa [Table.find?] using h)

theorem pget_of_pnode (fuel : Nat) (hk : ∀ k ∈ env.tbl.kinds, KindOK X k) (hn : PNode env X fuel) : PGet env X (fuel + 1) := by
  intro state extra st n st' h hex hm
  cases state with
  | obj kvs =>
    simp only [getTree] at h
    split at h
    · cases h
    · split at h
      · -- in progress: a back reference
        cases h
        exact ⟨⟨trivial, trivial⟩, hm⟩
      · rename_i nd hnd
        cases h
        exact ⟨hm _ _ hnd, hm⟩
      · rename_i hnone
        split at h
        · cases h
        · rename_i loader hl
          split at h
          · cases h
          · rename_i ki k hlk
            exact hn ki k _ extra _ st n st' h (hk k (lookupKind_mem env loader ki k hlk)) hnone hex hm
        · cases h
  | _ => simp [getTree] at h

theorem pelems_of_pget (fuel : Nat) (hg : PGet env X fuel) : PElems env X fuel := by
  intro items
  induction items with
  | nil =>
    intro extra slot grp st mk st' h hex hm
    simp only [buildElems, Except.ok.injEq, Prod.mk.injEq] at h
    obtain ⟨rfl, rfl⟩ := h
    exact ⟨fun tail ht => ht, hm⟩
  | cons it rest ih =>
    intro extra slot grp st mk st' h hex hm
    obtain ⟨label, v⟩ := it
    simp only [buildElems] at h
    split at h
    · cases h
    · rename_i n st1 hgt
      split at h
      · cases h
      · rename_i mk2 st2 hbe
        simp only [Except.ok.injEq, Prod.mk.injEq] at h
        obtain ⟨rfl, rfl⟩ := h
        obtain ⟨hgn, hm1⟩ := hg v extra st n st1 hgt hex hm
        obtain ⟨hmk, hm2⟩ := ih extra slot grp st1 mk2 st2 hbe hex hm1
        refine ⟨?_, hm2⟩
        intro tail ht
        have := hmk tail ht
        exact ⟨⟨hgn.1, this.1⟩, ⟨hgn.2, this.2⟩⟩

theorem pslots (fuel : Nat) (hg : ∀ f, fuel = f + 1 → PGet env X f) (he : ∀ f, fuel = f + 1 → PElems env X f) :
    PSlots env X fuel := by
  intro state extra slots
  induction slots with
  | nil =>
    intro st kids st' h _ _ hm
    simp only [buildSlots, Except.ok.injEq, Prod.mk.injEq] at h
    obtain ⟨rfl, rfl⟩ := h
    exact ⟨⟨trivial, trivial⟩, hm⟩
  | cons s ss ih =>
    intro st kids st' h hso hex hm
    have hss : SlotsOK X ss := fun s' hs' => hso s' (List.mem_cons_of_mem _ hs')
    have hsx : ∀ x ∈ extra ++ s.childExtra, x ∈ X := by
      intro x hx
      rcases List.mem_append.mp hx with h1 | h1
      · exact hex x h1
      · exact hso s List.mem_cons_self x h1
    simp only [buildSlots] at h
    split at h
    · -- synthetic TypeNode child
      split at h
      · rename_i m c _
        split at h
        · rename_i rest st2 hb
          simp only [Except.ok.injEq, Prod.mk.injEq] at h
          obtain ⟨rfl, rfl⟩ := h
          obtain ⟨hr, hm2⟩ := ih _ rest st2 hb hss hex (memoGood_next X st _ hm)
          exact ⟨⟨hr.1, ⟨hsx, hr.2⟩⟩, hm2⟩
        · cases h
      · cases h
    · split at h
      · cases h
      · rename_i v _
        split at h
        · -- node
          split at h
          · split at h
            · rename_i rest st2 hb
              simp only [Except.ok.injEq, Prod.mk.injEq] at h
              obtain ⟨rfl, rfl⟩ := h
              obtain ⟨hr, hm2⟩ := ih _ rest st2 hb hss hex hm
              exact ⟨⟨hr.1, hr.2⟩, hm2⟩
            · cases h
          · cases fuel with
            | zero => simp at h
            | succ f =>
              simp only at h
              split at h
              · cases h
              · rename_i n st1 hgt
                split at h
                · rename_i rest st2 hb
                  simp only [Except.ok.injEq, Prod.mk.injEq] at h
                  obtain ⟨rfl, rfl⟩ := h
                  obtain ⟨hgn, hm1⟩ := hg f rfl v _ st n st1 hgt hsx hm
                  obtain ⟨hr, hm2⟩ := ih _ rest st2 hb hss hex hm1
                  exact ⟨⟨⟨hgn.1, hr.1⟩, ⟨hgn.2, hr.2⟩⟩, hm2⟩
                · cases h
        · -- list of nodes
          split at h
          · cases h
          · rename_i items _
            cases fuel with
            | zero => simp at h
            | succ f =>
              simp only at h
              split at h
              · cases h
              · rename_i mk st1 hbe
                split at h
                · rename_i rest st2 hb
                  simp only [Except.ok.injEq, Prod.mk.injEq] at h
                  obtain ⟨rfl, rfl⟩ := h
                  obtain ⟨hmk, hm1⟩ := he f rfl _ _ _ _ st mk st1 hbe hsx hm
                  obtain ⟨hr, hm2⟩ := ih _ rest st2 hb hss hex hm1
                  exact ⟨hmk rest hr, hm2⟩
                · cases h
        · -- dict of nodes
          split at h
          · rename_i kvs
            cases fuel with
            | zero => simp at h
            | succ f =>
              simp only at h
              split at h
              · cases h
              · rename_i mk st1 hbe
                split at h
                · rename_i rest st2 hb
                  simp only [Except.ok.injEq, Prod.mk.injEq] at h
                  obtain ⟨rfl, rfl⟩ := h
                  obtain ⟨hmk, hm1⟩ := he f rfl _ _ _ _ st mk st1 hbe hsx hm
                  obtain ⟨hr, hm2⟩ := ih _ rest st2 hb hss hex hm1
                  exact ⟨hmk rest hr, hm2⟩
                · cases h
          · cases h
        · -- raw
          split at h
          · rename_i rest st2 hb
            simp only [Except.ok.injEq, Prod.mk.injEq] at h
            obtain ⟨rfl, rfl⟩ := h
            obtain ⟨hr, hm2⟩ := ih _ rest st2 hb hss hex hm
            exact ⟨⟨hr.1, hr.2⟩, hm2⟩
          · cases h
        · -- blob
          split at h
          · split at h
            · split at h
              · rename_i rest st2 hb
                simp only [Except.ok.injEq, Prod.mk.injEq] at h
                obtain ⟨rfl, rfl⟩ := h
                obtain ⟨hr, hm2⟩ := ih _ rest st2 hb hss hex hm
                exact ⟨⟨hr.1, hr.2⟩, hm2⟩
              · cases h
            · cases h
          · cases h
        · cases h

theorem pickVariant_go_mem (state : J) (k : KindSpec) :
    ∀ (vs : List Variant) (slots : List Slot), pickVariant.go state k vs = .ok slots →
      slots = [] ∨ ∃ v ∈ vs, slots = v.slots
  | [], slots, h => by
    simp only [pickVariant.go] at h
    split at h
    · cases h
    · simp only [Except.ok.injEq] at h; exact Or.inl h.symm
  | v :: vs, slots, h => by
    simp only [pickVariant.go] at h
    split at h
    · simp only [Except.ok.injEq] at h
      exact Or.inr ⟨v, List.mem_cons_self, h.symm⟩
    · split at h
      · cases h
      · split at h
        · simp only [Except.ok.injEq] at h
          exact Or.inr ⟨v, List.mem_cons_self, h.symm⟩
        · rcases pickVariant_go_mem state k vs slots h with h1 | ⟨w, hw, h2⟩
          · exact Or.inl h1
          · exact Or.inr ⟨w, List.mem_cons_of_mem _ hw, h2⟩
      · rcases pickVariant_go_mem state k vs slots h with h1 | ⟨w, hw, h2⟩
        · exact Or.inl h1
        · exact Or.inr ⟨w, List.mem_cons_of_mem _ hw, h2⟩

theorem pnode_of_pslots (fuel : Nat) (hs : PSlots env X fuel) : PNode env X fuel := by
  intro ki k state extra idv st n st' h hk hnone hex hm
  simp only [buildNode] at h
  split at h
  · cases h
  · split at h
    · rename_i cj mj _ _
      split at h
      · cases h
      · split at h
        · cases h
        · rename_i slots hpv
          have hslots : slots = [] ∨ ∃ v ∈ k.variants, slots = v.slots := by
            unfold pickVariant at hpv
            exact pickVariant_go_mem state k k.variants slots hpv
          have hso : SlotsOK X slots := by
            rcases hslots with rfl | ⟨v, hv, rfl⟩
            · intro s hs; cases hs
            · exact hk.1 v hv
          split at h
          · cases h
          · rename_i kids st2 hb
            -- the memo after `Node.__init__` registered the node as under construction
            generalize hst1 : (LoadSt.mk (if (idv.truthy && k.memoize) = true then
              memoSet st.memo idv.pyKey (MemoEntry.inProgress st.next (nameOfJ mj) (nameOfJ cj)) else st.memo) (st.next + 1)) = st1 at hb
            have hm1 : MemoGood X st1 := by
              rw [← hst1]
              by_cases hmz : (idv.truthy && k.memoize) = true
              · simp only [hmz, if_true]
                exact memoGood_set_inProgress X st _ _ _ _ _ hm
              · simp only [hmz, if_false]
                exact hm
            obtain ⟨hkids, hm2⟩ := hs state extra slots _ kids st2 hb hso hex hm1
            -- the `cached` field of a CachedNode
            generalize hrf : (if k.memoRef = true then
                  (match memoGet st2.memo idv.pyKey with
                  | some (MemoEntry.done n) => Ref.to n
                  | some (MemoEntry.inProgress rid mod cls) => Ref.to (Node.backref rid)
                  | none => Ref.missing)
                else Ref.no) = rf at h
            have href : rf = Ref.no ∨ rf = Ref.missing := by
              rw [← hrf]
              by_cases hmr : k.memoRef = true
              · right
                obtain ⟨hmz, hall⟩ := hk.2 hmr
                have hnil : slots = [] := by
                  rcases hslots with h0 | ⟨v, hv, h0⟩
                  · exact h0
                  · rw [h0]; exact hall v hv
                subst hnil
                simp only [buildSlots, Except.ok.injEq, Prod.mk.injEq] at hb
                obtain ⟨_, rfl⟩ := hb
                rw [← hst1]
                simp [hmr, hmz, hnone]
              · left
                simp [hmr]
            split at h
            · rename_i modF clsF _ _
              simp only [Except.ok.injEq, Prod.mk.injEq] at h
              obtain ⟨rfl, rfl⟩ := h
              have hgood : Good X (Node.mk st.next ki modF clsF extra kids rf) := by
                refine ⟨⟨href, hkids.1⟩, ⟨hex, hkids.2, ?_⟩⟩
                rcases href with h0 | h0 <;> rw [h0] <;> trivial
              refine ⟨hgood, ?_⟩
              by_cases hmz : (idv.truthy && k.memoize) = true
              · simp only [hmz, if_true]
                exact memoGood_set_done X st2 _ _ _ hm2 hgood
              · simp only [hmz, if_false]
                exact hm2
            · cases h
    · cases h

/-- the four invariants hold for every amount of fuel -/
theorem invariants (hk : ∀ k ∈ env.tbl.kinds, KindOK X k) :
    ∀ fuel, PGet env X fuel ∧ PNode env X fuel ∧ PSlots env X fuel ∧ PElems env X fuel := by
  intro fuel
  induction fuel using Nat.strongRecOn with
  | _ fuel ih =>
    have hg : PGet env X fuel := by
      cases fuel with
      | zero => intro state extra st n st' h; simp [getTree] at h
      | succ f => exact pget_of_pnode env X f hk (ih f (Nat.lt_succ_self f)).2.1
    have hsl : PSlots env X fuel :=
      pslots env X fuel (fun f hf => (ih f (by omega)).1) (fun f hf => (ih f (by omega)).2.2.2)
    exact ⟨hg, pnode_of_pslots env X fuel hsl, hsl, pelems_of_pget env X fuel hg⟩

theorem kindOK_of_table (tbl : Table) (hr : tbl.RefKindsInert = true) : ∀ k ∈ tbl.kinds, KindOK tbl.allDefaults k := by
  intro k hk
  constructor
  · intro v hv s hs x hx
    simp only [Table.allDefaults, List.mem_flatten, List.mem_map]
    refine ⟨_, ⟨k, hk, rfl⟩, List.mem_append_right _ ?_⟩
    simp only [List.mem_flatten, List.mem_map]
    exact ⟨_, ⟨v, hv, rfl⟩, List.mem_flatten.mpr ⟨_, List.mem_map.mpr ⟨s, hs, rfl⟩, hx⟩⟩
  · intro hmr
    simp only [Table.RefKindsInert, List.all_eq_true] at hr
    have := hr k hk
    simp only [hmr, Bool.not_true, Bool.false_or, Bool.and_eq_true, Bool.not_eq_true', List.all_eq_true,
      List.isEmpty_iff] at this
    exact ⟨this.1, this.2⟩

/-- **the memo invariant of `get_tree`**: for every JSON value, member list and fuel, the tree that is built has
no reference to a finished node and hands down only default names of the table -/
theorem getTreeRoot_good (tbl : Table) (hr : tbl.RefKindsInert = true) (schema : J) (members : List String)
    (fuel : Nat) (root : Node) (h : getTreeRoot tbl schema members fuel = .ok root) :
    root.NoTo ∧ root.ExtrasIn tbl.allDefaults := by
  unfold getTreeRoot at h
  split at h
  · cases h
  · rename_i p _
    split at h
    · cases h
    · split at h
      · rename_i n st' hgt
        simp only [Except.ok.injEq] at h
        subst h
        have hinv := (invariants { tbl := tbl, proto := p.pyKey, members := members } tbl.allDefaults
          (kindOK_of_table tbl hr) fuel).1
        exact (hinv schema [] {} n st' hgt (by intro x hx; cases hx) (by intro k n hk; simp [memoGet] at hk)).1
      · cases h

end Skops.Io
