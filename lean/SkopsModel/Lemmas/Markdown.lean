import SkopsModel.Markup.Markdown
/-! `_indent_trace` is restored by every conversion, whether it succeeds or raises. -/
namespace Skops.Markup

mutual
theorem conv_st : ∀ (x : Item) (st : St), (conv x st).2 = st
  | .raw _, _ => rfl
  | .space, _ => rfl
  | .softBreak, _ => rfl
  | .lineBreak, _ => rfl
  | .str _, _ => rfl
  | .plain xs, st => by simpa [conv] using convJoin_st xs st
  | .para xs, st => by simpa [conv] using convJoin_st xs st
  | .strong xs, st => by
      have := convJoin_st xs st
      simp only [conv]; split <;> simp_all
  | .emph xs, st => by
      have := convJoin_st xs st
      simp only [conv]; split <;> simp_all
  | .strikeout xs, st => by
      have := convJoin_st xs st
      simp only [conv]; split <;> simp_all
  | .rawInline _, _ => rfl
  | .rawBlock _, _ => rfl
  | .header _ xs, st => by simpa [conv] using convJoin_st xs st
  | .image caption dest typef, st => by
      have := convJoin_st caption st
      simp only [conv]
      split
      · rfl
      · split
        · rfl
        · split <;> simp_all
  | .codeBlock _ _, _ => rfl
  | .code _, _ => rfl
  | .table cols rows, st => by
      have h1 := convList_st cols st
      simp only [conv]
      split
      · simp_all
      · rename_i cs st' heq
        have : st' = st := by rw [heq] at h1; exact h1
        subst this
        have h2 := convRows_st rows st'
        split <;> simp_all
  | .div ident classes kvs contents, st => by
      have := convDivBody_st contents st
      simp only [conv]; split <;> simp_all
  | .link txt src, st => by
      have := convJoin_st txt st
      simp only [conv]; split <;> simp_all
  | .bulletList items, st => by
      have := convListItems_st items none (st ++ [2])
      simp only [conv]; split <;> simp_all
  | .orderedList start items, st => by
      have := convListItems_st items (some start) (st ++ [3])
      simp only [conv]; split <;> simp_all
  | .quoted kind content, st => by
      have := convJoin_st content st
      simp only [conv]
      split
      · split <;> simp_all
      · split
        · split <;> simp_all
        · rfl
  | .blockQuote items, st => by
      have := convList_st items st
      simp only [conv]; split <;> simp_all
  | .other _, _ => rfl

theorem convJoin_st : ∀ (xs : Items) (st : St), (convJoin xs st).2 = st
  | .nil, _ => rfl
  | .cons x xs, st => by
      have h1 := conv_st x st
      simp only [convJoin]
      split
      · simp_all
      · rename_i a st1 heq
        have : st1 = st := by rw [heq] at h1; exact h1
        subst this
        have h2 := convJoin_st xs st1
        split <;> simp_all

theorem convList_st : ∀ (xs : Items) (st : St), (convList xs st).2 = st
  | .nil, _ => rfl
  | .cons x xs, st => by
      have h1 := conv_st x st
      simp only [convList]
      split
      · simp_all
      · rename_i a st1 heq
        have : st1 = st := by rw [heq] at h1; exact h1
        subst this
        have h2 := convList_st xs st1
        split <;> simp_all

theorem convRows_st : ∀ (rs : ItemsList) (st : St), (convRows rs st).2 = st
  | .nil, _ => rfl
  | .cons r rs, st => by
      have h1 := convList_st r st
      simp only [convRows]
      split
      · simp_all
      · rename_i a st1 heq
        have : st1 = st := by rw [heq] at h1; exact h1
        subst this
        have h2 := convRows_st rs st1
        split <;> simp_all

theorem convDivBody_st : ∀ (xs : Items) (st : St), (convDivBody xs st).2 = st
  | .nil, _ => rfl
  | .cons x xs, st => by
      have h1 := conv_st x (st ++ [2])
      simp only [convDivBody]
      split
      · rename_i e st1 heq
        have : st1 = st ++ [2] := by rw [heq] at h1; exact h1
        subst this; simp
      · rename_i a st1 heq
        have : st1 = st ++ [2] := by rw [heq] at h1; exact h1
        subst this
        have h2 := convDivBody_st xs st
        simp only [List.dropLast_concat]
        split <;> simp_all

theorem convListItems_st : ∀ (its : ItemsList) (idx : Option Nat) (st : St), (convListItems its idx st).2 = st
  | .nil, _, _ => rfl
  | .cons it its, idx, st => by
      have h1 := convList_st it st
      simp only [convListItems]
      split
      · simp_all
      · rename_i a st1 heq
        have : st1 = st := by rw [heq] at h1; exact h1
        subst this
        have h2 := convListItems_st its (idx.map (· + 1)) st1
        split <;> simp_all
end

end Skops.Markup
