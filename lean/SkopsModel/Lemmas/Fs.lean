import SkopsModel.Fs.Prog
/-! Helper lemmas about the file-system model: reads after `put`/`del`/filter, frames of operations, and the
closed form of "create a file and write it in chunks". -/
namespace Skops.Fs

theorem read_cons (p q : RPath) (b : Bytes) (rest : List (RPath × Bytes)) (dirs : List RPath) :
    (FS.mk dirs ((p, b) :: rest)).read q = if p == q then some b else (FS.mk dirs rest).read q := by
  unfold FS.read
  simp only [List.find?_cons]
  by_cases h : p == q <;> simp [h]

theorem read_filter (dirs : List RPath) (files : List (RPath × Bytes)) (P : RPath → Bool) (q : RPath) :
    (FS.mk dirs (files.filter (fun e => P e.1))).read q = if P q then (FS.mk dirs files).read q else none := by
  induction files with
  | nil => simp [FS.read]
  | cons e rest ih =>
    obtain ⟨p, b⟩ := e
    by_cases hp : P p
    · simp only [List.filter_cons, hp, if_true]
      rw [read_cons, read_cons, ih]
      by_cases hpq : p == q
      · have : p = q := by simpa using hpq
        subst this
        simp [hp]
      · simp [hpq]
    · simp only [List.filter_cons, hp, Bool.false_eq_true, if_false]
      rw [read_cons, ih]
      by_cases hpq : p == q
      · have : p = q := by simpa using hpq
        subst this
        simp [hp]
      · simp [hpq]

@[simp] theorem read_put_same (fs : FS) (p : RPath) (b : Bytes) : (fs.put p b).read p = some b := by
  unfold FS.put
  rw [read_cons]
  simp

theorem read_put_other (fs : FS) (p q : RPath) (b : Bytes) (h : p ≠ q) : (fs.put p b).read q = fs.read q := by
  unfold FS.put
  rw [read_cons]
  have h1 : (p == q) = false := by simpa using h
  rw [h1]
  simp only [Bool.false_eq_true, if_false]
  rw [read_filter fs.dirs fs.files (fun r => !(r == p)) q]
  have h2 : (q == p) = false := by simpa using (Ne.symm h)
  simp [h2]

theorem read_del_other (fs : FS) (p q : RPath) (h : p ≠ q) : (fs.del p).read q = fs.read q := by
  unfold FS.del
  rw [read_filter fs.dirs fs.files (fun r => !(r == p)) q]
  have h2 : (q == p) = false := by simpa using (Ne.symm h)
  simp [h2]

@[simp] theorem read_del_same (fs : FS) (p : RPath) : (fs.del p).read p = none := by
  unfold FS.del
  rw [read_filter fs.dirs fs.files (fun r => !(r == p)) p]
  simp

@[simp] theorem dirs_put (fs : FS) (p : RPath) (b : Bytes) : (fs.put p b).dirs = fs.dirs := rfl
@[simp] theorem dirs_del (fs : FS) (p : RPath) : (fs.del p).dirs = fs.dirs := rfl
@[simp] theorem isDir_put (fs : FS) (p d : RPath) (b : Bytes) : (fs.put p b).isDir d = fs.isDir d := rfl
@[simp] theorem isDir_del (fs : FS) (p d : RPath) : (fs.del p).isDir d = fs.isDir d := rfl

theorem put_put (fs : FS) (p : RPath) (a b : Bytes) : (fs.put p a).put p b = fs.put p b := by
  unfold FS.put
  simp [List.filter_filter]

/-- frame: an operation that does not touch `q` leaves what `q` reads unchanged -/
theorem step_read_untouched (fs fs' : FS) (op : Op) (q : RPath) (h : step fs op = .ok fs')
    (hq : op.touches q = false) : fs'.read q = fs.read q := by
  cases op with
  | mkdir d =>
    simp only [step] at h
    split at h
    · cases h
    · split at h
      · cases h
      · cases h; rfl
  | create p =>
    simp only [step] at h
    split at h
    · cases h
    · split at h
      · cases h
      · cases h
        have : p ≠ q := by simpa [Op.touches] using hq
        exact read_put_other fs p q [] this
  | append p b =>
    simp only [step] at h
    split at h
    · cases h
      have : p ≠ q := by simpa [Op.touches] using hq
      exact read_put_other fs p q _ this
    · cases h
  | replace s d =>
    simp only [step] at h
    split at h
    · cases h
    · split at h
      · cases h
      · split at h
        · cases h
        · cases h
          have hh : s ≠ q ∧ d ≠ q := by simpa [Op.touches] using hq
          rw [read_put_other _ d q _ hh.2, read_del_other fs s q hh.1]
  | unlink p =>
    simp only [step] at h
    split at h
    · cases h
      have : p ≠ q := by simpa [Op.touches] using hq
      exact read_del_other fs p q this
    · cases h
  | rmtree d =>
    simp only [step] at h
    cases h
    have : under d q = false := by simpa [Op.touches] using hq
    show (FS.mk fs.dirs (fs.files.filter (fun e => !under d e.1))).read q = fs.read q
    rw [read_filter fs.dirs fs.files (fun r => !under d r) q]
    simp [this]

theorem applyAll_untouched (ops : List Op) (fs : FS) (q : RPath) (h : ∀ op ∈ ops, op.touches q = false) :
    (applyAll fs ops).read q = fs.read q := by
  induction ops generalizing fs with
  | nil => rfl
  | cons op rest ih =>
    simp only [applyAll]
    have hrest : ∀ o ∈ rest, o.touches q = false := fun o ho => h o (List.mem_cons_of_mem _ ho)
    cases hs : step fs op with
    | ok fs' =>
      simp only
      rw [ih fs' hrest]
      exact step_read_untouched fs fs' op q hs (h op List.mem_cons_self)
    | error e =>
      simp only
      exact ih fs hrest

theorem applyAll_append (a b : List Op) (fs : FS) : applyAll fs (a ++ b) = applyAll (applyAll fs a) b := by
  induction a generalizing fs with
  | nil => rfl
  | cons op rest ih =>
    simp only [List.cons_append, applyAll]
    cases step fs op <;> simp [ih]

theorem doOps_append (a b : List Op) (w : World) :
    doOps w (a ++ b) = match doOps w a with
      | (w', .next) => doOps w' b
      | r => r := by
  induction a generalizing w with
  | nil => simp [doOps]
  | cons op rest ih =>
    simp only [List.cons_append, doOps]
    cases step w.fs op with
    | ok fs' => simp only; rw [ih]
    | error e => simp

/-- a run of `doOps` that went through is the same as replaying its operations -/
theorem doOps_applyAll (ops : List Op) (w w' : World) (h : doOps w ops = (w', .next)) :
    applyAll w.fs ops = w'.fs ∧ w'.trace = w.trace ++ ops := by
  induction ops generalizing w with
  | nil => simp [doOps] at h; subst h; simp [applyAll]
  | cons op rest ih =>
    simp only [doOps] at h
    cases hs : step w.fs op with
    | ok fs' =>
      rw [hs] at h
      simp only at h
      have := ih _ h
      simp only [applyAll, hs]
      refine ⟨this.1, ?_⟩
      rw [this.2]
      simp
    | error e =>
      rw [hs] at h
      simp at h

/-- appending chunks to a file that has just been written -/
theorem doOps_appends (chunks : List Bytes) (w : World) (fs0 : FS) (p : RPath) (c : Bytes) (h : w.fs = fs0.put p c) :
    doOps w (chunks.map (.append p)) =
      ({ w with fs := fs0.put p (c ++ chunks.flatten), trace := w.trace ++ chunks.map (.append p) }, .next) := by
  induction chunks generalizing w c with
  | nil =>
    simp only [List.map_nil, doOps, List.flatten_nil, List.append_nil]
    rw [← h]
  | cons b rest ih =>
    simp only [List.map_cons, doOps, step]
    have hr : w.fs.read p = some c := by rw [h]; simp
    rw [hr]
    simp only
    have h2 : w.fs.put p (c ++ b) = fs0.put p (c ++ b) := by rw [h, put_put]
    rw [ih { w with fs := w.fs.put p (c ++ b), trace := w.trace ++ [Op.append p b] } (c ++ b) h2]
    simp [List.append_assoc]

/-- `open(p, "wb")` followed by writes, in a directory that exists -/
theorem doOps_writeOps (chunks : List Bytes) (w : World) (p : RPath)
    (hpar : w.fs.isDir p.dropLast = true) (hnd : w.fs.isDir p = false) :
    doOps w (writeOps p chunks) =
      ({ w with fs := w.fs.put p chunks.flatten, trace := w.trace ++ writeOps p chunks }, .next) := by
  unfold writeOps
  simp only [doOps, step, hpar, hnd]
  simp only [Bool.not_true, Bool.false_eq_true, if_false]
  rw [doOps_appends chunks _ w.fs p [] rfl]
  simp

/-- ... and in a directory that does not exist nothing happens at all -/
theorem doOps_writeOps_enoent (chunks : List Bytes) (w : World) (p : RPath) (hpar : w.fs.isDir p.dropLast = false) :
    doOps w (writeOps p chunks) = (w, .raised "OSError") := by
  unfold writeOps
  simp [doOps, step, hpar]

/-! ## `PurePath.stem` as modelled by `stem`: what the default output name of `skops convert` is built from -/

theorem takeWhile_rev_ext (b e : List Char) (he : ∀ c ∈ e, c ≠ '.') :
    ((b ++ '.' :: e).reverse.takeWhile (· ≠ '.')) = e.reverse := by
  simp only [List.reverse_append, List.reverse_cons, List.append_assoc, List.singleton_append]
  rw [List.takeWhile_append_of_pos]
  · simp [List.takeWhile]
  · intro c hc; simpa using he c (by simpa using hc)

theorem stem_base_ext (b e : List Char) (hb : b ≠ []) (hne : e ≠ []) (he : ∀ c ∈ e, c ≠ '.') :
    stem (String.ofList (b ++ '.' :: e)) = String.ofList b := by
  unfold stem
  simp only [String.toList_ofList, takeWhile_rev_ext b e he, List.length_reverse, List.length_append, List.length_cons]
  have hb' : 0 < b.length := List.length_pos_iff.mpr hb
  have he' : 0 < e.length := List.length_pos_iff.mpr hne
  have h1 : ¬ (e.length == b.length + (e.length + 1)) = true := by simp; omega
  simp only [h1]
  have h2 : b.length + (e.length + 1) - e.length - 1 = b.length := by omega
  simp only [h2]
  have h3 : 0 < b.length ∧ b.length < b.length + (e.length + 1) - 1 := by omega
  simp [h3, hne]

theorem takeWhile_all {α} (p : α → Bool) : ∀ l : List α, (∀ x ∈ l, p x = true) → l.takeWhile p = l
  | [], _ => rfl
  | x :: xs, h => by
    simp only [List.takeWhile, h x (by simp)]
    rw [takeWhile_all p xs (fun y hy => h y (by simp [hy]))]

theorem stem_no_dot (name : String) (h : ∀ c ∈ name.toList, c ≠ '.') : stem name = name := by
  unfold stem
  have : name.toList.reverse.takeWhile (· ≠ '.') = name.toList.reverse := by
    apply takeWhile_all
    intro c hc; simpa using h c (by simpa using hc)
  simp only [this, List.length_reverse, beq_self_eq_true, if_true]

theorem stem_leading_dot (e : List Char) (he : ∀ c ∈ e, c ≠ '.') :
    stem (String.ofList ('.' :: e)) = String.ofList ('.' :: e) := by
  unfold stem
  have := takeWhile_rev_ext [] e he
  simp only [List.nil_append] at this
  simp only [String.toList_ofList, this, List.length_reverse, List.length_cons]
  have h1 : ¬ (e.length == e.length + 1) = true := by simp
  simp [h1]

theorem stem_trailing_dot (b : List Char) :
    stem (String.ofList (b ++ ['.'])) = String.ofList (b ++ ['.']) := by
  unfold stem
  simp

end Skops.Fs
