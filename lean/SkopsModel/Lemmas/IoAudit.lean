import SkopsModel.Lemmas.IoSound
/-! The audit as a function of the caller's list `T`; `sorted(set(...))`. -/
namespace Skops.Io

variable (tbl : Table)

/-! ## unsafe = [] means every walked node passed -/

theorem append_eq_nil' {α} {a b : List α} (h : a ++ b = []) : a = [] ∧ b = [] := by
  cases a <;> simp_all

theorem contains_of_ite_nil {l : List String} {q : String} (h : (if l.contains q then ([] : List String) else [q]) = []) :
    q ∈ l := by
  by_cases hc : q ∈ l
  · exact hc
  · have : l.contains q = false := by simpa using hc
    simp [this] at h
    exact absurd h hc

mutual
/-- the memo invariant, stated on the tree: whatever a `CachedNode` points at has itself an empty audit (it sits
somewhere else in the tree, where the walk reached it), and so have the targets inside it -/
def Node.RefsAudited (T : List String) : Node → Prop
  | .backref _ => True
  | .mk _ _ _ _ _ kids ref => ref.RefsAudited T ∧ kids.RefsAudited T
def Kids.RefsAudited (T : List String) : Kids → Prop
  | .nil => True
  | .node _ _ _ n rest => n.RefsAudited T ∧ rest.RefsAudited T
  | .raw _ _ rest => rest.RefsAudited T
  | .absent _ rest => rest.RefsAudited T
  | .blob _ _ rest => rest.RefsAudited T
  | .synth _ _ _ _ _ rest => rest.RefsAudited T
def Ref.RefsAudited (T : List String) : Ref → Prop
  | .to n => n.unsafe tbl T = some [] ∧ n.RefsAudited T
  | .no => True
  | .missing => True
end

mutual
/-- the same as a computable check (the driver evaluates it on every tree `getTree` builds) -/
def Node.refsAuditedB (T : List String) : Node → Bool
  | .backref _ => true
  | .mk _ _ _ _ _ kids ref => ref.refsAuditedB T && kids.refsAuditedB T
def Kids.refsAuditedB (T : List String) : Kids → Bool
  | .nil => true
  | .node _ _ _ n rest => n.refsAuditedB T && rest.refsAuditedB T
  | .raw _ _ rest => rest.refsAuditedB T
  | .absent _ rest => rest.refsAuditedB T
  | .blob _ _ rest => rest.refsAuditedB T
  | .synth _ _ _ _ _ rest => rest.refsAuditedB T
def Ref.refsAuditedB (T : List String) : Ref → Bool
  | .to n => (n.unsafe tbl T == some []) && n.refsAuditedB T
  | .no => true
  | .missing => true
end

mutual
theorem node_refsAudited_of_B (T : List String) : ∀ n : Node, n.refsAuditedB tbl T = true → n.RefsAudited tbl T
  | .backref _, _ => trivial
  | .mk _ _ _ _ _ kids ref, h => by
    simp only [Node.refsAuditedB, Bool.and_eq_true] at h
    exact ⟨ref_refsAudited_of_B T ref h.1, kids_refsAudited_of_B T kids h.2⟩
theorem kids_refsAudited_of_B (T : List String) : ∀ ks : Kids, ks.refsAuditedB tbl T = true → ks.RefsAudited tbl T
  | .nil, _ => trivial
  | .node _ _ _ n rest, h => by
    simp only [Kids.refsAuditedB, Bool.and_eq_true] at h
    exact ⟨node_refsAudited_of_B T n h.1, kids_refsAudited_of_B T rest h.2⟩
  | .raw _ _ rest, h => kids_refsAudited_of_B T rest (by simpa [Kids.refsAuditedB] using h)
  | .absent _ rest, h => kids_refsAudited_of_B T rest (by simpa [Kids.refsAuditedB] using h)
  | .blob _ _ rest, h => kids_refsAudited_of_B T rest (by simpa [Kids.refsAuditedB] using h)
  | .synth _ _ _ _ _ rest, h => kids_refsAudited_of_B T rest (by simpa [Kids.refsAuditedB] using h)
theorem ref_refsAudited_of_B (T : List String) : ∀ r : Ref, r.refsAuditedB tbl T = true → r.RefsAudited tbl T
  | .to n, h => by
    simp only [Ref.refsAuditedB, Bool.and_eq_true, beq_iff_eq] at h
    exact ⟨h.1, node_refsAudited_of_B T n h.2⟩
  | .no, _ => trivial
  | .missing, _ => trivial
end

mutual
/-- a tree without `CachedNode` references satisfies the invariant vacuously -/
theorem node_refsAudited_of_noRefs (T : List String) : ∀ n : Node, n.NoRefs → n.RefsAudited tbl T
  | .backref _, _ => trivial
  | .mk _ _ _ _ _ kids ref, h => by
    obtain ⟨hr, hk⟩ := h
    subst hr
    exact ⟨trivial, kids_refsAudited_of_noRefs T kids hk⟩
theorem kids_refsAudited_of_noRefs (T : List String) : ∀ ks : Kids, ks.NoRefs → ks.RefsAudited tbl T
  | .nil, _ => trivial
  | .node _ _ _ n rest, h => ⟨node_refsAudited_of_noRefs T n h.1, kids_refsAudited_of_noRefs T rest h.2⟩
  | .raw _ _ rest, h => kids_refsAudited_of_noRefs T rest h
  | .absent _ rest, h => kids_refsAudited_of_noRefs T rest h
  | .blob _ _ rest, h => kids_refsAudited_of_noRefs T rest h
  | .synth _ _ _ _ _ rest, h => kids_refsAudited_of_noRefs T rest h
end

mutual
/-- "the audit returned the empty set" gives `Safe` for the whole tree, reference targets included, as soon as the
targets were audited where they sit -/
theorem node_safe_of_unsafe_nil' (T : List String) :
    ∀ n : Node, n.RefsAudited tbl T → n.unsafe tbl T = some [] → n.Safe tbl T
  | .backref _, _, _ => trivial
  | .mk nid kind mod cls extra kids ref, hra, h => by
    obtain ⟨hrr, hkr⟩ := hra
    have hrefsafe : ref.Safe tbl T := ref_safe_of_refsAudited T ref hrr
    simp only [Node.unsafe] at h
    simp only [Node.Safe, selfOK]
    cases hsc : (tbl.kind kind).selfCheck with
    | always => simp [audited, hsc, hrefsafe]
    | unknown => simp [hsc] at h
    | fnSelf =>
      simp only [hsc] at h
      refine ⟨contains_of_ite_nil (by simpa using h), ?_, hrefsafe⟩
      simp [audited, hsc]
    | fnContent mp cp =>
      simp only [hsc] at h
      refine ⟨?_, by simp [audited, hsc], hrefsafe⟩
      cases hf : kids.findRaw (mp.head?.getD "") with
      | none => simp [hf] at h
      | some j =>
        simp only [hf] at h
        cases hm : j.getPath? mp.tail with
        | none => simp [hm] at h
        | some mv =>
          cases hc : j.getPath? cp.tail with
          | none => simp [hm, hc] at h
          | some cv =>
            cases mv <;> cases cv <;> simp [hm, hc] at h
            rename_i m c
            exact ⟨j, m, c, hf, hm, hc, contains_of_ite_nil (by simpa using h)⟩
    | standard =>
      simp only [hsc] at h
      cases hq : qual mod cls with
      | none => simp [hq] at h
      | some q =>
        simp only [hq] at h
        by_cases hw : (tbl.kind kind).walksKids = true
        · simp only [hw, if_true] at h
          cases hk : kids.unsafe tbl T with
          | none => simp [hk] at h
          | some rest =>
            simp only [hk, Option.some.injEq] at h
            obtain ⟨h1, h2⟩ := append_eq_nil' h
            exact ⟨⟨q, rfl, contains_of_ite_nil h1⟩, fun _ => kids_safe_of_unsafe_nil' T kids hkr (by rw [hk, h2]), hrefsafe⟩
        · simp only [hw] at h
          refine ⟨⟨q, rfl, contains_of_ite_nil (by simpa using h)⟩, ?_, hrefsafe⟩
          intro ha
          simp [audited, hw] at ha
theorem kids_safe_of_unsafe_nil' (T : List String) :
    ∀ ks : Kids, ks.RefsAudited tbl T → ks.unsafe tbl T = some [] → ks.Safe tbl T
  | .nil, _, _ => trivial
  | .node _ _ _ n rest, hnr, h => by
    simp only [Kids.unsafe] at h
    cases hn : n.unsafe tbl T with
    | none => simp [hn] at h
    | some a =>
      cases hr : rest.unsafe tbl T with
      | none => simp [hn, hr] at h
      | some b =>
        simp only [hn, hr, Option.some.injEq] at h
        obtain ⟨h1, h2⟩ := append_eq_nil' h
        exact ⟨node_safe_of_unsafe_nil' T n hnr.1 (by rw [hn, h1]), kids_safe_of_unsafe_nil' T rest hnr.2 (by rw [hr, h2])⟩
  | .raw _ j rest, hnr, h => by
    simp only [Kids.unsafe] at h
    split at h
    · exact kids_safe_of_unsafe_nil' T rest hnr h
    · cases h
  | .absent _ rest, hnr, h => kids_safe_of_unsafe_nil' T rest hnr (by simpa [Kids.unsafe] using h)
  | .blob _ _ rest, hnr, h => kids_safe_of_unsafe_nil' T rest hnr (by simpa [Kids.unsafe] using h)
  | .synth _ _ mod cls extra rest, hnr, h => by
    simp only [Kids.unsafe] at h
    cases hq : qual mod cls with
    | none => simp [hq] at h
    | some q =>
      cases hr : rest.unsafe tbl T with
      | none => simp [hq, hr] at h
      | some b =>
        simp only [hq, hr, Option.some.injEq] at h
        obtain ⟨h1, h2⟩ := append_eq_nil' h
        exact ⟨⟨q, hq, contains_of_ite_nil h1⟩, kids_safe_of_unsafe_nil' T rest hnr (by rw [hr, h2])⟩
theorem ref_safe_of_refsAudited (T : List String) : ∀ r : Ref, r.RefsAudited tbl T → r.Safe tbl T
  | .to n, h => node_safe_of_unsafe_nil' T n h.2 h.1
  | .no, _ => trivial
  | .missing, _ => trivial
end

/-- the special case used before references were covered -/
theorem node_safe_of_unsafe_nil (T : List String) (n : Node) (hnr : n.NoRefs) (h : n.unsafe tbl T = some []) :
    n.Safe tbl T :=
  node_safe_of_unsafe_nil' tbl T n (node_refsAudited_of_noRefs tbl T n hnr) h

/-! ## the unsafe list under `T` is the `T = None` list with the names in `T` removed -/

def dropT (T : List String) (l : List String) : List String := l.filter (fun x => !T.contains x)

theorem ite_or_filter (T : List String) (q : String) (P : Prop) [Decidable P] :
    (if q ∈ T ∨ P then ([] : List String) else [q]) = dropT T (if P then [] else [q]) := by
  by_cases hP : P <;> by_cases hT : q ∈ T <;> simp [dropT, hP, hT]

theorem trustedOf_callerPlus (h : tbl.AllCallerPlus = true) (T : List String) (kind : Nat) (extra : List String) :
    trustedOf tbl T kind extra = T ++ (extra ++ (tbl.kind kind).defaults) := by
  have : (tbl.kind kind).callerPlus = true := by
    unfold Table.kind
    by_cases hlt : kind < tbl.kinds.length
    · simp only [Table.AllCallerPlus, List.all_eq_true] at h
      simp only [List.getD_eq_getElem?_getD, List.getElem?_eq_getElem hlt, Option.getD_some]
      exact h _ (List.getElem_mem hlt)
    · have : tbl.kinds[kind]? = none := List.getElem?_eq_none (by omega)
      simp [List.getD_eq_getElem?_getD, this]
  simp [trustedOf, this, List.append_assoc]

mutual
theorem node_unsafe_filter (h : tbl.AllCallerPlus = true) (T : List String) :
    ∀ n : Node, n.unsafe tbl T = (n.unsafe tbl []).map (dropT T)
  | .backref _ => by simp [Node.unsafe, dropT]
  | .mk nid kind mod cls extra kids ref => by
    have hk := kids_unsafe_filter h T kids
    simp only [Node.unsafe, trustedOf_callerPlus tbl h, List.nil_append, List.contains_eq_mem, List.mem_append,
      decide_eq_true_eq]
    cases hsc : (tbl.kind kind).selfCheck with
    | always => simp [dropT]
    | unknown => simp
    | fnSelf => simp only [Option.map_some]; rw [ite_or_filter]
    | fnContent mp cp =>
      simp only []
      cases kids.findRaw (mp.head?.getD "") with
      | none => simp
      | some j =>
        simp only []
        cases j.getPath? mp.tail with
        | none => simp
        | some mv =>
          cases j.getPath? cp.tail with
          | none => cases mv <;> simp
          | some cv =>
            cases mv <;> cases cv <;> simp only [Option.map_none, Option.map_some]
            rw [ite_or_filter]
    | standard =>
      simp only []
      cases qual mod cls with
      | none => simp
      | some q =>
        simp only []
        by_cases hw : (tbl.kind kind).walksKids = true
        · simp only [hw, if_true, hk]
          cases kids.unsafe tbl [] with
          | none => simp
          | some rest =>
            simp only [Option.map_some]
            rw [ite_or_filter]
            simp [dropT, List.filter_append]
        · simp only [hw, Bool.false_eq_true, if_false, Option.map_some]
          rw [ite_or_filter]
theorem kids_unsafe_filter (h : tbl.AllCallerPlus = true) (T : List String) :
    ∀ ks : Kids, ks.unsafe tbl T = (ks.unsafe tbl []).map (dropT T)
  | .nil => by simp [Kids.unsafe, dropT]
  | .node _ _ _ n rest => by
    simp only [Kids.unsafe, node_unsafe_filter h T n, kids_unsafe_filter h T rest]
    cases n.unsafe tbl [] <;> cases rest.unsafe tbl [] <;> simp [dropT, List.filter_append]
  | .raw _ j rest => by
    simp only [Kids.unsafe, kids_unsafe_filter h T rest]
    split <;> simp
  | .absent _ rest => by simpa [Kids.unsafe] using kids_unsafe_filter h T rest
  | .blob _ _ rest => by simpa [Kids.unsafe] using kids_unsafe_filter h T rest
  | .synth _ _ mod cls extra rest => by
    simp only [Kids.unsafe, kids_unsafe_filter h T rest, List.nil_append, List.contains_eq_mem, List.mem_append,
      decide_eq_true_eq, List.append_assoc]
    cases qual mod cls with
    | none => simp
    | some q =>
      cases rest.unsafe tbl [] with
      | none => simp
      | some b =>
        simp only [Option.map_some]
        rw [ite_or_filter]
        simp [dropT, List.filter_append]
end

end Skops.Io
