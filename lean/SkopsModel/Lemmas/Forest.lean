import SkopsModel.Card.Forest
/-! Helper lemmas about the section forest (no property statements here). -/
namespace Skops.Card.Forest

/-- full-path lookup: the section (and its subsections) at a non-empty path -/
def lookup : Forest → List String → Option (Sec × Forest)
  | _, [] => none
  | f, k :: ks =>
    match f.get? k with
    | none => none
    | some (s, ch) =>
      match ks with
      | [] => some (s, ch)
      | _ :: _ => lookup ch ks

@[simp] theorem lookup_nil (f : Forest) : lookup f [] = none := by
  cases f <;> rfl

theorem lookup_single (f : Forest) (k : String) : lookup f [k] = f.get? k := by
  unfold lookup
  cases h : f.get? k with
  | none => rfl
  | some p => rfl

theorem lookup_cons_cons (f : Forest) (k k' : String) (ks : List String) :
    lookup f (k :: k' :: ks) = match f.get? k with
      | none => none
      | some (_, ch) => lookup ch (k' :: ks) := by
  conv => lhs; unfold lookup

theorem get?_nil (x : String) : (nil : Forest).get? x = none := rfl

theorem lookup_of_nil (q : List String) : lookup nil q = none := by
  cases q with
  | nil => rfl
  | cons k ks => simp [lookup, get?]

theorem selectAt_eq_lookup (f : Forest) (names : List String) (leaf : String) :
    f.selectAt names leaf = lookup f (names ++ [leaf]) := by
  induction names generalizing f with
  | nil => simp [selectAt, descend, lookup_single]
  | cons n ns ih =>
    have h2 : ∃ k' ks', ns ++ [leaf] = k' :: ks' := by
      cases ns with
      | nil => exact ⟨leaf, [], rfl⟩
      | cons a b => exact ⟨a, b ++ [leaf], rfl⟩
    obtain ⟨k', ks', hk⟩ := h2
    have : (n :: ns) ++ [leaf] = n :: k' :: ks' := by simp [hk]
    rw [this, lookup_cons_cons]
    cases hg : f.get? n with
    | none => simp [selectAt, descend, hg]
    | some p =>
      obtain ⟨s, ch⟩ := p
      have := ih ch
      simp only [selectAt, descend, hg] at this ⊢
      rw [← hk]; exact this

/-- abstract view: the section data at each full path -/
def dataAt (f : Forest) : List String → Option Sec := fun q => (lookup f q).map (·.1)

/-- keys of the subsection dict reached by `q` (`[]` = top level), in order -/
def kidsAt (f : Forest) (q : List String) : Option (List String) := (f.descend q).map keys

theorem dataAt_child (f : Forest) (k k' : String) (ks : List String) :
    dataAt (((f.get? k).map (·.2)).getD nil) (k' :: ks) = dataAt f (k :: k' :: ks) := by
  simp only [dataAt, lookup_cons_cons]
  cases hg : f.get? k with
  | none => simp [lookup_of_nil]
  | some pr => simp

theorem lookup_congr_head (f f' : Forest) (k : String) (ks : List String) (h : f'.get? k = f.get? k) :
    lookup f' (k :: ks) = lookup f (k :: ks) := by
  unfold lookup; rw [h]

theorem descend_cons (f : Forest) (k : String) (ks : List String) :
    f.descend (k :: ks) = match f.get? k with
      | some (_, ch) => descend ch ks
      | none => none := by
  conv => lhs; unfold descend
  cases f.get? k <;> rfl

theorem descend_of_nil (k : String) (ks : List String) : (nil : Forest).descend (k :: ks) = none := by
  simp [descend_cons, get?]

theorem kidsAt_cons (f : Forest) (k : String) (ks : List String) :
    kidsAt f (k :: ks) = match f.get? k with
      | some (_, ch) => kidsAt ch ks
      | none => none := by
  simp only [kidsAt, descend_cons]
  cases f.get? k <;> rfl

theorem kidsAt_child_getD (f : Forest) (k : String) (ks : List String) :
    (kidsAt (((f.get? k).map (·.2)).getD nil) ks).getD [] = (kidsAt f (k :: ks)).getD [] := by
  rw [kidsAt_cons]
  cases hg : f.get? k with
  | none =>
    cases ks with
    | nil => simp [kidsAt, descend, keys]
    | cons a b => simp [kidsAt, descend_of_nil]
  | some pr => simp

theorem kidsAt_child (f : Forest) (k : String) (ks : List String) (h : ks ≠ []) :
    kidsAt (((f.get? k).map (·.2)).getD nil) ks = kidsAt f (k :: ks) := by
  rw [kidsAt_cons]
  cases hg : f.get? k with
  | none =>
    cases ks with
    | nil => exact absurd rfl h
    | cons a b => simp [kidsAt, descend_of_nil]
  | some pr => simp

/-! ### `setLeaf` -/

theorem get?_setLeaf_same (f : Forest) (k : String) (s : Sec) :
    (f.setLeaf k s).get? k = some (s, ((f.get? k).map (·.2)).getD nil) := by
  induction f with
  | nil => simp [setLeaf, get?]
  | cons k' s' ch rest _ ihr =>
    by_cases h : k' = k
    · subst h; simp [setLeaf, get?]
    · simp [setLeaf, get?, h, ihr]

theorem get?_setLeaf_other (f : Forest) (k x : String) (s : Sec) (h : x ≠ k) :
    (f.setLeaf k s).get? x = f.get? x := by
  induction f with
  | nil =>
    have : ¬ (k = x) := fun e => h e.symm
    simp [setLeaf, get?, this]
  | cons k' s' ch rest _ ihr =>
    by_cases hk : k' = k
    · subst hk
      have : ¬ (k' = x) := fun e => h e.symm
      simp [setLeaf, get?, this]
    · simp [setLeaf, hk, get?, ihr]

theorem keys_setLeaf (f : Forest) (k : String) (s : Sec) :
    (f.setLeaf k s).keys = if k ∈ f.keys then f.keys else f.keys ++ [k] := by
  induction f with
  | nil => simp [setLeaf, keys]
  | cons k' s' ch rest _ ihr =>
    by_cases hk : k' = k
    · subst hk; simp [setLeaf, keys]
    · have hk' : ¬ (k = k') := fun e => hk e.symm
      simp only [setLeaf, hk, if_false, keys, ihr, List.mem_cons, hk', false_or]
      split <;> simp

theorem mem_keys_iff (f : Forest) (k : String) : k ∈ f.keys ↔ (f.get? k).isSome := by
  induction f with
  | nil => simp [keys, get?]
  | cons k' s' ch rest _ ihr =>
    by_cases hk : k' = k
    · subst hk; simp [keys, get?]
    · have hk' : ¬ (k = k') := fun e => hk e.symm
      simp [keys, get?, hk, hk', ihr]

/-! ### `addAt` through one path element -/

theorem get?_addAt_cons_same (f : Forest) (n : String) (ns : List String) (leaf : String) (s : Sec) :
    (f.addAt (n :: ns) leaf s).get? n =
      some (((f.get? n).map (·.1)).getD (emptySec n),
            (((f.get? n).map (·.2)).getD nil).addAt ns leaf s) := by
  induction f with
  | nil => simp [get?]
  | cons k s' ch rest _ ihr =>
    by_cases hk : k = n
    · subst hk; simp [addAt, get?]
    · simp [addAt, get?, hk, ihr]

theorem get?_addAt_cons_other (f : Forest) (n x : String) (ns : List String) (leaf : String) (s : Sec)
    (h : x ≠ n) : (f.addAt (n :: ns) leaf s).get? x = f.get? x := by
  induction f with
  | nil =>
    have : ¬ (n = x) := fun e => h e.symm
    simp [get?, this]
  | cons k s' ch rest _ ihr =>
    by_cases hk : k = n
    · subst hk
      have : ¬ (k = x) := fun e => h e.symm
      simp [addAt, get?, this]
    · simp [addAt, get?, hk, ihr]

theorem keys_addAt_cons (f : Forest) (n : String) (ns : List String) (leaf : String) (s : Sec) :
    (f.addAt (n :: ns) leaf s).keys = if n ∈ f.keys then f.keys else f.keys ++ [n] := by
  induction f with
  | nil => simp [keys]
  | cons k s' ch rest _ ihr =>
    by_cases hk : k = n
    · subst hk; simp [addAt, keys]
    · have hk' : ¬ (n = k) := fun e => hk e.symm
      simp only [addAt, hk, if_false, keys, ihr, List.mem_cons, hk', false_or]
      split <;> simp

/-! ### well-formedness: keys are unique at every level (the forest encodes a dict tree) -/

def WF : Forest → Prop
  | nil => True
  | cons k _ ch rest => k ∉ rest.keys ∧ WF ch ∧ WF rest

theorem get?_none_of_not_mem (f : Forest) (k : String) (h : k ∉ f.keys) : f.get? k = none := by
  cases hg : f.get? k with
  | none => rfl
  | some pr => exact absurd ((mem_keys_iff f k).mpr (by simp [hg])) h

theorem wf_setLeaf (f : Forest) (k : String) (s : Sec) (h : WF f) : WF (f.setLeaf k s) := by
  induction f with
  | nil => simp [setLeaf, WF, keys]
  | cons k' s' ch rest _ ihr =>
    obtain ⟨h1, h2, h3⟩ := h
    by_cases hk : k' = k
    · subst hk; simpa [setLeaf, WF] using ⟨h1, h2, h3⟩
    · simp only [setLeaf, hk, if_false, WF, keys_setLeaf]
      refine ⟨?_, h2, ihr h3⟩
      split <;> simp [h1, hk]

theorem wf_addAt (f : Forest) (p : List String) (leaf : String) (s : Sec) (h : WF f) :
    WF (f.addAt p leaf s) := by
  induction p generalizing f with
  | nil => simpa [addAt] using wf_setLeaf f leaf s h
  | cons n ns ih =>
    induction f with
    | nil => simpa [WF, keys] using ih nil trivial
    | cons k s' ch rest _ ihr =>
      obtain ⟨h1, h2, h3⟩ := h
      by_cases hk : k = n
      · subst hk; simpa [addAt, WF] using ⟨h1, ih ch h2, h3⟩
      · simp only [addAt, hk, if_false, WF, keys_addAt_cons]
        refine ⟨?_, h2, ihr h3⟩
        split <;> simp [h1, hk]

/-! ### `erase` -/

theorem erase_eq_none_iff (f : Forest) (k : String) : f.erase k = none ↔ f.get? k = none := by
  induction f with
  | nil => simp [erase, get?]
  | cons k' s' ch rest _ ihr =>
    by_cases hk : k' = k
    · subst hk; simp [erase, get?]
    · simp only [erase, hk, if_false, get?]
      cases he : rest.erase k with
      | none => simpa [he] using ihr
      | some r => simpa [he] using ihr

theorem keys_erase (f f' : Forest) (k : String) (h : f.erase k = some f') :
    f'.keys = f.keys.erase k := by
  induction f generalizing f' with
  | nil => simp [erase] at h
  | cons k' s' ch rest _ ihr =>
    by_cases hk : k' = k
    · subst hk; simp [erase] at h; subst h; simp [keys]
    · simp only [erase, hk, if_false] at h
      cases he : rest.erase k with
      | none => simp [he] at h
      | some r =>
        simp [he] at h; subst h
        have hb : (k' == k) = false := by simpa using hk
        simp [keys, hb, ihr r he]

theorem get?_erase_other (f f' : Forest) (k x : String) (h : f.erase k = some f') (hx : x ≠ k) :
    f'.get? x = f.get? x := by
  induction f generalizing f' with
  | nil => simp [erase] at h
  | cons k' s' ch rest _ ihr =>
    by_cases hk : k' = k
    · subst hk
      have : ¬ (k' = x) := fun e => hx e.symm
      simp [erase] at h; subst h; simp [get?, this]
    · simp only [erase, hk, if_false] at h
      cases he : rest.erase k with
      | none => simp [he] at h
      | some r =>
        simp [he] at h; subst h
        simp [get?, ihr r he]

theorem get?_erase_same (f f' : Forest) (k : String) (hw : WF f) (h : f.erase k = some f') :
    f'.get? k = none := by
  induction f generalizing f' with
  | nil => simp [erase] at h
  | cons k' s' ch rest _ ihr =>
    obtain ⟨h1, _, h3⟩ := hw
    by_cases hk : k' = k
    · subst hk
      simp [erase] at h; subst h
      exact get?_none_of_not_mem _ _ h1
    · simp only [erase, hk, if_false] at h
      cases he : rest.erase k with
      | none => simp [he] at h
      | some r =>
        simp [he] at h; subst h
        simp [get?, hk, ihr r h3 he]

theorem wf_erase (f f' : Forest) (k : String) (hw : WF f) (h : f.erase k = some f') : WF f' := by
  induction f generalizing f' with
  | nil => simp [erase] at h
  | cons k' s' ch rest _ ihr =>
    obtain ⟨h1, h2, h3⟩ := hw
    by_cases hk : k' = k
    · subst hk; simp [erase] at h; subst h; exact h3
    · simp only [erase, hk, if_false] at h
      cases he : rest.erase k with
      | none => simp [he] at h
      | some r =>
        simp [he] at h; subst h
        refine ⟨?_, h2, ihr r h3 he⟩
        rw [keys_erase rest r k he]
        exact fun hm => h1 (List.mem_of_mem_erase hm)

/-! ### `updateAt` through one path element -/

theorem updateAt_cons_some (g : Forest → Option Forest) (f f' : Forest) (n : String) (ns : List String)
    (h : updateAt g f (n :: ns) = some f') :
    ∃ s ch ch', f.get? n = some (s, ch) ∧ updateAt g ch ns = some ch' ∧ f'.get? n = some (s, ch') ∧
      (∀ x, x ≠ n → f'.get? x = f.get? x) ∧ f'.keys = f.keys := by
  induction f generalizing f' with
  | nil => simp [updateAt] at h
  | cons k s ch rest _ ihr =>
    by_cases hk : k = n
    · subst hk
      simp only [updateAt, if_true] at h
      cases hu : updateAt g ch ns with
      | none => simp [hu] at h
      | some ch' =>
        simp [hu] at h; subst h
        refine ⟨s, ch, ch', by simp [get?], hu, by simp [get?], ?_, by simp [keys]⟩
        intro x hx
        have : ¬ (k = x) := fun e => hx e.symm
        simp [get?, this]
    · simp only [updateAt, hk, if_false] at h
      cases hu : updateAt g rest (n :: ns) with
      | none => simp [hu] at h
      | some r =>
        simp [hu] at h; subst h
        obtain ⟨s0, ch0, ch0', h1, h2, h3, h4, h5⟩ := ihr r hu
        refine ⟨s0, ch0, ch0', by simp [get?, hk, h1], h2, by simp [get?, hk, h3], ?_, by simp [keys, h5]⟩
        intro x hx
        by_cases hkx : k = x
        · simp [get?, hkx]
        · simp [get?, hkx, h4 x hx]

theorem updateAt_cons_none (g : Forest → Option Forest) (f : Forest) (n : String) (ns : List String) :
    updateAt g f (n :: ns) = none ↔
      (f.get? n = none ∨ ∃ s ch, f.get? n = some (s, ch) ∧ updateAt g ch ns = none) := by
  induction f with
  | nil => simp [updateAt, get?]
  | cons k s ch rest _ ihr =>
    by_cases hk : k = n
    · subst hk
      simp only [updateAt, if_true, get?]
      cases hu : updateAt g ch ns with
      | none => simp; exact ⟨s, ch, ⟨rfl, rfl⟩, hu⟩
      | some v =>
        simp
        intro s1
        rw [hu] at s1; cases s1
    · simp only [updateAt, hk, if_false, get?]
      cases hu : updateAt g rest (n :: ns) with
      | none => simpa [hu] using ihr
      | some r => simpa [hu] using ihr

theorem wf_updateAt (g : Forest → Option Forest) (hg : ∀ d d', WF d → g d = some d' → WF d')
    (f f' : Forest) (p : List String) (hw : WF f) (h : updateAt g f p = some f') : WF f' := by
  induction p generalizing f f' with
  | nil => exact hg f f' hw (by simpa [updateAt] using h)
  | cons n ns ih =>
    induction f generalizing f' with
    | nil => simp [updateAt] at h
    | cons k s ch rest _ ihr =>
      obtain ⟨h1, h2, h3⟩ := hw
      by_cases hk : k = n
      · subst hk
        simp only [updateAt, if_true] at h
        cases hu : updateAt g ch ns with
        | none => simp [hu] at h
        | some ch' =>
          simp [hu] at h; subst h
          exact ⟨h1, ih ch ch' h2 hu, h3⟩
      · simp only [updateAt, hk, if_false] at h
        cases hu : updateAt g rest (n :: ns) with
        | none => simp [hu] at h
        | some r =>
          simp [hu] at h; subst h
          obtain ⟨_, _, _, _, _, _, _, h5⟩ := updateAt_cons_some g rest r n ns hu
          exact ⟨by rw [h5]; exact h1, h2, ihr r h3 hu⟩

end Skops.Card.Forest

namespace Skops.Card.Forest

/-! ### `modifyLeaf` / `modifyAt` -/

theorem get?_modifyLeaf (g : Sec → Sec) (f f' : Forest) (k : String) (h : f.modifyLeaf g k = some f') (x : String) :
    f'.get? x = if x = k then (f.get? x).map (fun p => (g p.1, p.2)) else f.get? x := by
  induction f generalizing f' with
  | nil => simp [modifyLeaf] at h
  | cons k' s ch rest _ ihr =>
    by_cases hk : k' = k
    · subst hk
      simp [modifyLeaf] at h; subst h
      by_cases hx : x = k'
      · subst hx; simp [get?]
      · have : ¬ (k' = x) := fun e => hx e.symm
        simp [get?, hx, this]
    · simp only [modifyLeaf, hk, if_false] at h
      cases hm : rest.modifyLeaf g k with
      | none => simp [hm] at h
      | some r =>
        simp [hm] at h; subst h
        have := ihr r hm
        by_cases hx : k' = x
        · subst hx
          have : ¬ (k' = k) := hk
          simp [get?, this]
        · simp only [get?, hx, if_false, this]

theorem modifyLeaf_none_iff (g : Sec → Sec) (f : Forest) (k : String) :
    f.modifyLeaf g k = none ↔ f.get? k = none := by
  induction f with
  | nil => simp [modifyLeaf, get?]
  | cons k' s ch rest _ ihr =>
    by_cases hk : k' = k
    · subst hk; simp [modifyLeaf, get?]
    · simp only [modifyLeaf, hk, if_false, get?]
      cases hm : rest.modifyLeaf g k with
      | none => simpa [hm] using ihr
      | some r => simpa [hm] using ihr

/-- modifying the section at a path changes that section's data and nothing else -/
theorem modify_refines (g : Sec → Sec) (f f' : Forest) (p : List String) (leaf : String)
    (h : f.modifyAt g p leaf = some f') (q : List String) :
    dataAt f' q = if q = p ++ [leaf] then (dataAt f q).map g else dataAt f q := by
  induction p generalizing f f' q with
  | nil =>
    simp only [modifyAt, updateAt] at h
    have hg := get?_modifyLeaf g f f' leaf h
    match q with
    | [] => simp [dataAt]
    | [k] =>
      simp only [dataAt, lookup_single, hg k, List.nil_append, List.cons.injEq, and_true]
      by_cases hk : k = leaf
      · subst hk; simp; cases f.get? k <;> simp
      · simp [hk]
    | k :: k' :: ks =>
      have hne : ¬ (k :: k' :: ks = [] ++ [leaf]) := by simp
      simp only [dataAt, hne, if_false, lookup_cons_cons, hg k]
      by_cases hk : k = leaf
      · subst hk; simp; cases f.get? k <;> simp
      · simp [hk]
  | cons n ns ih =>
    obtain ⟨s, ch, ch', h1, h2, h3, h4, _⟩ := updateAt_cons_some _ f f' n ns h
    match q with
    | [] => simp [dataAt]
    | [k] =>
      have hne : ¬ ([k] = n :: ns ++ [leaf]) := by
        intro e; have := congrArg List.length e; simp at this
      by_cases hk : k = n
      · subst hk; simp [dataAt, lookup_single, h1, h3, hne]
      · simp [dataAt, lookup_single, h4 k hk, hne]
    | k :: k' :: ks =>
      by_cases hk : k = n
      · subst hk
        have ih' := ih ch ch' h2 (k' :: ks)
        simp only [dataAt, lookup_cons_cons, h1, h3, List.cons_append, List.cons.injEq, true_and] at ih' ⊢
        exact ih'
      · have hne : ¬ (k :: k' :: ks = n :: ns ++ [leaf]) := by
          intro e; simp at e; exact hk e.1
        simp only [dataAt, hne, if_false, lookup_congr_head f f' k (k' :: ks) (h4 k hk)]

end Skops.Card.Forest
