/-!
Header nesting: the specification ("nearest preceding header of lower level") equals the
level-aware stack algorithm, for every list of headers.
-/
namespace Skops.Outline
variable {α : Type}

/-- spec: ancestors (outermost first) of a header of level `l`, given the previous headers
most-recent-first: the nearest preceding header of a lower level, then *its* ancestors -/
def ancestors : List (Nat × α) → Nat → List α
  | [], _ => []
  | (l', t') :: rest, l => if l' < l then ancestors rest l' ++ [t'] else ancestors rest l

def pop (l : Nat) (stack : List (Nat × α)) : List (Nat × α) := stack.dropWhile (fun e => decide (l ≤ e.1))

/-- stack algorithm: for every header in order, the path of its ancestors -/
def stackAlg : List (Nat × α) → List (Nat × α) → List (List α)
  | _, [] => []
  | stack, (l, t) :: hs =>
      let s' := pop l stack
      (s'.reverse.map (·.2)) :: stackAlg ((l, t) :: s') hs

def specAlg : List (Nat × α) → List (Nat × α) → List (List α)
  | _, [] => []
  | prev, (l, t) :: hs => ancestors prev l :: specAlg ((l, t) :: prev) hs

/-- strictly decreasing levels from top to bottom -/
def Mono : List (Nat × α) → Prop
  | [] => True
  | [_] => True
  | a :: b :: rest => b.1 < a.1 ∧ Mono (b :: rest)

theorem ancestors_pop (stack : List (Nat × α)) (l m : Nat) (h : m ≤ l) :
    ancestors (pop l stack) m = ancestors stack m := by
  induction stack with
  | nil => rfl
  | cons e rest ih =>
    by_cases he : l ≤ e.1
    · have : ¬ e.1 < m := by omega
      simp [pop, List.dropWhile, he, ancestors, this] at ih ⊢
      exact ih
    · simp [pop, List.dropWhile, he]

theorem mono_tail {a : Nat × α} {rest : List (Nat × α)} (h : Mono (a :: rest)) : Mono rest := by
  cases rest with
  | nil => trivial
  | cons b r => exact h.2

theorem mono_pop (l : Nat) (stack : List (Nat × α)) (h : Mono stack) : Mono (pop l stack) := by
  induction stack with
  | nil => trivial
  | cons e rest ih =>
    by_cases he : l ≤ e.1
    · simpa [pop, List.dropWhile, he] using ih (mono_tail h)
    · simpa [pop, List.dropWhile, he] using h

theorem pop_head_lt (l : Nat) (stack : List (Nat × α)) : ∀ e ∈ (pop l stack).head?, e.1 < l := by
  induction stack with
  | nil => simp [pop]
  | cons e rest ih =>
    by_cases he : l ≤ e.1
    · simpa [pop, List.dropWhile, he] using ih
    · simp [pop, List.dropWhile, he]; omega

theorem ancestors_mono (stack : List (Nat × α)) (l : Nat) (hm : Mono stack)
    (hl : ∀ e ∈ stack.head?, e.1 < l) : ancestors stack l = stack.reverse.map (·.2) := by
  induction stack generalizing l with
  | nil => rfl
  | cons e rest ih =>
    have h1 : e.1 < l := hl e (by simp)
    have : ∀ e' ∈ rest.head?, e'.1 < e.1 := by
      cases rest with
      | nil => simp
      | cons b r => intro e' he'; simp at he'; subst he'; exact hm.1
    simp [ancestors, h1, ih e.1 (mono_tail hm) this]

theorem stack_eq_spec (hs : List (Nat × α)) :
    ∀ (prev stack : List (Nat × α)), Mono stack → (∀ m, ancestors prev m = ancestors stack m) →
      stackAlg stack hs = specAlg prev hs := by
  induction hs with
  | nil => intros; rfl
  | cons h hs ih =>
    obtain ⟨l, t⟩ := h
    intro prev stack hm hinv
    simp only [stackAlg, specAlg]
    have hmp := mono_pop l stack hm
    congr 1
    · rw [hinv l, ← ancestors_pop stack l l (Nat.le_refl _)]
      exact (ancestors_mono _ l hmp (pop_head_lt l stack)).symm
    · apply ih
      · cases hp : pop l stack with
        | nil => trivial
        | cons b r =>
          have := pop_head_lt l stack b (by simp [hp])
          exact ⟨this, by simpa [hp] using hmp⟩
      · intro m
        simp only [ancestors]
        by_cases hlm : l < m
        · simp [hlm, hinv l, ancestors_pop stack l l (Nat.le_refl _)]
        · simp [hlm, hinv m, ancestors_pop stack l m (by omega)]

theorem stackAlg_correct (hs : List (Nat × α)) : stackAlg [] hs = specAlg [] hs :=
  stack_eq_spec hs [] [] trivial (fun _ => rfl)

end Skops.Outline
