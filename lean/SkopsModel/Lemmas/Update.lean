import SkopsModel.Fs.Canon
import SkopsModel.Lemmas.Fs
/-! Closed form of a run of `updateProg` in the case where it writes. -/
set_option linter.unusedSimpArgs false
namespace Skops.Fs

theorem resolve_parent (cwd : RPath) (d : Path) (h : d.parts ≠ []) :
    d.parent.resolve cwd = (d.resolve cwd).dropLast := by
  unfold Path.parent Path.resolve
  by_cases ha : d.abs
  · simp [ha]
  · simp [ha, List.dropLast_append_of_ne_nil h]

/-- what the file system must look like for the update to go through -/
structure WriteHyp (cfg : Cfg) (fs : FS) (d : Path) : Prop where
  hdest : destOf cfg = some d
  hparts : d.parts ≠ []
  hproto : cfg.proto < cfg.cur
  hload : cfg.loadable = true
  hdump : cfg.dumpable = true
  hpar : fs.isDir (d.resolve cfg.cwd).dropLast = true
  hnd : fs.isDir (d.resolve cfg.cwd) = false
  hfreshName : cfg.fresh ≠ d.name
  hfreshDir : fs.isDir ((d.resolve cfg.cwd).dropLast ++ [cfg.fresh]) = false
  hfreshFile : fs.read ((d.resolve cfg.cwd).dropLast ++ [cfg.fresh]) = none
  hunderF : ∀ q, under ((d.resolve cfg.cwd).dropLast ++ [cfg.fresh]) q = true → fs.read q = none
  hunderD : ∀ q ∈ fs.dirs, under ((d.resolve cfg.cwd).dropLast ++ [cfg.fresh]) q = false

def tmpDirOf (cfg : Cfg) (d : Path) : RPath := (d.resolve cfg.cwd).dropLast ++ [cfg.fresh]
def tmpOf (cfg : Cfg) (d : Path) : RPath := tmpDirOf cfg d ++ [d.name ++ ".tmp"]

/-- the operations of a successful update, in order -/
def updateOps (cfg : Cfg) (d : Path) : List Op :=
  [.mkdir (tmpDirOf cfg d)] ++ writeOps (tmpOf cfg d) cfg.chunks ++
    [.replace (tmpOf cfg d) (d.resolve cfg.cwd), .rmtree (tmpDirOf cfg d)]


theorem execL_append (cfg : Cfg) (a b : List Stmt) (w : World) :
    execL cfg (a ++ b) w = match execL cfg a w with
      | (w', .next) => execL cfg b w'
      | r => r := by
  induction a generalizing w with
  | nil => simp [execL]
  | cons s rest ih =>
    simp only [List.cons_append, execL]
    rcases hs : execS cfg s w with ⟨w1, sg⟩
    cases sg <;> simp [ih]

def updateGuards : List Stmt :=
  [ .ite .inplace [.ite .outputNone [.outputGetsInput] [.raise "ValueError"]] [],
    .loadInput, .readProtocol,
    .ite .protoEq [.log "warning", .ret] [],
    .ite .protoGt [.log "warning", .ret] [],
    .ite .outputNone [.log "warning", .ret] [],
    .destGetsOutput ]

def updateWrite : List Stmt := [ .withTmpDir true [.tmpGets true, .dumpTmp, .replaceTmpDest], .log "info" ]

theorem updateProg_split : updateProg = updateGuards ++ updateWrite := rfl

theorem guards_pass (cfg : Cfg) (fs : FS) (d : Path) (hdest : destOf cfg = some d) (hproto : cfg.proto < cfg.cur)
    (hload : cfg.loadable = true) :
    execL cfg updateGuards { fs := fs, output := cfg.output } =
      ({ fs := fs, output := some d, dest := some d }, .next) := by
  have hne : (cfg.proto == cfg.cur) = false := by simp; omega
  have hng : ¬ (cfg.proto > cfg.cur) := by omega
  unfold destOf at hdest
  unfold updateGuards
  by_cases hi : cfg.inplace = true
  · simp only [hi, if_true] at hdest
    cases ho : cfg.output with
    | some o => simp [ho] at hdest
    | none =>
      simp [ho] at hdest
      simp [execL, execS, Cond.eval, hi, hload, hne, hng, hdest]
  · have hi' : cfg.inplace = false := by simpa using hi
    simp only [hi', Bool.false_eq_true, if_false] at hdest
    simp [execL, execS, Cond.eval, hi', hdest, hload, hne, hng]


def afterMkdir (cfg : Cfg) (fs : FS) (d : Path) : FS := { fs with dirs := tmpDirOf cfg d :: fs.dirs }
def afterDump (cfg : Cfg) (fs : FS) (d : Path) : FS := (afterMkdir cfg fs d).put (tmpOf cfg d) cfg.chunks.flatten
def afterReplace (cfg : Cfg) (fs : FS) (d : Path) : FS :=
  ((afterDump cfg fs d).del (tmpOf cfg d)).put (d.resolve cfg.cwd) cfg.chunks.flatten
def afterCleanup (cfg : Cfg) (fs : FS) (d : Path) : FS :=
  { dirs := (afterReplace cfg fs d).dirs.filter (fun q => !under (tmpDirOf cfg d) q),
    files := (afterReplace cfg fs d).files.filter (fun e => !under (tmpDirOf cfg d) e.1) }

theorem tmp_path (cwd t : RPath) (x : String) :
    Path.resolve cwd (Path.join ⟨true, t⟩ ⟨false, [x]⟩) = t ++ [x] := by
  simp [Path.join, Path.resolve]

theorem resolve_ne_nil (cwd : RPath) (d : Path) (h : d.parts ≠ []) : d.resolve cwd ≠ [] := by
  unfold Path.resolve
  split <;> simp [h]

theorem resolve_split (cwd : RPath) (d : Path) (h : d.parts ≠ []) :
    d.resolve cwd = (d.resolve cwd).dropLast ++ [d.name] := by
  have hn := resolve_ne_nil cwd d h
  have hl : (d.resolve cwd).getLast? = some d.name := by
    unfold Path.resolve Path.name
    split
    · cases hg : d.parts.getLast? with
      | none => simp [List.getLast?_eq_none_iff] at hg; exact absurd hg h
      | some x => simp
    · rw [List.getLast?_append]
      cases hg : d.parts.getLast? with
      | none => simp [List.getLast?_eq_none_iff] at hg; exact absurd hg h
      | some x => simp
  have h1 := List.dropLast_concat_getLast hn
  have h2 := List.getLast?_eq_some_getLast hn
  rw [hl] at h2
  have h3 : d.name = (d.resolve cwd).getLast hn := Option.some.inj h2
  rw [h3]
  exact h1.symm

theorem under_append (a b : RPath) : under a (a ++ b) = true := by
  simp [under]

theorem write_runs (cfg : Cfg) (fs : FS) (d : Path) (h : WriteHyp cfg fs d) :
    ∃ w, execL cfg updateWrite { fs := fs, output := some d, dest := some d } = (w, .next) ∧
      w.trace = updateOps cfg d ∧ w.fs = afterCleanup cfg fs d := by
  obtain ⟨hdest, hparts, hproto, hload, hdump, hpar, hnd, hfn, hfd, hff, huf, hud⟩ := h
  have hD := resolve_split cfg.cwd d hparts
  unfold updateWrite
  simp only [execL, execS]
  simp only [if_true, Option.map_some, resolve_parent cfg.cwd d hparts, tmp_path, hdump]
  have hmk : doOps { fs := fs, output := some d, dest := some d } [Op.mkdir ((d.resolve cfg.cwd).dropLast ++ [cfg.fresh])]
      = ({ fs := afterMkdir cfg fs d, trace := [Op.mkdir (tmpDirOf cfg d)], output := some d, dest := some d }, .next) := by
    simp [doOps, step, hpar, hfd, hff, afterMkdir, tmpDirOf]
  rw [hmk]
  simp only
  -- the dump into the temporary file
  have ht1 : (afterMkdir cfg fs d).isDir (tmpOf cfg d).dropLast = true := by
    simp [afterMkdir, tmpOf, FS.isDir]
  have ht2 : (afterMkdir cfg fs d).isDir (tmpOf cfg d) = false := by
    simp only [afterMkdir, FS.isDir, List.contains_cons, Bool.or_eq_false_iff]
    constructor
    · simp [tmpOf]
    · cases hc : fs.dirs.contains (tmpOf cfg d) with
      | false => rfl
      | true =>
        have hm : tmpOf cfg d ∈ fs.dirs := by simpa using hc
        have := hud _ hm
        rw [show tmpOf cfg d = tmpDirOf cfg d ++ [d.name ++ ".tmp"] from rfl] at this
        rw [show (d.resolve cfg.cwd).dropLast ++ [cfg.fresh] = tmpDirOf cfg d from rfl, under_append] at this
        cases this
  have hw := doOps_writeOps cfg.chunks
    { fs := afterMkdir cfg fs d, trace := [Op.mkdir (tmpDirOf cfg d)], output := some d, dest := some d,
      tmpDir := some (tmpDirOf cfg d), tmp := some (tmpOf cfg d) } (tmpOf cfg d) ht1 ht2
  simp only [tmpOf, tmpDirOf] at hw ⊢
  rw [hw]
  simp only
  -- the atomic replace
  have hne : (d.resolve cfg.cwd).dropLast ++ [cfg.fresh] ≠ d.resolve cfg.cwd := by
    intro heq
    rw [hD] at heq
    simp at heq
    exact hfn heq
  have hr1 : (afterMkdir cfg fs d).isDir (d.resolve cfg.cwd).dropLast = true := by
    simp [afterMkdir, FS.isDir] at hpar ⊢
    exact Or.inr hpar
  have hr2 : (afterMkdir cfg fs d).isDir (d.resolve cfg.cwd) = false := by
    simp only [afterMkdir, FS.isDir, List.contains_cons, Bool.or_eq_false_iff]
    refine ⟨?_, hnd⟩
    simp only [tmpDirOf, beq_eq_false_iff_ne, ne_eq]
    exact fun h => hne h.symm
  simp only [doOps, step, read_put_same, isDir_put, hr1, hr2]
  simp only [Bool.not_true, Bool.false_eq_true, if_false]
  refine ⟨_, rfl, ?_, ?_⟩
  · simp [updateOps, tmpOf, tmpDirOf]
  · simp [afterCleanup, afterReplace, afterDump, tmpOf, tmpDirOf]

theorem under_same_len (a b : RPath) (h : under a b = true) (hl : a.length = b.length) : a = b := by
  have hp : a <+: b := by simpa [under] using h
  exact hp.eq_of_length hl

theorem tmpDir_not_under_dest (cfg : Cfg) (fs : FS) (d : Path) (h : WriteHyp cfg fs d) :
    under (tmpDirOf cfg d) (d.resolve cfg.cwd) = false := by
  have hD := resolve_split cfg.cwd d h.hparts
  cases hu : under (tmpDirOf cfg d) (d.resolve cfg.cwd) with
  | false => rfl
  | true =>
    have hl : (tmpDirOf cfg d).length = (d.resolve cfg.cwd).length := by
      rw [hD]; simp [tmpDirOf]
    have := under_same_len _ _ hu hl
    rw [hD] at this
    simp [tmpDirOf] at this
    exact absurd this h.hfreshName

theorem tmp_ne_dest (cfg : Cfg) (d : Path) (hparts : d.parts ≠ []) : tmpOf cfg d ≠ d.resolve cfg.cwd := by
  have hD := resolve_split cfg.cwd d hparts
  intro heq
  have : (tmpOf cfg d).length = (d.resolve cfg.cwd).length := by rw [heq]
  rw [hD] at this
  simp [tmpOf, tmpDirOf] at this

theorem afterCleanup_read_dest (cfg : Cfg) (fs : FS) (d : Path) (h : WriteHyp cfg fs d) :
    (afterCleanup cfg fs d).read (d.resolve cfg.cwd) = some cfg.chunks.flatten := by
  unfold afterCleanup
  show (FS.mk _ ((afterReplace cfg fs d).files.filter (fun e => !under (tmpDirOf cfg d) e.1))).read _ = _
  rw [read_filter _ (afterReplace cfg fs d).files (fun r => !under (tmpDirOf cfg d) r)]
  simp only [tmpDir_not_under_dest cfg fs d h, Bool.not_false, if_true]
  show (afterReplace cfg fs d).read _ = _
  simp [afterReplace]

theorem afterCleanup_read_other (cfg : Cfg) (fs : FS) (d : Path) (h : WriteHyp cfg fs d) (q : RPath)
    (hq : q ≠ d.resolve cfg.cwd) : (afterCleanup cfg fs d).read q = fs.read q := by
  unfold afterCleanup
  show (FS.mk _ ((afterReplace cfg fs d).files.filter (fun e => !under (tmpDirOf cfg d) e.1))).read _ = _
  rw [read_filter _ (afterReplace cfg fs d).files (fun r => !under (tmpDirOf cfg d) r)]
  cases hu : under (tmpDirOf cfg d) q with
  | true =>
    simp only [Bool.not_true, Bool.false_eq_true, if_false]
    exact (h.hunderF q hu).symm
  | false =>
    simp only [Bool.not_false, if_true]
    show (afterReplace cfg fs d).read q = _
    have hqt : tmpOf cfg d ≠ q := by
      intro heq
      rw [← heq, show tmpOf cfg d = tmpDirOf cfg d ++ [d.name ++ ".tmp"] from rfl, under_append] at hu
      cases hu
    unfold afterReplace afterDump
    rw [read_put_other _ _ q _ (Ne.symm hq), read_del_other _ _ q hqt, read_put_other _ _ q _ hqt]
    rfl

theorem afterCleanup_dirs (cfg : Cfg) (fs : FS) (d : Path) (h : WriteHyp cfg fs d) :
    (afterCleanup cfg fs d).dirs = fs.dirs := by
  unfold afterCleanup afterReplace afterDump afterMkdir
  simp only [dirs_put, dirs_del, List.filter_cons]
  have h0 : under (tmpDirOf cfg d) (tmpDirOf cfg d) = true := by
    have := under_append (tmpDirOf cfg d) []
    simpa using this
  simp only [h0, Bool.not_true, Bool.false_eq_true, if_false]
  apply List.filter_eq_self.mpr
  intro q hq
  have := h.hunderD q hq
  simp [tmpDirOf] at this ⊢
  exact this



def preOps (cfg : Cfg) (d : Path) : List Op := [.mkdir (tmpDirOf cfg d)] ++ writeOps (tmpOf cfg d) cfg.chunks

theorem updateOps_split (cfg : Cfg) (d : Path) :
    updateOps cfg d = preOps cfg d ++ [.replace (tmpOf cfg d) (d.resolve cfg.cwd), .rmtree (tmpDirOf cfg d)] := rfl

theorem preOps_untouched (cfg : Cfg) (d : Path) (hparts : d.parts ≠ []) :
    ∀ op ∈ preOps cfg d, op.touches (d.resolve cfg.cwd) = false := by
  intro op hop
  have hne := tmp_ne_dest cfg d hparts
  simp only [preOps, writeOps, List.mem_append, List.mem_cons, List.mem_map, List.not_mem_nil, or_false] at hop
  rcases hop with rfl | rfl | ⟨b, _, rfl⟩
  · rfl
  · simpa [Op.touches] using hne
  · simpa [Op.touches] using hne

theorem applyAll_pre (cfg : Cfg) (fs : FS) (d : Path) (h : WriteHyp cfg fs d) :
    applyAll fs (preOps cfg d) = afterDump cfg fs d := by
  obtain ⟨hdest, hparts, hproto, hload, hdump, hpar, hnd, hfn, hfd, hff, huf, hud⟩ := h
  have hmk : doOps { fs := fs } [Op.mkdir (tmpDirOf cfg d)]
      = ({ fs := afterMkdir cfg fs d, trace := [Op.mkdir (tmpDirOf cfg d)] }, .next) := by
    simp [doOps, step, hpar, hfd, hff, afterMkdir, tmpDirOf]
  have ht1 : (afterMkdir cfg fs d).isDir (tmpOf cfg d).dropLast = true := by
    simp [afterMkdir, tmpOf, FS.isDir]
  have ht2 : (afterMkdir cfg fs d).isDir (tmpOf cfg d) = false := by
    simp only [afterMkdir, FS.isDir, List.contains_cons, Bool.or_eq_false_iff]
    constructor
    · simp [tmpOf]
    · cases hc : fs.dirs.contains (tmpOf cfg d) with
      | false => rfl
      | true =>
        have hm : tmpOf cfg d ∈ fs.dirs := by simpa using hc
        have := hud _ hm
        rw [show tmpOf cfg d = tmpDirOf cfg d ++ [d.name ++ ".tmp"] from rfl] at this
        rw [show (d.resolve cfg.cwd).dropLast ++ [cfg.fresh] = tmpDirOf cfg d from rfl, under_append] at this
        cases this
  have hw := doOps_writeOps cfg.chunks
    { fs := afterMkdir cfg fs d, trace := [Op.mkdir (tmpDirOf cfg d)] } (tmpOf cfg d) ht1 ht2
  have hall : doOps { fs := fs } (preOps cfg d) =
      ({ fs := afterDump cfg fs d, trace := [Op.mkdir (tmpDirOf cfg d)] ++ writeOps (tmpOf cfg d) cfg.chunks }, .next) := by
    unfold preOps
    rw [doOps_append, hmk]
    simp only
    rw [hw]
    rfl
  exact (doOps_applyAll _ _ _ hall).1

theorem step_replace (cfg : Cfg) (fs : FS) (d : Path) (h : WriteHyp cfg fs d) :
    step (afterDump cfg fs d) (.replace (tmpOf cfg d) (d.resolve cfg.cwd)) = .ok (afterReplace cfg fs d) := by
  have hD := resolve_split cfg.cwd d h.hparts
  have hne : tmpDirOf cfg d ≠ d.resolve cfg.cwd := by
    intro heq
    rw [hD] at heq
    simp [tmpDirOf] at heq
    exact h.hfreshName heq
  have hr1 : (afterMkdir cfg fs d).isDir (d.resolve cfg.cwd).dropLast = true := by
    have := h.hpar
    simp [afterMkdir, FS.isDir] at this ⊢
    exact Or.inr this
  have hr2 : (afterMkdir cfg fs d).isDir (d.resolve cfg.cwd) = false := by
    simp only [afterMkdir, FS.isDir, List.contains_cons, Bool.or_eq_false_iff]
    refine ⟨?_, h.hnd⟩
    simp only [beq_eq_false_iff_ne, ne_eq]
    exact fun h' => hne h'.symm
  simp only [step, afterDump, read_put_same, isDir_put, hr1, hr2]
  simp [afterReplace, afterDump]

/-- **crash safety on the model**: whatever prefix of the operations was performed when the process died, the
destination reads as before or as the complete new archive -/
theorem crash_read (cfg : Cfg) (fs : FS) (d : Path) (h : WriteHyp cfg fs d) (k : Nat) :
    (applyAll fs ((updateOps cfg d).take k)).read (d.resolve cfg.cwd) = fs.read (d.resolve cfg.cwd) ∨
    (applyAll fs ((updateOps cfg d).take k)).read (d.resolve cfg.cwd) = some cfg.chunks.flatten := by
  rw [updateOps_split]
  by_cases hk : k ≤ (preOps cfg d).length
  · left
    rw [List.take_append_of_le_length hk]
    apply applyAll_untouched
    intro op hop
    exact preOps_untouched cfg d h.hparts op (List.mem_of_mem_take hop)
  · right
    have hk' : (preOps cfg d).length < k := by omega
    rw [List.take_append, List.take_of_length_le (by omega), applyAll_append, applyAll_pre cfg fs d h]
    obtain ⟨j, hj⟩ : ∃ j, k - (preOps cfg d).length = j + 1 := ⟨k - (preOps cfg d).length - 1, by omega⟩
    rw [hj]
    cases j with
    | zero =>
      simp only [List.take, applyAll, step_replace cfg fs d h]
      simp [afterReplace]
    | succ j =>
      have : List.take (j + 1 + 1) [Op.replace (tmpOf cfg d) (d.resolve cfg.cwd), Op.rmtree (tmpDirOf cfg d)]
          = [Op.replace (tmpOf cfg d) (d.resolve cfg.cwd), Op.rmtree (tmpDirOf cfg d)] := by
        simp [List.take]
      rw [this]
      simp only [applyAll]
      rw [step_replace cfg fs d h]
      simp only [step]
      exact afterCleanup_read_dest cfg fs d h


/-- the whole run in the writing case -/
theorem update_run (cfg : Cfg) (fs : FS) (d : Path) (h : WriteHyp cfg fs d) :
    ∃ w, run updateMainProg updateProg cfg fs = (w, .next) ∧ w.trace = updateOps cfg d ∧
      w.fs = afterCleanup cfg fs d := by
  obtain ⟨w, hw, ht, hf⟩ := write_runs cfg fs d h
  refine ⟨w, ?_, ht, hf⟩
  unfold run updateMainProg
  simp only [execL]
  rw [updateProg_split, execL_append, guards_pass cfg fs d h.hdest h.hproto h.hload]
  exact hw

/-- every way in which the guards stop the run leaves the file system alone -/
theorem update_no_write (cfg : Cfg) (fs : FS)
    (h : cfg.cur ≤ cfg.proto ∨ destOf cfg = none ∨ cfg.loadable = false) :
    (run updateMainProg updateProg cfg fs).1.fs = fs ∧ (run updateMainProg updateProg cfg fs).1.trace = [] := by
  unfold run updateMainProg updateProg
  simp only [execL, execS, Cond.eval]
  rcases Nat.lt_trichotomy cfg.proto cfg.cur with hlt | heq | hgt
  · have h1 : (cfg.proto == cfg.cur) = false := by simp; omega
    have h2 : ¬ (cfg.cur < cfg.proto) := by omega
    have h3 : ¬ (cfg.cur ≤ cfg.proto) := by omega
    by_cases hi : cfg.inplace = true <;> cases ho : cfg.output <;> by_cases hl : cfg.loadable = true <;>
      simp [destOf, h1, h2, h3, hi, ho, hl] at h ⊢
  · have h1 : (cfg.proto == cfg.cur) = true := by simp; omega
    by_cases hi : cfg.inplace = true <;> cases ho : cfg.output <;> by_cases hl : cfg.loadable = true <;>
      simp [h1, hi, ho, hl]
  · have h1 : (cfg.proto == cfg.cur) = false := by simp; omega
    have h2 : cfg.cur < cfg.proto := hgt
    by_cases hi : cfg.inplace = true <;> cases ho : cfg.output <;> by_cases hl : cfg.loadable = true <;>
      simp [h1, h2, hi, ho, hl]

theorem update_both_flags (cfg : Cfg) (fs : FS) (o : Path) (ho : cfg.output = some o) (hi : cfg.inplace = true) :
    run updateMainProg updateProg cfg fs = ({ fs := fs, output := some o }, .raised "ValueError") := by
  unfold run updateMainProg updateProg
  simp [execL, execS, Cond.eval, ho, hi]


/-- the update reaches the dump and the dump fails (`get_state` raises): the temporary directory is created and
removed again, and that is all -/
theorem update_dump_fails (cfg : Cfg) (fs : FS) (d : Path) (h : WriteHyp cfg fs d) :
    ∃ w, run updateMainProg updateProg { cfg with dumpable := false } fs = (w, .raised "dump") ∧
      (∀ q, w.fs.read q = fs.read q) ∧ w.fs.dirs = fs.dirs := by
  obtain ⟨hdest, hparts, hproto, hload, hdump, hpar, hnd, hfn, hfd, hff, huf, hud⟩ := h
  have hguards := guards_pass { cfg with dumpable := false } fs d (by simpa [destOf] using hdest) hproto hload
  unfold run updateMainProg
  simp only [execL]
  rw [updateProg_split, execL_append, hguards]
  unfold updateWrite
  simp only [execL, execS]
  simp only [if_true, Option.map_some, resolve_parent cfg.cwd d hparts, tmp_path]
  have hmk : doOps { fs := fs, output := some d, dest := some d } [Op.mkdir ((d.resolve cfg.cwd).dropLast ++ [cfg.fresh])]
      = ({ fs := afterMkdir cfg fs d, trace := [Op.mkdir (tmpDirOf cfg d)], output := some d, dest := some d }, .next) := by
    simp [doOps, step, hpar, hfd, hff, afterMkdir, tmpDirOf]
  rw [hmk]
  simp only [Bool.false_eq_true, if_false, doOps, step]
  refine ⟨_, rfl, ?_, ?_⟩
  · intro q
    show (FS.mk _ ((afterMkdir cfg fs d).files.filter (fun e => !under (tmpDirOf cfg d) e.1))).read q = _
    rw [read_filter _ (afterMkdir cfg fs d).files (fun r => !under (tmpDirOf cfg d) r)]
    cases hu : under (tmpDirOf cfg d) q with
    | true =>
      simp only [Bool.not_true, Bool.false_eq_true, if_false]
      exact (huf q hu).symm
    | false => simp [afterMkdir, FS.read]
  · simp only [afterMkdir, List.filter_cons]
    have h0 : under ((d.resolve cfg.cwd).dropLast ++ [cfg.fresh]) (tmpDirOf cfg d) = true := by
      have := under_append (tmpDirOf cfg d) []
      simpa [tmpDirOf] using this
    simp only [h0, Bool.not_true, Bool.false_eq_true, if_false]
    apply List.filter_eq_self.mpr
    intro q hq
    have := hud q hq
    simp [tmpDirOf] at this ⊢
    exact this


end Skops.Fs
