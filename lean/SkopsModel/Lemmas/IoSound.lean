import SkopsModel.Io.Obligations
/-!
Soundness of the audit with respect to the construct trace (helper lemmas for C01/C03).
-/
namespace Skops.Io

variable (tbl : Table) (T : List String) (X : List String)

/-- the node passed its own check -/
def selfOK (kind : Nat) (mod cls : NameVal) (extra : List String) (kids : Kids) : Prop :=
  match (tbl.kind kind).selfCheck with
  | .standard => ∃ q, qual mod cls = some q ∧ q ∈ trustedOf tbl T kind extra
  | .fnSelf => qualFmt mod cls ∈ trustedOf tbl T kind extra
  | .fnContent mp cp =>
    ∃ j m c, kids.findRaw (mp.head?.getD "") = some j ∧ j.getPath? mp.tail = some (.str m) ∧
      j.getPath? cp.tail = some (.str c) ∧ (m ++ "." ++ c) ∈ trustedOf tbl T kind extra
  | .always => True
  | .unknown => False

mutual
/-- "the audit found nothing": every node that the walk reaches passed its own check -/
def Node.Safe : Node → Prop
  | .backref _ => True
  | .mk _ kind mod cls extra kids ref =>
    selfOK tbl T kind mod cls extra kids ∧ (audited (tbl.kind kind) = true → kids.Safe) ∧ ref.Safe
def Kids.Safe : Kids → Prop
  | .nil => True
  | .node _ _ _ n rest => n.Safe ∧ rest.Safe
  | .raw _ _ rest => rest.Safe
  | .absent _ rest => rest.Safe
  | .blob _ _ rest => rest.Safe
  | .synth _ _ mod cls extra rest =>
    (∃ q, qual mod cls = some q ∧ q ∈ T ++ extra ++ typeNodeDefaults tbl) ∧ rest.Safe
def Ref.Safe : Ref → Prop
  | .to n => n.Safe
  | .no => True
  | .missing => True
end

mutual
/-- every list of names handed down from ancestors is drawn from `X` -/
def Node.ExtrasIn : Node → Prop
  | .backref _ => True
  | .mk _ _ _ _ extra kids ref => (∀ x ∈ extra, x ∈ X) ∧ kids.ExtrasIn ∧ ref.ExtrasIn
def Kids.ExtrasIn : Kids → Prop
  | .nil => True
  | .node _ _ _ n rest => n.ExtrasIn ∧ rest.ExtrasIn
  | .raw _ _ rest => rest.ExtrasIn
  | .absent _ rest => rest.ExtrasIn
  | .blob _ _ rest => rest.ExtrasIn
  | .synth _ _ _ _ extra rest => (∀ x ∈ extra, x ∈ X) ∧ rest.ExtrasIn
def Ref.ExtrasIn : Ref → Prop
  | .to n => n.ExtrasIn
  | .no => True
  | .missing => True
end

mutual
def Node.NoRefs : Node → Prop
  | .backref _ => True
  | .mk _ _ _ _ _ kids ref => ref = .no ∧ kids.NoRefs
def Kids.NoRefs : Kids → Prop
  | .nil => True
  | .node _ _ _ n rest => n.NoRefs ∧ rest.NoRefs
  | .raw _ _ rest => rest.NoRefs
  | .absent _ rest => rest.NoRefs
  | .blob _ _ rest => rest.NoRefs
  | .synth _ _ _ _ _ rest => rest.NoRefs
end

/-- what "vouched for" means for one event: the name is in the caller's list, or among the names
trusted by default (`X`), or a fixed constructor; a class named by archive data is only looked up in
a module where the loader checks the documented base class before using it -/
def EventOK : Event → Prop
  | .resolve name _ _ => name ∈ T ∨ name ∈ X ∨ name ∈ fixedNames
  | .resolveIn m _ _ => ∃ base, (m, base) ∈ guardedModules
  | .getattr name _ _ => name ∈ T ∨ name ∈ X

def TracerOK (t : Tracer) : Prop :=
  ∀ st : TSt, (∀ e ∈ st.events, EventOK T X e) → ∀ e ∈ (t st).events, EventOK T X e

theorem qualFmt_of_qual {mod cls : NameVal} {q : String} (h : qual mod cls = some q) : qualFmt mod cls = q := by
  cases mod <;> cases cls <;> simp_all [qual, qualFmt, NameVal.py]

theorem allIdx_mem {α} (f : Nat → α → Bool) (i : Nat) (xs : List α) (h : allIdx f i xs = true) :
    ∀ x ∈ xs, ∃ j, f j x = true := by
  induction xs generalizing i with
  | nil => intro x hx; cases hx
  | cons y ys ih =>
    simp only [allIdx, Bool.and_eq_true] at h
    intro x hx
    cases hx with
    | head => exact ⟨i, h.1⟩
    | tail _ hm => exact ih (i + 1) h.2 x hm

theorem kind_uses_ok (hv : tbl.Vouched = true) (kind : Nat) :
    ∀ u ∈ (tbl.kind kind).uses, ∃ i, useOK (tbl.kind kind) i u = true := by
  unfold Table.kind
  by_cases hlt : kind < tbl.kinds.length
  · have hmem : tbl.kinds[kind] ∈ tbl.kinds := List.getElem_mem hlt
    have hok : KindSpec.ok tbl.kinds[kind] = true := by
      simp only [Table.Vouched, List.all_eq_true] at hv
      exact hv _ hmem
    simp only [List.getD_eq_getElem?_getD, List.getElem?_eq_getElem hlt, Option.getD_some]
    simp only [KindSpec.ok, Bool.and_eq_true] at hok
    exact allIdx_mem _ 0 _ hok.1.2
  · have : tbl.kinds[kind]? = none := List.getElem?_eq_none (by omega)
    simp [List.getD_eq_getElem?_getD, this]

theorem runSlot_ok (key : String) (ts : List (String × Tracer))
    (h : ∀ p ∈ ts, TracerOK T X p.2) : TracerOK T X (runSlot key ts) := by
  induction ts with
  | nil => intro st hst; simpa [runSlot] using hst
  | cons p rest ih =>
    obtain ⟨slot, t⟩ := p
    intro st hst
    have hrest : ∀ p ∈ rest, TracerOK T X p.2 := fun p hp => h p (List.mem_cons_of_mem _ hp)
    simp only [runSlot]
    split
    · exact ih hrest (t st) (h (slot, t) (List.mem_cons_self) st hst)
    · exact ih hrest st hst

theorem findSynth_safe (key : String) (m c : NameVal) :
    ∀ ks : Kids, ks.Safe tbl T → ks.ExtrasIn X → ks.findSynth key = some (m, c) →
    ∃ q extra, qual m c = some q ∧ q ∈ T ++ extra ++ typeNodeDefaults tbl ∧ ∀ x ∈ extra, x ∈ X
  | .nil, _, _, hf => by simp [Kids.findSynth] at hf
  | .node _ _ _ _ rest, hs, hx, hf => findSynth_safe key m c rest hs.2 hx.2 (by simpa [Kids.findSynth] using hf)
  | .raw _ _ rest, hs, hx, hf => findSynth_safe key m c rest hs hx (by simpa [Kids.findSynth] using hf)
  | .absent _ rest, hs, hx, hf => findSynth_safe key m c rest hs hx (by simpa [Kids.findSynth] using hf)
  | .blob _ _ rest, hs, hx, hf => findSynth_safe key m c rest hs hx (by simpa [Kids.findSynth] using hf)
  | .synth slot _ m' c' extra rest, hs, hx, hf => by
    simp only [Kids.findSynth] at hf
    split at hf
    · simp only [Option.some.injEq, Prod.mk.injEq] at hf
      obtain ⟨rfl, rfl⟩ := hf
      obtain ⟨q, hq1, hq2⟩ := hs.1
      exact ⟨q, extra, hq1, hq2, hx.1⟩
    · exact findSynth_safe key m c rest hs.2 hx.2 hf

/-- one `_construct`: every event it adds is vouched for -/
theorem runUses_ok (hXd : ∀ kind, ∀ x ∈ (tbl.kind kind).defaults, x ∈ X) (hXt : ∀ x ∈ typeNodeDefaults tbl, x ∈ X)
    (kind nid : Nat) (mod cls : NameVal) (extra : List String) (kids : Kids)
    (ts : List (String × Tracer)) (rt : Tracer)
    (hself : selfOK tbl T kind mod cls extra kids) (hextra : ∀ x ∈ extra, x ∈ X)
    (hkids : audited (tbl.kind kind) = true → kids.Safe tbl T ∧ ∀ p ∈ ts, TracerOK T X p.2)
    (hkx : kids.ExtrasIn X) (hrt : TracerOK T X rt) :
    ∀ us : List Use, (∀ u ∈ us, ∃ i, useOK (tbl.kind kind) i u = true) →
      TracerOK T X (runUses kind nid mod cls kids ts rt us) := by
  intro us
  induction us with
  | nil => intro _ st hst; simpa [runUses] using hst
  | cons u us ih =>
    intro hus st hst
    have hus' : ∀ u ∈ us, ∃ i, useOK (tbl.kind kind) i u = true := fun u hu => hus u (List.mem_cons_of_mem _ hu)
    obtain ⟨i, hu⟩ := hus u List.mem_cons_self
    have inTrusted : ∀ q, q ∈ trustedOf tbl T kind extra → q ∈ T ∨ q ∈ X := by
      intro q hq
      simp only [trustedOf] at hq
      split at hq
      · simp only [List.mem_append] at hq
        rcases hq with (h | h) | h
        · exact Or.inl h
        · exact Or.inr (hextra q h)
        · exact Or.inr (hXd kind q h)
      · exact Or.inr (hXd kind q hq)
    simp only [runUses]
    apply ih hus'
    -- the state after this use still only holds vouched events
    cases u with
    | resolve src =>
      cases src with
      | self =>
        simp only [srcEvent]
        intro e he
        simp only [List.mem_append, List.mem_singleton] at he
        rcases he with he | rfl
        · exact hst e he
        · simp only [useOK, Bool.or_eq_true, beq_iff_eq] at hu
          simp only [EventOK]
          rcases hu with hu | hu
          · simp only [selfOK, hu] at hself
            obtain ⟨q, hq1, hq2⟩ := hself
            rw [qualFmt_of_qual hq1]
            rcases inTrusted q hq2 with h | h
            · exact Or.inl h
            · exact Or.inr (Or.inl h)
          · simp only [selfOK, hu] at hself
            rcases inTrusted _ hself with h | h
            · exact Or.inl h
            · exact Or.inr (Or.inl h)
      | const m c =>
        simp only [srcEvent]
        intro e he
        simp only [List.mem_append, List.mem_singleton] at he
        rcases he with he | rfl
        · exact hst e he
        · simp only [useOK] at hu
          exact Or.inr (Or.inr (by simpa using hu))
      | child key =>
        simp only [srcEvent]
        cases hf : kids.findSynth key with
        | none => simpa using hst
        | some mc =>
          obtain ⟨m, c⟩ := mc
          simp only [useOK] at hu
          obtain ⟨hks, _⟩ := hkids hu
          obtain ⟨q, ex, hq1, hq2, hex⟩ := findSynth_safe tbl T X key m c kids hks hkx hf
          intro e he
          simp only [List.mem_append, List.mem_singleton] at he
          rcases he with he | rfl
          · exact hst e he
          · simp only [EventOK]
            rw [qualFmt_of_qual hq1]
            simp only [List.mem_append] at hq2
            rcases hq2 with (h | h) | h
            · exact Or.inl h
            · exact Or.inr (Or.inl (hex q h))
            · exact Or.inr (Or.inl (hXt q h))
      | rawPaths key mk ck =>
        simp only [useOK, beq_iff_eq] at hu
        simp only [selfOK, hu] at hself
        obtain ⟨j, m, c, hj, hm, hc, hin⟩ := hself
        simp only [List.head?_cons, Option.getD_some, List.tail_cons] at hj hm hc
        simp only [srcEvent, hj]
        have hm' : j.get? mk = some (.str m) := by
          simp only [J.getPath?] at hm
          cases hg : j.get? mk with
          | none => simp [hg] at hm
          | some v => simpa [hg] using hm
        have hc' : j.get? ck = some (.str c) := by
          simp only [J.getPath?] at hc
          cases hg : j.get? ck with
          | none => simp [hg] at hc
          | some v => simpa [hg] using hc
        simp only [hm', hc', pyStr]
        intro e he
        simp only [List.mem_append, List.mem_singleton] at he
        rcases he with he | rfl
        · exact hst e he
        · simp only [EventOK]
          rcases inTrusted _ hin with h | h
          · exact Or.inl h
          · exact Or.inr (Or.inl h)
      | rawIn m =>
        simp only [srcEvent]
        intro e he
        simp only [List.mem_append, List.mem_singleton] at he
        rcases he with he | rfl
        · exact hst e he
        · simp only [useOK, hasGuard, List.any_eq_true] at hu
          obtain ⟨g, _, hg⟩ := hu
          cases g with
          | guardSubclass j base =>
            simp only [Bool.and_eq_true] at hg
            exact ⟨base, by simpa using hg.2⟩
          | _ => simp at hg
      | unknown d => simp [useOK] at hu
    | kid key =>
      simp only []
      split
      · exact hrt st hst
      · rename_i hne
        simp only [useOK, Bool.or_eq_true, Bool.and_eq_true, beq_iff_eq] at hu
        rcases hu with hu | hu
        · exact runSlot_ok T X key ts (hkids hu).2 st hst
        · exact absurd hu.1 hne
    | getattrChild on attr =>
      simp only []
      intro e he
      simp only [List.mem_append, List.mem_singleton] at he
      rcases he with he | rfl
      · exact hst e he
      · simp only [useOK, Bool.and_eq_true] at hu
        have ha := hu.1
        simp only [audited, Bool.and_eq_true, beq_iff_eq] at ha
        simp only [selfOK, ha.1] at hself
        obtain ⟨q, hq1, hq2⟩ := hself
        simp only [EventOK]
        rw [qualFmt_of_qual hq1]
        exact inTrusted q hq2
    | callResolved _ => simpa using hst
    | callInstance _ => simpa using hst
    | callChildValue _ => simpa using hst
    | guardSubclass _ _ => simpa using hst
    | unknown _ => simpa using hst

mutual
theorem node_trace_ok (hv : tbl.Vouched = true)
    (hXd : ∀ kind, ∀ x ∈ (tbl.kind kind).defaults, x ∈ X) (hXt : ∀ x ∈ typeNodeDefaults tbl, x ∈ X) :
    ∀ n : Node, n.Safe tbl T → n.ExtrasIn X → TracerOK T X (n.trace tbl)
  | .backref _, _, _ => by intro st hst; simpa [Node.trace] using hst
  | .mk nid kind mod cls extra kids ref, hs, hx => by
    intro st hst
    simp only [Node.trace]
    split
    · exact hst
    · have hk := kids_tracers_ok hv hXd hXt kids
      have hr := ref_tracer_ok hv hXd hXt ref hs.2.2 hx.2.2
      have := runUses_ok tbl T X hXd hXt kind nid mod cls extra kids (kids.tracers tbl) (ref.tracer tbl)
        hs.1 hx.1 (fun ha => ⟨hs.2.1 ha, hk (hs.2.1 ha) hx.2.1⟩) hx.2.1 hr
        (tbl.kind kind).uses (kind_uses_ok tbl hv kind) st hst
      simpa using this
theorem kids_tracers_ok (hv : tbl.Vouched = true)
    (hXd : ∀ kind, ∀ x ∈ (tbl.kind kind).defaults, x ∈ X) (hXt : ∀ x ∈ typeNodeDefaults tbl, x ∈ X) :
    ∀ ks : Kids, ks.Safe tbl T → ks.ExtrasIn X → ∀ p ∈ ks.tracers tbl, TracerOK T X p.2
  | .nil, _, _ => by intro p hp; simp [Kids.tracers] at hp
  | .node slot _ _ n rest, hs, hx => by
    intro p hp
    simp only [Kids.tracers, List.mem_cons] at hp
    rcases hp with rfl | hp
    · exact node_trace_ok hv hXd hXt n hs.1 hx.1
    · exact kids_tracers_ok hv hXd hXt rest hs.2 hx.2 p hp
  | .raw _ _ rest, hs, hx => by simpa [Kids.tracers] using kids_tracers_ok hv hXd hXt rest hs hx
  | .absent _ rest, hs, hx => by simpa [Kids.tracers] using kids_tracers_ok hv hXd hXt rest hs hx
  | .blob _ _ rest, hs, hx => by simpa [Kids.tracers] using kids_tracers_ok hv hXd hXt rest hs hx
  | .synth _ _ _ _ _ rest, hs, hx => by simpa [Kids.tracers] using kids_tracers_ok hv hXd hXt rest hs.2 hx.2
theorem ref_tracer_ok (hv : tbl.Vouched = true)
    (hXd : ∀ kind, ∀ x ∈ (tbl.kind kind).defaults, x ∈ X) (hXt : ∀ x ∈ typeNodeDefaults tbl, x ∈ X) :
    ∀ r : Ref, r.Safe tbl T → r.ExtrasIn X → TracerOK T X (r.tracer tbl)
  | .to n, hs, hx => by simpa [Ref.tracer] using node_trace_ok hv hXd hXt n hs hx
  | .no, _, _ => by intro st hst; simpa [Ref.tracer] using hst
  | .missing, _, _ => by intro st hst; simpa [Ref.tracer] using hst
end

end Skops.Io
