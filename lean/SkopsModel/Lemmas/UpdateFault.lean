import SkopsModel.Fs.Fault
import SkopsModel.Lemmas.Update
/-!
# `skops update` when one file operation fails with an I/O error: lemmas for `Properties/C16.lean`
-/
namespace Skops.Fs

theorem doOpsF_none (ops : List Op) (w : World) : doOpsF w none ops = (doOps w ops, none) := by
  induction ops generalizing w with
  | nil => simp [doOpsF, doOps]
  | cons op rest ih =>
    simp only [doOpsF, doOps, Option.map_none]
    cases step w.fs op with
    | ok fs' => simp only; rw [ih]
    | error e => rfl

mutual
theorem execSF_none (cfg : Cfg) : ∀ (s : Stmt) (w : World), execSF cfg s w none = (execS cfg s w, none)
  | .ite c t e, w => by
      simp only [execSF, execS]
      split
      · exact execLF_none cfg t w
      · exact execLF_none cfg e w
  | .withTmpDir beside body, w => by
      simp only [execSF, execS]
      generalize (if beside = true then Option.map (fun d => Path.resolve cfg.cwd d.parent) w.dest else some cfg.sysTmp) = base
      cases base with
      | none => rfl
      | some b =>
        simp only [doOpsF_none]
        cases hmk : doOps w [Op.mkdir (b ++ [cfg.fresh])] with
        | mk w1 s1 =>
          cases s1 with
          | next =>
            simp only
            rw [execLF_none cfg body]
            -- the removal of a tree never fails in the model
            simp only [doOpsF_none, doOps, step]
          | ret => rfl
          | raised e => rfl
  | .dumpTmp, w => by
      simp only [execSF, execS]
      cases w.tmp with
      | none => rfl
      | some t => by_cases hd : cfg.dumpable = true <;> simp [hd, doOpsF_none]
  | .replaceTmpDest, w => by
      simp only [execSF, execS]
      cases w.tmp with
      | none => rfl
      | some t =>
        cases w.dest with
        | none => rfl
        | some d => simp [doOpsF_none]
  | .moveTmpDest, w => by
      simp only [execSF, execS]
      cases w.tmp with
      | none => rfl
      | some t =>
        cases w.tmpDir with
        | none => rfl
        | some td =>
          cases w.output with
          | none => rfl
          | some o =>
            simp only [doOpsF_none]
            repeat' split
            all_goals rfl
  | .writeOutput, w => by
      simp only [execSF, execS]
      cases w.output with
      | none => rfl
      | some o =>
        cases w.buffer with
        | none => rfl
        | some b => simp [doOpsF_none]
  | .writeSinkPath, w => by
      simp only [execSF, execS]
      cases w.output with
      | none => rfl
      | some o =>
        cases w.buffer with
        | none => rfl
        | some b => simp [doOpsF_none]
  | .raise _, _ => rfl
  | .ret, _ => rfl
  | .log _, _ => rfl
  | .outputGetsInput, _ => rfl
  | .loadInput, _ => rfl
  | .readProtocol, _ => rfl
  | .destGetsOutput, _ => rfl
  | .tmpGets _, _ => rfl
  | .unpickle, _ => rfl
  | .dumpsObj, _ => rfl
  | .inspectDump, _ => rfl
  | .saveBuffer, _ => rfl
  | .writeSinkFile, _ => rfl
  | .returnBytes, _ => rfl
  | .defaultOutput, _ => rfl
  | .unknown _, _ => rfl

theorem execLF_none (cfg : Cfg) : ∀ (p : List Stmt) (w : World), execLF cfg p w none = (execL cfg p w, none)
  | [], w => rfl
  | s :: rest, w => by
      simp only [execLF, execL]
      rw [execSF_none cfg s w]
      cases h : execS cfg s w with
      | mk w' sig =>
        cases sig with
        | next => exact execLF_none cfg rest w'
        | ret => rfl
        | raised e => rfl
end

/-- without a countdown the fault interpreter is the interpreter of `Prog.lean` -/
theorem runF_none (main inner : List Stmt) (cfg : Cfg) (fs : FS) :
    runF main inner cfg fs none = (run main inner cfg fs, none) := by
  unfold runF run
  rw [execLF_none]
  cases h : execL cfg main { fs := fs, output := cfg.output } with
  | mk w sig =>
    cases sig with
    | next => exact execLF_none cfg inner w
    | ret => rfl
    | raised e => rfl

end Skops.Fs

namespace Skops.Fs

theorem execLF_append (cfg : Cfg) (a b : List Stmt) (w : World) (k : Option Nat) :
    execLF cfg (a ++ b) w k = match execLF cfg a w k with
      | ((w', .next), k') => execLF cfg b w' k'
      | r => r := by
  induction a generalizing w k with
  | nil => simp [execLF]
  | cons s rest ih =>
    simp only [List.cons_append, execLF]
    cases h : execSF cfg s w k with
    | mk r k1 =>
      obtain ⟨w1, sig⟩ := r
      cases sig with
      | next => simp only; exact ih w1 k1
      | ret => rfl
      | raised e => rfl

/-- the guards of `_update_file` perform no file operation: the countdown passes through them -/
theorem guards_passF (cfg : Cfg) (fs : FS) (d : Path) (hdest : destOf cfg = some d) (hproto : cfg.proto < cfg.cur)
    (hload : cfg.loadable = true) (k : Option Nat) :
    execLF cfg updateGuards { fs := fs, output := cfg.output } k =
      (({ fs := fs, output := some d, dest := some d }, .next), k) := by
  have hne : (cfg.proto == cfg.cur) = false := by simp; omega
  have hng : ¬ (cfg.proto > cfg.cur) := by omega
  unfold destOf at hdest
  unfold updateGuards
  by_cases hi : cfg.inplace = true
  · simp only [hi, if_true] at hdest
    cases ho : cfg.output with
    | some o => simp [ho] at hdest
    | none =>
      simp [ho] at hdest
      simp [execLF, execSF, execS, Cond.eval, hi, hload, hne, hng, hdest]
  · have hi' : cfg.inplace = false := by simpa using hi
    simp only [hi', Bool.false_eq_true, if_false] at hdest
    simp [execLF, execSF, execS, Cond.eval, hi', hdest, hload, hne, hng]

/-- a list of operations that all succeed: with a countdown below its length the run stops there, having performed
exactly the operations before it; otherwise it is the plain run and the countdown is reduced by the length -/
theorem doOpsF_of_ok (ops : List Op) : ∀ (w w' : World) (k : Nat), doOps w ops = (w', .next) →
    (k < ops.length → ∃ w'', doOpsF w (some k) ops = ((w'', .raised "OSError"), none) ∧
        w''.fs = applyAll w.fs (ops.take k)) ∧
    (ops.length ≤ k → doOpsF w (some k) ops = ((w', .next), some (k - ops.length))) := by
  induction ops with
  | nil =>
    intro w w' k h
    simp only [doOps, Prod.mk.injEq] at h
    obtain ⟨rfl, _⟩ := h
    simp [doOpsF]
  | cons op rest ih =>
    intro w w' k h
    simp only [doOps] at h
    cases hs : step w.fs op with
    | error e => rw [hs] at h; simp at h
    | ok fs' =>
      rw [hs] at h
      simp only at h
      cases k with
      | zero =>
        constructor
        · intro _
          exact ⟨w, by simp [doOpsF], by simp [applyAll]⟩
        · intro hl; simp at hl
      | succ j =>
        have := ih { w with fs := fs', trace := w.trace ++ [op] } w' j h
        constructor
        · intro hl
          obtain ⟨w'', h1, h2⟩ := this.1 (by simpa using hl)
          refine ⟨w'', ?_, ?_⟩
          · simp only [doOpsF, hs, Option.map_some, Nat.add_sub_cancel]
            exact h1
          · simp only [List.take_succ_cons, applyAll, hs]
            exact h2
        · intro hl
          have h1 := this.2 (by simpa using hl)
          simp only [doOpsF, hs, Option.map_some, Nat.add_sub_cancel, List.length_cons]
          rw [h1]
          congr 2
          omega

end Skops.Fs

namespace Skops.Fs

/-- operations that only create or extend files below `d` -/
def belowOnly (d : RPath) : Op → Bool
  | .create p => under d p
  | .append p _ => under d p
  | _ => false

theorem filter_put_under (d : RPath) (X : FS) (p : RPath) (b : Bytes) (hp : under d p = true) :
    (X.put p b).files.filter (fun e => !under d e.1) = X.files.filter (fun e => !under d e.1) := by
  unfold FS.put
  simp only [List.filter_cons, hp, Bool.not_true, Bool.false_eq_true, if_false, List.filter_filter]
  apply List.filter_congr
  intro e _
  cases hu : under d e.1 with
  | true => simp
  | false =>
    have : (e.1 == p) = false := by
      cases hc : e.1 == p with
      | false => rfl
      | true =>
        have : e.1 = p := by simpa using hc
        rw [this, hp] at hu
        cases hu
    simp [this]

theorem step_below (d : RPath) (X Y : FS) (op : Op) (hop : belowOnly d op = true) (hs : step X op = .ok Y) :
    Y.dirs = X.dirs ∧ Y.files.filter (fun e => !under d e.1) = X.files.filter (fun e => !under d e.1) := by
  cases op with
  | create p =>
    simp only [belowOnly] at hop
    simp only [step] at hs
    split at hs
    · cases hs
    · split at hs
      · cases hs
      · cases hs
        exact ⟨rfl, filter_put_under d X p [] hop⟩
  | append p b =>
    simp only [belowOnly] at hop
    simp only [step] at hs
    split at hs
    · cases hs
      exact ⟨rfl, filter_put_under d X p _ hop⟩
    · cases hs
  | mkdir _ => simp [belowOnly] at hop
  | replace _ _ => simp [belowOnly] at hop
  | unlink _ => simp [belowOnly] at hop
  | rmtree _ => simp [belowOnly] at hop

theorem applyAll_below (d : RPath) (ops : List Op) (hops : ∀ op ∈ ops, belowOnly d op = true) (X : FS) :
    (applyAll X ops).dirs = X.dirs ∧
    (applyAll X ops).files.filter (fun e => !under d e.1) = X.files.filter (fun e => !under d e.1) := by
  induction ops generalizing X with
  | nil => simp [applyAll]
  | cons op rest ih =>
    have hrest : ∀ o ∈ rest, belowOnly d o = true := fun o ho => hops o (List.mem_cons_of_mem _ ho)
    simp only [applyAll]
    cases hs : step X op with
    | error e => exact ih hrest X
    | ok Y =>
      obtain ⟨h1, h2⟩ := step_below d X Y op (hops op List.mem_cons_self) hs
      obtain ⟨h3, h4⟩ := ih hrest Y
      exact ⟨h3.trans h1, h4.trans h2⟩

theorem writeOps_below (d t : RPath) (chunks : List Bytes) (ht : under d t = true) :
    ∀ op ∈ writeOps t chunks, belowOnly d op = true := by
  intro op hop
  unfold writeOps at hop
  simp only [List.mem_cons, List.mem_map] at hop
  rcases hop with rfl | ⟨b, _, rfl⟩ <;> simpa [belowOnly] using ht

/-- removing the temporary directory from any state that differs from `fs` only below it (and by the directory
itself) gives back `fs`, as far as reading files and listing directories can tell -/
theorem cleaned (cfg : Cfg) (fs : FS) (d : Path) (h : WriteHyp cfg fs d) (Z : FS)
    (hd : Z.dirs = tmpDirOf cfg d :: fs.dirs)
    (hf : Z.files.filter (fun e => !under (tmpDirOf cfg d) e.1) = fs.files.filter (fun e => !under (tmpDirOf cfg d) e.1)) :
    (∀ q, (FS.mk (Z.dirs.filter (fun q => !under (tmpDirOf cfg d) q))
                 (Z.files.filter (fun e => !under (tmpDirOf cfg d) e.1))).read q = fs.read q) ∧
    Z.dirs.filter (fun q => !under (tmpDirOf cfg d) q) = fs.dirs := by
  constructor
  · intro q
    rw [hf, read_filter _ fs.files (fun r => !under (tmpDirOf cfg d) r)]
    cases hu : under (tmpDirOf cfg d) q with
    | true =>
      simp only [Bool.not_true, Bool.false_eq_true, if_false]
      exact (h.hunderF q hu).symm
    | false => simp [FS.read]
  · rw [hd]
    have h0 : under (tmpDirOf cfg d) (tmpDirOf cfg d) = true := by
      simpa using under_append (tmpDirOf cfg d) []
    simp only [List.filter_cons, h0, Bool.not_true, Bool.false_eq_true, if_false]
    apply List.filter_eq_self.mpr
    intro q hq
    have := h.hunderD q hq
    simp only [tmpDirOf]
    simp [this]

end Skops.Fs

namespace Skops.Fs

theorem afterDump_dirs (cfg : Cfg) (fs : FS) (d : Path) : (afterDump cfg fs d).dirs = tmpDirOf cfg d :: fs.dirs := rfl

theorem tmp_under (cfg : Cfg) (d : Path) : under (tmpDirOf cfg d) (tmpOf cfg d) = true := under_append _ _

theorem afterDump_files (cfg : Cfg) (fs : FS) (d : Path) :
    (afterDump cfg fs d).files.filter (fun e => !under (tmpDirOf cfg d) e.1) =
      fs.files.filter (fun e => !under (tmpDirOf cfg d) e.1) := by
  unfold afterDump
  rw [filter_put_under _ _ _ _ (tmp_under cfg d)]
  rfl

/-- **one file operation of `skops update` fails with an I/O error** (operation number `k`, counted over the run:
`mkdir`, `create`, one `append` per chunk, `replace`, `rmtree`).  Before the removal of the temporary directory
(`k < n + 3`): the command raises, every path reads as before and the directories are as before.  The removal
itself (`k = n + 3`): the command raises after the destination was replaced; the state is the one after the
replace.  Later than the last operation: the run is the clean run. -/
theorem update_fault (cfg : Cfg) (fs : FS) (d : Path) (h : WriteHyp cfg fs d) (k : Nat) :
    ∃ w sig ko, runF updateMainProg updateProg cfg fs (some k) = ((w, sig), ko) ∧
      (k < cfg.chunks.length + 3 → sig = .raised "OSError" ∧ (∀ q, w.fs.read q = fs.read q) ∧ w.fs.dirs = fs.dirs) ∧
      (k = cfg.chunks.length + 3 → sig = .raised "OSError" ∧ w.fs = afterReplace cfg fs d) ∧
      (cfg.chunks.length + 3 < k → sig = .next ∧ w.fs = afterCleanup cfg fs d) := by
  have h' := h
  obtain ⟨hdest, hparts, hproto, hload, hdump, hpar, hnd, hfn, hfd, hff, huf, hud⟩ := h
  have hD := resolve_split cfg.cwd d hparts
  unfold runF updateMainProg
  simp only [execLF]
  rw [updateProg_split, execLF_append, guards_passF cfg fs d hdest hproto hload]
  unfold updateWrite
  simp only [execLF, execSF, execS]
  simp only [if_true, Option.map_some, resolve_parent cfg.cwd d hparts, tmp_path, hdump]
  cases k with
  | zero =>
    -- the creation of the temporary directory fails: nothing happened
    refine ⟨_, _, _, by simp only [doOpsF]; rfl, ?_, ?_, ?_⟩
    · intro _; exact ⟨rfl, fun _ => rfl, rfl⟩
    · intro hk; omega
    · intro hk; omega
  | succ j =>
    have hmk : doOpsF { fs := fs, output := some d, dest := some d } (some (j + 1)) [Op.mkdir ((d.resolve cfg.cwd).dropLast ++ [cfg.fresh])]
        = (({ fs := afterMkdir cfg fs d, trace := [Op.mkdir (tmpDirOf cfg d)], output := some d, dest := some d }, .next), some j) := by
      simp [doOpsF, step, hpar, hfd, hff, afterMkdir, tmpDirOf]
    rw [hmk]
    simp only
    have ht1 : (afterMkdir cfg fs d).isDir (tmpOf cfg d).dropLast = true := by
      simp [afterMkdir, tmpOf, FS.isDir]
    have ht2 : (afterMkdir cfg fs d).isDir (tmpOf cfg d) = false := by
      simp only [afterMkdir, FS.isDir, List.contains_cons, Bool.or_eq_false_iff]
      constructor
      · simp [tmpOf]
      · cases hc : fs.dirs.contains (tmpOf cfg d) with
        | false => rfl
        | true =>
          have hm : tmpOf cfg d ∈ fs.dirs := by simpa using hc
          have := hud _ hm
          rw [show tmpOf cfg d = tmpDirOf cfg d ++ [d.name ++ ".tmp"] from rfl] at this
          rw [show (d.resolve cfg.cwd).dropLast ++ [cfg.fresh] = tmpDirOf cfg d from rfl, under_append] at this
          cases this
    have hw := doOps_writeOps cfg.chunks
      { fs := afterMkdir cfg fs d, trace := [Op.mkdir (tmpDirOf cfg d)], output := some d, dest := some d,
        tmpDir := some (tmpDirOf cfg d), tmp := some (tmpOf cfg d) } (tmpOf cfg d) ht1 ht2
    have hlen : (writeOps (tmpOf cfg d) cfg.chunks).length = cfg.chunks.length + 1 := by simp [writeOps]
    obtain ⟨hlt, hge⟩ := doOpsF_of_ok _ _ _ j hw
    simp only [tmpOf, tmpDirOf] at hw hlt hge hlen ⊢
    by_cases hj : j < cfg.chunks.length + 1
    · -- the write of the temporary file fails part way: the directory is removed again
      obtain ⟨w'', hrun, hfs⟩ := hlt (by rw [hlen]; exact hj)
      rw [hrun]
      simp only [doOpsF, step]
      refine ⟨_, _, _, rfl, ?_, ?_, ?_⟩
      · intro _
        have hinv := applyAll_below (tmpDirOf cfg d) ((writeOps (tmpOf cfg d) cfg.chunks).take j)
          (fun op hop => writeOps_below _ _ _ (tmp_under cfg d) op (List.mem_of_mem_take hop)) (afterMkdir cfg fs d)
        have hcl := cleaned cfg fs d h' w''.fs
          (by rw [hfs]; exact hinv.1)
          (by rw [hfs]; exact hinv.2)
        exact ⟨rfl, hcl.1, hcl.2⟩
      · intro hk; omega
      · intro hk; omega
    · have hj' : cfg.chunks.length + 1 ≤ j := by omega
      rw [hge (by rw [hlen]; exact hj')]
      simp only [hlen]
      -- the atomic replace
      have hne : (d.resolve cfg.cwd).dropLast ++ [cfg.fresh] ≠ d.resolve cfg.cwd := by
        intro heq
        rw [hD] at heq
        simp at heq
        exact hfn heq
      have hr1 : (afterMkdir cfg fs d).isDir (d.resolve cfg.cwd).dropLast = true := by
        simp [afterMkdir, FS.isDir] at hpar ⊢
        exact Or.inr hpar
      have hr2 : (afterMkdir cfg fs d).isDir (d.resolve cfg.cwd) = false := by
        simp only [afterMkdir, FS.isDir, List.contains_cons, Bool.or_eq_false_iff]
        refine ⟨?_, hnd⟩
        simp only [tmpDirOf, beq_eq_false_iff_ne, ne_eq]
        exact fun h => hne h.symm
      cases hi : j - (cfg.chunks.length + 1) with
      | zero =>
        -- the replace fails: the complete temporary file is removed with its directory
        simp only [doOpsF, step]
        refine ⟨_, _, _, rfl, ?_, ?_, ?_⟩
        · intro _
          have hcl := cleaned cfg fs d h' (afterDump cfg fs d) (afterDump_dirs cfg fs d) (afterDump_files cfg fs d)
          exact ⟨rfl, hcl.1, hcl.2⟩
        · intro hk; omega
        · intro hk; omega
      | succ i =>
        simp only [doOpsF, step, read_put_same, isDir_put, hr1, hr2, Option.map_some, Nat.add_sub_cancel]
        simp only [Bool.not_true, Bool.false_eq_true, if_false]
        cases i with
        | zero =>
          -- the removal of the temporary directory fails, after the destination was replaced
          refine ⟨_, _, _, rfl, ?_, ?_, ?_⟩
          · intro hk; omega
          · intro _
            refine ⟨rfl, ?_⟩
            simp [afterReplace, afterDump, tmpOf, tmpDirOf]
          · intro hk; omega
        | succ i' =>
          refine ⟨_, _, _, rfl, ?_, ?_, ?_⟩
          · intro hk; omega
          · intro hk; omega
          · intro _
            refine ⟨rfl, ?_⟩
            simp [afterCleanup, afterReplace, afterDump, tmpOf, tmpDirOf]

end Skops.Fs
