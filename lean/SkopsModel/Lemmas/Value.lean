import SkopsModel.Io.Value
/-! Round trip of the value layer (helper lemmas for C04/C05). -/
namespace Skops.Io.Value

theorem restore_text (k : Key) : restoreKey k.ty k.text = k := by
  cases k <;> simp [restoreKey, Key.ty, Key.text, boolText]
  all_goals (rename_i b; cases b <;> simp)

mutual
/-- no dict anywhere inside holds a `property` object as a value -/
def PyVal.NoProperty : PyVal → Prop
  | .scalar _ => True
  | .list _ xs => xs.NoProperty
  | .tuple xs => xs.NoProperty
  | .namedtuple _ xs => xs.NoProperty
  | .tupleSub _ xs => xs.NoProperty
  | .set _ xs => xs.NoProperty
  | .frozenset xs => xs.NoProperty
  | .dict _ es => es.NoProperty
  | .opaque _ _ => True
  | .objarray _ cells => cells.NoProperty
  | .obj _ state => state.NoProperty
  | .property => True
  | .unsupported _ => True
def PyVals.NoProperty : PyVals → Prop
  | .nil => True
  | .cons x xs => x.NoProperty ∧ xs.NoProperty
def PyEntries.NoProperty : PyEntries → Prop
  | .nil => True
  | .cons _ v rest => v.isProperty = false ∧ v.NoProperty ∧ rest.NoProperty
end

mutual
/-- class tags are consistent with the constructor they sit in (what the harness encoder guarantees) -/
def PyVal.WF : PyVal → Prop
  | .scalar _ => True
  | .list _ xs => xs.WF
  | .tuple xs => xs.WF
  | .namedtuple cls xs => cls.startsWith "nt:" = true ∧ cls ≠ "builtins.tuple" ∧ xs.WF
  | .tupleSub cls xs => cls.startsWith "nt:" = false ∧ cls ≠ "builtins.tuple" ∧ xs.WF
  | .set _ xs => xs.WF
  | .frozenset xs => xs.WF
  | .dict cls es =>
    (match cls with
     | .sub c => c ≠ "builtins.dict" ∧ c ≠ "collections.OrderedDict"
     | _ => True) ∧ es.WF
  | .opaque _ _ => True
  | .objarray _ cells => cells.WF
  | .obj _ state => state.WF
  | .property => True
  | .unsupported _ => True
def PyVals.WF : PyVals → Prop
  | .nil => True
  | .cons x xs => x.WF ∧ xs.WF
def PyEntries.WF : PyEntries → Prop
  | .nil => True
  | .cons _ v rest => v.WF ∧ rest.WF
end

theorem kept_of_noProperty : ∀ es : PyEntries, es.NoProperty → es.kept = es
  | .nil, _ => rfl
  | .cons k v rest, h => by
    simp only [PyEntries.kept, h.1, Bool.false_eq_true, if_false]
    rw [kept_of_noProperty rest h.2.2]

mutual
theorem roundtrip_val : ∀ (v : PyVal) (s : Sch), v.WF → v.NoProperty → encode v = some s → decode s = some v
  | .scalar _, s, _, _, h => by simp [encode] at h; subst h; simp [decode]
  | .list cls xs, s, hw, hn, h => by
    simp only [encode, Option.map_eq_some_iff] at h
    obtain ⟨items, hi, rfl⟩ := h
    simp [decode, roundtrip_all xs items hw hn hi]
  | .tuple xs, s, hw, hn, h => by
    simp only [encode, Option.map_eq_some_iff] at h
    obtain ⟨items, hi, rfl⟩ := h
    simp [decode, roundtrip_all xs items hw hn hi]
  | .namedtuple cls xs, s, hw, hn, h => by
    simp only [encode, Option.map_eq_some_iff] at h
    obtain ⟨items, hi, rfl⟩ := h
    simp [decode, roundtrip_all xs items hw.2.2 hn hi, hw.1, hw.2.1]
  | .tupleSub cls xs, s, hw, hn, h => by
    simp only [encode, Option.map_eq_some_iff] at h
    obtain ⟨items, hi, rfl⟩ := h
    simp [decode, roundtrip_all xs items hw.2.2 hn hi, hw.1, hw.2.1]
  | .set cls xs, s, hw, hn, h => by
    simp only [encode, Option.map_eq_some_iff] at h
    obtain ⟨items, hi, rfl⟩ := h
    simp [decode, roundtrip_all xs items hw hn hi]
  | .frozenset xs, s, hw, hn, h => by
    simp only [encode, Option.map_eq_some_iff] at h
    obtain ⟨items, hi, rfl⟩ := h
    simp [decode, decodeAll, roundtrip_all xs items hw hn hi]
  | .dict cls es, s, hw, hn, h => by
    simp only [encode, kept_of_noProperty es hn] at h
    split at h
    · cases hc : encodeEntries es with
      | none => simp [hc] at h
      | some content =>
        simp only [hc] at h
        have hd := roundtrip_entries es content hw.2 hn hc
        cases cls with
        | dict => simp at h; subst h; simp [decode, hd]
        | ordered => simp at h; subst h; simp [decode, hd]
        | sub c =>
          simp at h; subst h
          have := hw.1
          simp only [] at this
          simp [decode, hd, this.1, this.2]
        | default c f => simp at h; subst h; simp [decode, hd]
    · cases h
  | .opaque _ _, s, _, _, h => by simp [encode] at h; subst h; simp [decode]
  | .objarray shape cells, s, hw, hn, h => by
    simp only [encode] at h
    split at h
    · cases h
    · split at h
      · simp only [Option.map_eq_some_iff] at h
        obtain ⟨items, hi, rfl⟩ := h
        simp [decode, roundtrip_all cells items hw hn hi]
      · cases h
  | .obj cls state, s, hw, hn, h => by
    simp only [encode, Option.map_eq_some_iff] at h
    obtain ⟨c, hc, rfl⟩ := h
    simp [decode, roundtrip_val state c hw hn hc]
  | .property, _, _, _, h => by simp [encode] at h
  | .unsupported _, _, _, _, h => by simp [encode] at h
theorem roundtrip_all : ∀ (xs : PyVals) (ss : Schs), xs.WF → xs.NoProperty → encodeAll xs = some ss → decodeAll ss = some xs
  | .nil, ss, _, _, h => by simp [encodeAll] at h; subst h; simp [decodeAll]
  | .cons x xs, ss, hw, hn, h => by
    simp only [encodeAll] at h
    cases hx : encode x with
    | none => simp [hx] at h
    | some a =>
      cases hxs : encodeAll xs with
      | none => simp [hx, hxs] at h
      | some b =>
        simp [hx, hxs] at h; subst h
        simp [decodeAll, roundtrip_val x a hw.1 hn.1 hx, roundtrip_all xs b hw.2 hn.2 hxs]
theorem roundtrip_entries : ∀ (es : PyEntries) (content : SchEntries), es.WF → es.NoProperty →
    encodeEntries es = some content → decodeEntries (es.keys.map Key.ty) content = some es
  | .nil, c, _, _, h => by simp [encodeEntries] at h; subst h; simp [decodeEntries, PyEntries.keys]
  | .cons k v rest, c, hw, hn, h => by
    simp only [encodeEntries, hn.1, Bool.false_eq_true, if_false] at h
    cases hv : encode v with
    | none => simp [hv] at h
    | some a =>
      cases hr : encodeEntries rest with
      | none => simp [hv, hr] at h
      | some b =>
        simp [hv, hr] at h; subst h
        simp [decodeEntries, PyEntries.keys, roundtrip_val v a hw.1 hn.2.1 hv,
          roundtrip_entries rest b hw.2 hn.2.2 hr, restore_text]
end

end Skops.Io.Value
