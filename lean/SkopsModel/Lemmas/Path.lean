import SkopsModel.Card.Path
/-! Helper lemmas: `splitImpl = splitSpec`. -/
namespace Skops.Card
open Skops

theorem rstripBy_cons_of_not {α} (p : α → Bool) (c : α) (cs : List α) (h : p c = false) :
    rstripBy p (c :: cs) = c :: rstripBy p cs := by
  simp only [rstripBy]
  cases rstripBy p cs <;> simp [h]

theorem tokenize_lit (rest : List Char) : tokenize ('\\' :: '/' :: rest) = .lit :: tokenize rest := by
  simp [tokenize]

theorem tokenize_sep (rest : List Char) : tokenize ('/' :: rest) = .sep :: tokenize rest := by
  simp [tokenize]

theorem tokenize_ch (c : Char) (xs : List Char) (h1 : c ≠ '/') (h2 : c = '\\' → ∀ t, xs ≠ '/' :: t) :
    tokenize (c :: xs) = .ch c :: tokenize xs :=
  tokenize.eq_3 c xs (fun t e ht => h2 e t ht) (fun e => h1 e)

theorem tokenize_ne_nil (c : Char) (cs : List Char) : tokenize (c :: cs) ≠ [] := by
  by_cases h1 : c = '/'
  · subst h1; simp [tokenize.eq_2]
  · by_cases h2 : c = '\\' ∧ ∃ t, cs = '/' :: t
    · obtain ⟨rfl, t, rfl⟩ := h2; simp [tokenize.eq_1]
    · rw [tokenize_ch c cs h1 (fun e t ht => h2 ⟨e, t, ht⟩)]; simp

theorem unescape_eq (q : List Char) : (tokenize q).map renderTok = unescape q := by
  fun_induction tokenize q with
  | case1 rest ih => simp [unescape.eq_1, renderTok, ih]
  | case2 rest ih =>
    rw [unescape.eq_2 '/' rest (fun _ e => by simp at e)]
    simp [renderTok, ih]
  | case3 c rest h1 h2 ih =>
    rw [unescape.eq_2 c rest h1]
    simp [renderTok, ih]
  | case4 => simp [unescape]

theorem space_ne_backslash (c : Char) (h : pySpace c = true) : c ≠ '\\' := by
  intro e; subst e; simp [backslash_not_space] at h

theorem space_ne_slash (c : Char) (h : pySpace c = true) : c ≠ '/' := by
  intro e; subst e; simp [slash_not_space] at h

theorem tokenize_space (c : Char) (xs : List Char) (h : pySpace c = true) :
    tokenize (c :: xs) = .ch c :: tokenize xs :=
  tokenize_ch c xs (space_ne_slash c h) (fun e => absurd e (space_ne_backslash c h))

/-- the first token of a non-space-initial string is not a space token -/
theorem head_tok_not_space (c : Char) (xs : List Char) (h : pySpace c = false) :
    ∃ t ts, tokenize (c :: xs) = t :: ts ∧ tokSpace t = false := by
  unfold tokenize
  split
  · exact ⟨_, _, rfl, rfl⟩
  · exact ⟨_, _, rfl, rfl⟩
  · rename_i heq
    simp only [List.cons.injEq] at heq
    obtain ⟨rfl, rfl⟩ := heq
    exact ⟨_, _, rfl, by simpa [tokSpace] using h⟩
  · rename_i heq; cases heq

theorem tokenize_dropWhile (p : List Char) :
    tokenize (p.dropWhile pySpace) = (tokenize p).dropWhile tokSpace := by
  induction p with
  | nil => simp [tokenize]
  | cons c cs ih =>
    by_cases h : pySpace c = true
    · simp [List.dropWhile, h, tokenize_space c cs h, tokSpace, ih]
    · have h' : pySpace c = false := by simpa using h
      obtain ⟨t, ts, ht, hs⟩ := head_tok_not_space c cs h'
      simp [List.dropWhile, h', ht, hs]

theorem tokenize_rstrip (p : List Char) :
    tokenize (rstripBy pySpace p) = rstripBy tokSpace (tokenize p) := by
  fun_induction tokenize p with
  | case1 rest ih =>
    rw [rstripBy_cons_of_not _ _ _ backslash_not_space, rstripBy_cons_of_not _ _ _ slash_not_space,
      tokenize_lit, ih, rstripBy_cons_of_not _ _ _ (by rfl)]
  | case2 rest ih =>
    rw [rstripBy_cons_of_not _ _ _ slash_not_space, tokenize_sep, ih, rstripBy_cons_of_not _ _ _ (by rfl)]
  | case3 c rest h1 h2 ih =>
    by_cases hs : pySpace c = true
    · -- a space: kept iff something non-space follows
      simp only [rstripBy]
      rw [← ih]
      cases hr : rstripBy pySpace rest with
      | nil => simp [hs, tokenize, tokSpace]
      | cons d ds =>
        have hne := tokenize_ne_nil d ds
        rw [tokenize_space c (d :: ds) hs]
        cases ht : tokenize (d :: ds) with
        | nil => exact absurd ht hne
        | cons a b => simp
    · have hs' : pySpace c = false := by simpa using hs
      rw [rstripBy_cons_of_not _ _ _ hs', rstripBy_cons_of_not _ _ _ (by simpa [tokSpace] using hs'), ← ih]
      -- `c :: rstrip rest` still does not start an escape: rstrip keeps the head of `rest`
      apply tokenize_ch
      · intro e; exact h2 e
      · intro e t ht
        subst e
        cases rest with
        | nil => simp [rstripBy] at ht
        | cons d ds =>
          by_cases hd : pySpace d = true
          · have : d ≠ '/' := space_ne_slash d hd
            simp only [rstripBy] at ht
            cases hr : rstripBy pySpace ds with
            | nil => simp [hr, hd] at ht
            | cons a b => simp [hr] at ht; exact this ht.1
          · have hd' : pySpace d = false := by simpa using hd
            rw [rstripBy_cons_of_not _ _ _ hd'] at ht
            simp only [List.cons.injEq] at ht
            exact h1 ds rfl (by rw [ht.1])
  | case4 => simp [rstripBy, tokenize]

theorem strip_eq (p : List Char) :
    (stripBy tokSpace (tokenize p)).map renderTok = unescape (strip p) := by
  simp only [strip, stripBy]
  rw [← unescape_eq, tokenize_rstrip, tokenize_dropWhile]

/-! splitting -/

theorem splitUnescAux_pb (rest : List Char) (h : ∀ t, rest ≠ '/' :: t) :
    splitUnescAux true rest = splitUnescAux false rest := by
  cases rest with
  | nil => rfl
  | cons d t =>
    have : d ≠ '/' := fun e => h t (by rw [e])
    simp [splitUnescAux, this]

theorem first_part_no_slash (rest : List Char) : ∀ t, (splitUnescAux false rest).1 ≠ '/' :: t := by
  intro t
  cases rest with
  | nil => simp [splitUnescAux]
  | cons d ds =>
    by_cases hd : d = '/'
    · simp [splitUnescAux, hd]
    · simp [splitUnescAux, hd]

theorem splitAux_eq (cs : List Char) :
    tokenize (splitUnescAux false cs).1 = (splitToksAux (tokenize cs)).1 ∧
    (splitUnescAux false cs).2.map tokenize = (splitToksAux (tokenize cs)).2 := by
  fun_induction tokenize cs with
  | case1 rest ih =>
    have : splitUnescAux false ('\\' :: '/' :: rest) =
        ('\\' :: '/' :: (splitUnescAux false rest).1, (splitUnescAux false rest).2) := by
      simp [splitUnescAux]
    rw [this]
    simp [splitToksAux, tokenize_lit, ih.1, ih.2]
  | case2 rest ih =>
    have : splitUnescAux false ('/' :: rest) =
        ([], (splitUnescAux false rest).1 :: (splitUnescAux false rest).2) := by
      simp [splitUnescAux]
    rw [this]
    simp [splitToksAux, tokenize, ih.1, ih.2]
  | case3 c rest h1 h2 ih =>
    have hc : c ≠ '/' := fun e => h2 e
    have hpb : splitUnescAux (decide (c = '\\')) rest = splitUnescAux false rest := by
      by_cases e : c = '\\'
      · subst e
        simpa using splitUnescAux_pb rest (fun t ht => h1 t rfl ht)
      · simp [e]
    have : splitUnescAux false (c :: rest) =
        (c :: (splitUnescAux false rest).1, (splitUnescAux false rest).2) := by
      simp [splitUnescAux, hc, hpb]
    rw [this]
    have ht : tokenize (c :: (splitUnescAux false rest).1) = .ch c :: tokenize (splitUnescAux false rest).1 :=
      tokenize_ch _ _ hc (fun _ => first_part_no_slash rest)
    simp [splitToksAux, ht, ih.1, ih.2]
  | case4 => simp [splitUnescAux, splitToksAux, tokenize]

theorem splitImpl_eq_spec (key : List Char) : splitImpl key = splitSpec key := by
  have h := splitAux_eq key
  simp only [splitImpl, splitSpec, splitUnesc, splitToks, List.map_cons]
  rw [← h.1, ← h.2]
  simp [strip_eq, List.map_map, Function.comp_def]

end Skops.Card
