/-!
# Frame model for C20: calls that write only their own state do not influence one another

Two granularities:

* **histories** (`runHist`): a process holds objects (cards, or nothing at all for the pure io calls) indexed by
  `Nat`; a call is `(object index, operation)`; `step` reads the shared, import-time state `g` and the object's own
  state and returns the new own state and the call's result.
* **schedules** (`runSched`): every thread `i` owns a local state and advances by micro-steps; a schedule is the
  list of thread indices in the order in which the interpreter lets them run.

`step`/`micro` may in general also *write* the shared state; `FrameRespecting` says they do not.  That predicate
is the modelling link to the code: it is the conjunction of the frame facts which the translator re-derives from
the source on every run (no `global`, no writes to module-level containers or class attributes after import, no
mutable default arguments, contexts created per call).
-/
namespace Skops.Conc

/-- functional update of one slot -/
def upd {α : Type} (f : Nat → α) (i : Nat) (a : α) : Nat → α := fun j => if j = i then a else f j

@[simp] theorem upd_same {α : Type} (f : Nat → α) (i : Nat) (a : α) : upd f i a i = a := by simp [upd]
theorem upd_other {α : Type} (f : Nat → α) (i j : Nat) (a : α) (h : j ≠ i) : upd f i a j = f j := by simp [upd, h]

section Histories
variable {G L Op O : Type}

/-- one call: may read and write the shared state and the state of the object it is applied to -/
abbrev Step (G L Op O : Type) := G → L → Op → G × L × O

def FrameRespecting (step : Step G L Op O) : Prop := ∀ g l op, (step g l op).1 = g

/-- run a history of calls; returns the final shared state, the objects and the results tagged with their object -/
def runHist (step : Step G L Op O) (g : G) (objs : Nat → L) : List (Nat × Op) → G × (Nat → L) × List (Nat × O)
  | [] => (g, objs, [])
  | (i, op) :: rest =>
      let r := step g (objs i) op
      let t := runHist step r.1 (upd objs i r.2.1) rest
      (t.1, t.2.1, (i, r.2.2) :: t.2.2)

/-- the same calls on object `i` alone, from the same initial shared state -/
def runAlone (step : Step G L Op O) (g : G) (l : L) : List Op → L × List O
  | [] => (l, [])
  | op :: rest =>
      let r := step g l op
      let t := runAlone step g r.2.1 rest
      (t.1, r.2.2 :: t.2)

def opsOn (i : Nat) (h : List (Nat × Op)) : List Op := (h.filter (fun c => c.1 == i)).map (·.2)
def resultsOn (i : Nat) (rs : List (Nat × O)) : List O := (rs.filter (fun c => c.1 == i)).map (·.2)

theorem runHist_shared (step : Step G L Op O) (hf : FrameRespecting step) (g : G) (objs : Nat → L)
    (h : List (Nat × Op)) : (runHist step g objs h).1 = g := by
  induction h generalizing g objs with
  | nil => rfl
  | cons c rest ih =>
    obtain ⟨i, op⟩ := c
    simp only [runHist]
    rw [hf g (objs i) op]
    exact ih g _

/-- **history independence**: in any history, the results of the calls on object `i` and its final state are those
of running just these calls, in the same order, on `i` alone — the calls on other objects leave no trace -/
theorem history_independent (step : Step G L Op O) (hf : FrameRespecting step) (g : G) (objs : Nat → L)
    (h : List (Nat × Op)) (i : Nat) :
    (runHist step g objs h).2.1 i = (runAlone step g (objs i) (opsOn i h)).1 ∧
    resultsOn i (runHist step g objs h).2.2 = (runAlone step g (objs i) (opsOn i h)).2 := by
  induction h generalizing g objs with
  | nil => simp [runHist, runAlone, opsOn, resultsOn]
  | cons c rest ih =>
    obtain ⟨j, op⟩ := c
    simp only [runHist]
    rw [hf g (objs j) op]
    by_cases hji : j = i
    · subst hji
      have := ih g (upd objs j (step g (objs j) op).2.1)
      simp only [upd_same] at this
      simp [opsOn, resultsOn, runAlone] at this ⊢
      exact this
    · have := ih g (upd objs j (step g (objs j) op).2.1)
      rw [upd_other _ _ _ _ (Ne.symm hji)] at this
      have hb : ((j == i) = false) := by simpa using hji
      simp [opsOn, resultsOn, hb] at this ⊢
      exact this

/-- the position of a call in the process's life does not matter: first call in a fresh process or after any
history of calls on other objects -/
theorem first_or_later (step : Step G L Op O) (hf : FrameRespecting step) (g : G) (objs : Nat → L)
    (before : List (Nat × Op)) (i : Nat) (op : Op) (hb : ∀ c ∈ before, c.1 ≠ i) :
    resultsOn i (runHist step g objs (before ++ [(i, op)])).2.2 = [(step g (objs i) op).2.2] := by
  have h1 := (history_independent step hf g objs (before ++ [(i, op)]) i).2
  rw [h1]
  have : opsOn i (before ++ [(i, op)]) = [op] := by
    unfold opsOn
    rw [List.filter_append]
    have : before.filter (fun c => c.1 == i) = [] := by
      apply List.filter_eq_nil_iff.mpr
      intro c hc
      simpa using hb c hc
    simp [this]
  rw [this]
  simp [runAlone]

end Histories

section Schedules
variable {G L : Type}

/-- a micro-step of one thread: may read and write the shared state and the thread's own state -/
abbrev Micro (G L : Type) := G → L → G × L

def MicroFrame (micro : Micro G L) : Prop := ∀ g l, (micro g l).1 = g

def runSched (micro : Micro G L) (g : G) (locals : Nat → L) : List Nat → G × (Nat → L)
  | [] => (g, locals)
  | i :: rest =>
      let r := micro g (locals i)
      runSched micro r.1 (upd locals i r.2) rest

def iter (f : L → L) : Nat → L → L
  | 0, l => l
  | n + 1, l => iter f n (f l)

/-- **schedule independence**: under any interleaving, thread `i` ends in the state it reaches by taking the same
number of steps with nobody else running -/
theorem schedule_independent (micro : Micro G L) (hf : MicroFrame micro) (g : G) (locals : Nat → L)
    (sched : List Nat) (i : Nat) :
    (runSched micro g locals sched).2 i = iter (fun l => (micro g l).2) (sched.count i) (locals i) := by
  induction sched generalizing g locals with
  | nil => simp [runSched, iter]
  | cons j rest ih =>
    simp only [runSched]
    rw [hf g (locals j)]
    by_cases hji : j = i
    · subst hji
      rw [ih g _]
      simp [iter]
    · rw [ih g _, upd_other _ _ _ _ (Ne.symm hji)]
      have : (j :: rest).count i = rest.count i := by simp [hji]
      rw [this]

/-- two schedules that give thread `i` the same number of steps leave it in the same state -/
theorem any_two_schedules (micro : Micro G L) (hf : MicroFrame micro) (g : G) (locals : Nat → L)
    (s1 s2 : List Nat) (i : Nat) (h : s1.count i = s2.count i) :
    (runSched micro g locals s1).2 i = (runSched micro g locals s2).2 i := by
  rw [schedule_independent micro hf, schedule_independent micro hf, h]

end Schedules

/-! ## The hypothesis is needed: a step that memoises in shared state makes results history- and schedule-dependent -/

/-- a "cached" call: returns the first argument it ever saw -/
def leakyStep : Step (Option Nat) Unit Nat Nat := fun g _ n =>
  match g with
  | some m => (some m, (), m)
  | none => (some n, (), n)

theorem leaky_not_frame : ¬ FrameRespecting leakyStep := by
  intro h
  have := h none () 5
  simp [leakyStep] at this

theorem leaky_history_dependent :
    resultsOn 1 (runHist leakyStep none (fun _ => ()) [(0, 7), (1, 5)]).2.2 ≠
    resultsOn 1 (runHist leakyStep none (fun _ => ()) [(1, 5)]).2.2 := by decide

end Skops.Conc
