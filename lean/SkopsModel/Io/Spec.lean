import SkopsModel.Base.Json
/-!
# Per-node-kind facts (`KindSpec`) — the vocabulary of the generated table

One `KindSpec` per registered `(loader, protocol)`; the table itself is
`SkopsModel/Generated/Specs.lean`, rewritten by `harness/translate/nodes.py` from the working tree
on every run.
-/
namespace Skops.Io

inductive Shape
  | node      -- `get_tree(state[path])`
  | nodes     -- `[get_tree(v) for v in state[path]]`
  | dict      -- `{k: get_tree(v) for k, v in state[path].items()}`
  | raw       -- `state[path]` kept as is
  | blob      -- `io.BytesIO(load_context.src.read(state[path]))`
  | synth     -- a `TypeNode` built by the loader itself (ReduceNode's constructor)
deriving DecidableEq, Repr

/-- where the names of a synthetic node come from -/
inductive SynthNames
  | const (m c : String)      -- a class known to the loader (Tree, QuantileForest)
  | fromState                 -- `state["__module__"], state["__class__"]` (LossNode)
deriving DecidableEq, Repr

structure Slot where
  key : String
  path : List String
  optional : Bool := false
  shape : Shape
  childExtra : List String := []     -- default names added to what is handed down as `trusted`
  synth : SynthNames := .fromState
deriving DecidableEq, Repr

structure Variant where
  whenPath : List String := []       -- `[]` = unconditional
  whenEq : String := ""
  slots : List Slot
deriving DecidableEq, Repr

/-- how `module_name` / `class_name` of a node are obtained -/
inductive NameExpr
  | state (path : List String)
  | childMod (path : List String)          -- `get_tree(state[path]).module_name`
  | childCls (path : List String)
  | lit (s : String)
  | concat (parts : List NameExpr)
  | unknown
deriving Repr

inductive SelfCheck
  | standard                               -- `Node.is_self_safe`: module.class ∈ self.trusted
  | always                                 -- `get_unsafe_set` returns `set()`
  | fnSelf                                 -- FunctionNode: f"{module}.{class}" ∈ trusted, children not walked
  | fnContent (m c : List String)          -- v0 FunctionNode: names read from the raw content
  | unknown
deriving DecidableEq, Repr

inductive NameSrc
  | self
  | const (m c : String)
  | child (key : String)                   -- names of the child node `children[key]`
  | rawPaths (key : String) (m c : String) -- `children[key][m], children[key][c]` of a raw child
  | rawIn (m : String)                     -- fixed module, class taken from archive data
  | unknown (desc : String)
deriving DecidableEq, Repr

inductive Use
  | resolve (src : NameSrc)                -- `gettype` / `_import_obj`
  | kid (key : String)                     -- `children[key]....construct()` (every element for list/dict slots)
  | callResolved (idx : Nat)               -- call of the object resolved by use number `idx`
  | callInstance (idx : Nat)               -- call of a method/attribute of (an instance of) that object
  | callChildValue (key : String)          -- call of a value produced by `children[key].construct()`
  | getattrChild (on attrSlot : String)    -- `getattr(children[on].construct(), children[attrSlot])`
  | guardSubclass (idx : Nat) (base : String)   -- `isinstance(x, type) and issubclass(x, base)` else raise
  | unknown (src : String)
deriving DecidableEq, Repr

/-- `Node.format()` of a kind -/
inductive FormatKind
  | name        -- f"{module_name}.{class_name}"
  | json        -- f"json-type({content})"
  | bytes       -- repr of the payload
  | bytearray   -- "bytearray(" repr ")"
  | unknown
deriving DecidableEq, Repr

structure KindSpec where
  loader : String
  protocol : Nat
  cls : String
  memoize : Bool := true
  alwaysRaises : Bool := false
  callerPlus : Bool := true               -- `self.trusted = _get_trusted(<caller's list>, defaults)`
  defaults : List String := []
  selfCheck : SelfCheck := .standard
  walksKids : Bool := true
  moduleName : NameExpr := .state ["__module__"]
  className : NameExpr := .state ["__class__"]
  variants : List Variant := []
  elseRaises : Bool := false
  memoRef : Bool := false                 -- CachedNode: `self.cached = memo.get(state.get("__id__"))`
  initEffects : List String := []         -- anything `__init__` does that is not inert
  reads : List (List String) := []        -- `state[...]` paths subscripted by `__init__` (KeyError when absent)
  uses : List Use := []
  -- what `visualize` consults
  fmt : FormatKind := .name
  selfSafeAlways : Bool := false          -- `is_self_safe` returns True unconditionally (JsonNode)
  isSafeAlways : Bool := false            -- `is_safe` returns True unconditionally (JsonNode)
  viewKnown : Bool := true
  skipped : Bool := false                 -- member of `SKIPPED_TYPES`: children are not shown
  isListNode : Bool := false

structure Table where
  protocol : Nat
  kinds : List KindSpec

def Table.find? (t : Table) (loader : String) (proto : Nat) : Option (Nat × KindSpec) :=
  let rec go (i : Nat) : List KindSpec → Option (Nat × KindSpec)
    | [] => none
    | k :: ks => if k.loader = loader && k.protocol = proto then some (i, k) else go (i + 1) ks
  go 0 t.kinds

def Table.kind (t : Table) (i : Nat) : KindSpec :=
  t.kinds.getD i { loader := "", protocol := 0, cls := "", selfCheck := .unknown }

end Skops.Io
