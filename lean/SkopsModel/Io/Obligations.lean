import SkopsModel.Io.Trace
/-!
# Decidable side-conditions on the generated table

`Table.Vouched` is what makes "audit passed ⇒ everything construct does was vouched for" a theorem:
it is checked by `decide` on `Generated.table`, i.e. against what the source says now.
-/
namespace Skops.Io

/-- constructors a loader resolves by a literal name; each belongs to a documented family -/
def fixedNames : List String := ["numpy.random.bit_generator.SeedSequence"]

/-- modules in which a loader resolves a class named by archive *data*, together with the base class
the loader checks (`isinstance(x, type) and issubclass(x, base)`) before calling it -/
def guardedModules : List (String × String) := [("numpy.random", "numpy.random.BitGenerator")]

def Use.isResolve : Use → Bool
  | .resolve _ => true
  | _ => false

def hasGuard (uses : List Use) (i : Nat) (m : String) : Bool :=
  uses.any fun u =>
    match u with
    | .guardSubclass j base => j == i && guardedModules.contains (m, base)
    | _ => false

/-- the path of the slot stored under `key` (first variant that has it) -/
def slotPath (k : KindSpec) (key : String) : Option (List String) :=
  ((k.variants.map (·.slots)).flatten.find? (·.key == key)).map (·.path)

/-- MethodNode: `module_name = obj.module_name`, `class_name = f"{obj.class_name}.{func}"` -/
def methodNames (k : KindSpec) (on attr : String) : Bool :=
  match slotPath k on, slotPath k attr, k.moduleName, k.className with
  | some p, some q, .childMod p1, .concat [.childCls p2, .lit ".", .state q1] => p1 == p && p2 == p && q1 == q
  | _, _, _, _ => false

def audited (k : KindSpec) : Bool := k.selfCheck == .standard && k.walksKids

def useOK (k : KindSpec) (i : Nat) : Use → Bool
  | .resolve .self => k.selfCheck == .standard || k.selfCheck == .fnSelf
  | .resolve (.const m c) => fixedNames.contains (m ++ "." ++ c)
  | .resolve (.child _) => audited k
  | .resolve (.rawPaths key m c) => k.selfCheck == .fnContent [key, m] [key, c]
  | .resolve (.rawIn m) => hasGuard k.uses i m
  | .resolve (.unknown _) => false
  | .kid key => audited k || (key == "@memo" && k.memoRef)
  | .callResolved j => (k.uses.getD j (.unknown "")).isResolve
  | .callInstance j => (k.uses.getD j (.unknown "")).isResolve
  | .callChildValue _ => audited k
  | .getattrChild on attr => audited k && methodNames k on attr
  | .guardSubclass j base =>
    match k.uses.getD j (.unknown "") with
    | .resolve (.rawIn m) => guardedModules.contains (m, base)
    | _ => false
  | .unknown _ => false

def allIdx {α} (f : Nat → α → Bool) : Nat → List α → Bool
  | _, [] => true
  | i, x :: xs => f i x && allIdx f (i + 1) xs

/-- `__init__` is inert: it only reads the state / the zip members and builds nodes -/
def KindSpec.initInert (k : KindSpec) : Bool := k.initEffects.isEmpty

def KindSpec.ok (k : KindSpec) : Bool :=
  k.initInert && k.callerPlus && k.selfCheck != .unknown && allIdx (useOK k) 0 k.uses &&
  -- a kind whose audit does not walk its children must not construct any
  (k.walksKids || !(k.uses.any fun u => match u with | .kid key => key != "@memo" | _ => false))

def Table.Vouched (t : Table) : Bool := t.kinds.all KindSpec.ok

def Table.AllInitInert (t : Table) : Bool := t.kinds.all KindSpec.initInert

def Table.AllCallerPlus (t : Table) : Bool := t.kinds.all (·.callerPlus)

/-- every name some kind trusts by default or hands down to its children -/
def Table.allDefaults (t : Table) : List String :=
  (t.kinds.map fun k => k.defaults ++ ((k.variants.map fun v => (v.slots.map (·.childExtra)).flatten).flatten)).flatten

end Skops.Io
