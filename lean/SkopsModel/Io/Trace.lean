import SkopsModel.Io.Audit
/-!
# What `construct()` does because the archive named it: the maximal event trace

Every `Use` of the node's kind, in source order, instantiated with the node's names; children are
entered where the source constructs them.  A node is constructed once (`Node.construct` caches), so
the set of already constructed node ids is threaded.  The trace is *maximal*: runtime errors and
untaken branches only remove events, so the events the implementation performs form a subsequence.
-/
namespace Skops.Io

inductive Event
  | resolve (name : String) (kind : Nat) (nid : Nat)       -- gettype/_import_obj of `module.class` (as formatted)
  | resolveIn (module : String) (kind : Nat) (nid : Nat)   -- class name read from archive data, module fixed
  | getattr (name : String) (kind : Nat) (nid : Nat)       -- bound method handed back; `name` = the node's audited name
deriving DecidableEq, Repr

/-- names denoted by a `NameSrc` at a node -/
def srcEvent (kind nid : Nat) (mod cls : NameVal) (kids : Kids) : NameSrc → Option Event
  | .self => some (.resolve (qualFmt mod cls) kind nid)
  | .const m c => some (.resolve (m ++ "." ++ c) kind nid)
  | .child key =>
    match kids.findSynth key with
    | some (m, c) => some (.resolve (qualFmt m c) kind nid)
    | none => none
  | .rawPaths key mk ck =>
    match kids.findRaw key with
    | some j =>
      match j.get? mk, j.get? ck with
      | some m, some c => some (.resolve (pyStr m ++ "." ++ pyStr c) kind nid)
      | _, _ => none
    | none => none
  | .rawIn m => some (.resolveIn m kind nid)
  | .unknown _ => none

structure TSt where
  done : List Nat := []          -- node ids whose `construct()` has run
  events : List Event := []      -- in order (appended)

abbrev Tracer := TSt → TSt

/-- run every tracer registered under `key`, in order -/
def runSlot (key : String) : List (String × Tracer) → Tracer
  | [], st => st
  | (slot, t) :: rest, st => if slot = key then runSlot key rest (t st) else runSlot key rest st

/-- the ordered uses of one `_construct`; `ts` = the `construct()` of each node child, `rt` = the
`construct()` of the memo reference (CachedNode) -/
def runUses (kind nid : Nat) (mod cls : NameVal) (kids : Kids) (ts : List (String × Tracer))
    (rt : Tracer) : List Use → Tracer
  | [], st => st
  | u :: us, st =>
    let st1 : TSt :=
      match u with
      | .resolve src =>
        match srcEvent kind nid mod cls kids src with
        | some e => { st with events := st.events ++ [e] }
        | none => st
      | .kid key => if key = "@memo" then rt st else runSlot key ts st
      | .getattrChild _ _ =>
        { st with events := st.events ++ [.getattr (qualFmt mod cls) kind nid] }
      | _ => st
    runUses kind nid mod cls kids ts rt us st1

mutual
/-- `node.construct()` -/
def Node.trace (tbl : Table) : Node → Tracer
  | .backref _ => fun st => st                 -- re-entering an ancestor: RecursionError, nothing new
  | .mk nid kind mod cls _ kids ref =>
    let ts := kids.tracers tbl
    let rt := ref.tracer tbl
    fun st =>
      if st.done.contains nid then st
      else
        let st1 := runUses kind nid mod cls kids ts rt (tbl.kind kind).uses st
        { st1 with done := nid :: st1.done }
def Kids.tracers (tbl : Table) : Kids → List (String × Tracer)
  | .nil => []
  | .node slot _ _ n rest => (slot, n.trace tbl) :: rest.tracers tbl
  | .raw _ _ rest => rest.tracers tbl
  | .absent _ rest => rest.tracers tbl
  | .blob _ _ rest => rest.tracers tbl
  | .synth _ _ _ _ _ rest => rest.tracers tbl
def Ref.tracer (tbl : Table) : Ref → Tracer
  | .to n => n.trace tbl
  | .no => fun st => st
  | .missing => fun st => st
end

def traceOf (tbl : Table) (root : Node) : List Event := (root.trace tbl {}).events

end Skops.Io
