/-!
# The audit walk over a node graph with shared ids (C19, "terminate promptly")

`get_tree` returns the *same* node object for a repeated `__id__`, so the node structure is a graph; the audit
(`Node.get_unsafe_set`) guards only against nodes that are currently being computed (the `_computing_unsafe_set`
attribute) and recomputes a shared node once per path that reaches it.  `visits` counts the invocations of
`get_unsafe_set` under exactly that discipline; `evil n` is the graph of the archive made of `n` nested
two-element lists whose second element re-uses the id of the first.
-/
namespace Skops.Io.Walk

abbrev Graph := Nat → List Nat

/-- number of `get_unsafe_set` invocations when auditing node `i`; `path` = nodes being computed -/
def visits (g : Graph) : Nat → List Nat → Nat → Nat
  | 0, _, _ => 0
  | fuel + 1, path, i =>
      if path.contains i then 1
      else 1 + ((g i).map (visits g fuel (i :: path))).sum

/-- `n` nested lists: node `k < n` has the children `[k+1, k+1]`, node `n` is a leaf -/
def evil (n : Nat) : Graph := fun k => if k < n then [k + 1, k + 1] else []

/-- the archive that produces `evil n` has `2 n + 1` states: linear in `n` -/
def evilStates (n : Nat) : Nat := 2 * n + 1

theorem visits_evil (n : Nat) : ∀ (d k fuel : Nat) (path : List Nat), k + d = n → d < fuel →
    (∀ p ∈ path, p < k) → visits (evil n) fuel path k = 2 ^ (d + 1) - 1 := by
  intro d
  induction d with
  | zero =>
    intro k fuel path hk hf hp
    obtain ⟨f, rfl⟩ : ∃ f, fuel = f + 1 := ⟨fuel - 1, by omega⟩
    have hnot : path.contains k = false := by
      cases hc : path.contains k with
      | false => rfl
      | true => have := hp k (by simpa using hc); omega
    have hk' : k = n := by omega
    subst hk'
    simp [visits, evil]
  | succ d ih =>
    intro k fuel path hk hf hp
    obtain ⟨f, rfl⟩ : ∃ f, fuel = f + 1 := ⟨fuel - 1, by omega⟩
    have hnot : path.contains k = false := by
      cases hc : path.contains k with
      | false => rfl
      | true => have := hp k (by simpa using hc); omega
    have hlt : k < n := by omega
    have hsub := ih (k + 1) f (k :: path) (by omega) (by omega) (by
      intro p hp'
      rcases List.mem_cons.mp hp' with rfl | h
      · omega
      · have := hp p h; omega)
    simp only [visits, hnot, evil, hlt, if_true, Bool.false_eq_true, if_false, List.map_cons, List.map_nil, List.sum_cons,
      List.sum_nil, hsub]
    have : 2 ^ (d + 1) ≥ 1 := Nat.one_le_two_pow
    rw [Nat.pow_succ 2 (d + 1)]
    omega

/-- **the audit of an archive with `2 n + 1` states takes `2^(n+1) - 1` node visits** -/
theorem audit_exponential (n : Nat) : visits (evil n) (n + 1) [] 0 = 2 ^ (n + 1) - 1 :=
  visits_evil n n 0 (n + 1) [] (by omega) (by omega) (by simp)

/-- with a per-walk visited set every node is visited at most once per edge: `2 n + 1` visits suffice -/
def visitsOnce (g : Graph) : Nat → List Nat → List Nat → Nat × List Nat
  | 0, seen, _ => (0, seen)
  | _ + 1, seen, [] => (0, seen)
  | fuel + 1, seen, i :: todo =>
      if seen.contains i then
        let r := visitsOnce g fuel seen todo
        (r.1 + 1, r.2)
      else
        let r := visitsOnce g fuel (i :: seen) (g i ++ todo)
        (r.1 + 1, r.2)

example : (visitsOnce (evil 10) 100 [] [0]).1 = 21 ∧ visits (evil 10) 11 [] 0 = 2047 := by decide +kernel

end Skops.Io.Walk

namespace Skops.Io.Walk

/-- nodes below `N` that are not being computed yet: the measure that the in-progress guard decreases -/
def free (N : Nat) (path : List Nat) : Nat := ((List.range N).filter (fun x => !path.contains x)).length

theorem free_cons_lt (N : Nat) (path : List Nat) (i : Nat) (hi : i < N) (hnot : path.contains i = false) :
    free N (i :: path) < free N path := by
  unfold free
  have hsub : (List.range N).filter (fun x => !(i :: path).contains x) =
      ((List.range N).filter (fun x => !path.contains x)).filter (fun x => !(x == i)) := by
    rw [List.filter_filter]
    congr 1
    funext x
    simp only [List.contains_cons]
    cases hx : (x == i) <;> cases hp : path.contains x <;> simp
  rw [hsub]
  apply List.length_filter_lt_length_iff_exists.mpr
  refine ⟨i, ?_, by simp⟩
  have hnm : ¬ i ∈ path := by simpa using hnot
  simp [List.mem_filter, hi, hnm]

/-- **the cycle guard makes the walk terminate on every finite graph, cyclic or not**: once the fuel exceeds the
number of nodes not yet in progress, more fuel changes nothing -/
theorem visits_fuel_indep (g : Graph) (N : Nat) (hg : ∀ i, ∀ c ∈ g i, c < N) :
    ∀ (m : Nat) (path : List Nat) (i f1 f2 : Nat), free N path ≤ m → i < N → m < f1 → m < f2 →
      visits g f1 path i = visits g f2 path i := by
  intro m
  induction m with
  | zero =>
    intro path i f1 f2 hm hi h1 h2
    obtain ⟨a, rfl⟩ : ∃ a, f1 = a + 1 := ⟨f1 - 1, by omega⟩
    obtain ⟨b, rfl⟩ : ∃ b, f2 = b + 1 := ⟨f2 - 1, by omega⟩
    cases hc : path.contains i with
    | true =>
      have hmem : i ∈ path := by simpa using hc
      simp [visits, hmem]
    | false =>
      have := free_cons_lt N path i hi hc
      omega
  | succ m ih =>
    intro path i f1 f2 hm hi h1 h2
    obtain ⟨a, rfl⟩ : ∃ a, f1 = a + 1 := ⟨f1 - 1, by omega⟩
    obtain ⟨b, rfl⟩ : ∃ b, f2 = b + 1 := ⟨f2 - 1, by omega⟩
    cases hc : path.contains i with
    | true =>
      have hmem : i ∈ path := by simpa using hc
      simp [visits, hmem]
    | false =>
      have hlt := free_cons_lt N path i hi hc
      simp only [visits, hc, Bool.false_eq_true, if_false]
      congr 2
      apply List.map_congr_left
      intro c hcm
      exact ih (i :: path) c a b (by omega) (hg i c hcm) (by omega) (by omega)

end Skops.Io.Walk
