import SkopsModel.Io.Audit
/-!
# `skops.io._visualize`: `walk_tree` and `_traverse_tree`

`walk` yields one `Row` (`NodeInfo`) per node in pre-order; children that are not nodes carry no
type and are not shown.  `traverse` is what the default sink sees: the visibility filter and the
re-attachment of rows whose ancestors are hidden.
-/
namespace Skops.Io

structure Row where
  level : Nat
  key : String
  val : String
  selfSafe : Bool
  safe : Bool
deriving DecidableEq, Repr

inductive VErr
  | audit        -- `is_self_safe` / `is_safe` raised (a name that is not a string, a raw child the audit cannot judge)
  | recursion    -- the tree contains a cycle: `walk_tree` never terminates (RecursionError)
deriving DecidableEq, Repr

/-- `node.format()` (payload-dependent formats are kept abstract) -/
def formatOf (k : KindSpec) (mod cls : NameVal) : String :=
  match k.fmt with
  | .name => qualFmt mod cls
  | .json => "json-type(…)"
  | .bytes => "bytes(…)"
  | .bytearray => "bytearray(…)"
  | .unknown => "?"

/-- `node.is_self_safe()` ; `none` = it raises (`module_name + "." + class_name` on a non-string) -/
def selfSafeOf (tbl : Table) (T : List String) (kind : Nat) (mod cls : NameVal) (extra : List String) : Option Bool :=
  if (tbl.kind kind).selfSafeAlways then some true
  else match qual mod cls with
    | some q => some ((trustedOf tbl T kind extra).contains q)
    | none => none

mutual
/-- `walk_tree(node, node_name=key, level=level)` -/
def Node.walk (tbl : Table) (T : List String) : Node → String → Nat → Except VErr (List Row)
  | .backref _, _, _ => .error .recursion
  | .mk nid kind mod cls extra kids ref, key, level =>
    let k := tbl.kind kind
    let safe? : Option Bool :=
      if k.isSafeAlways then some true
      else (Node.unsafe tbl T (.mk nid kind mod cls extra kids ref)).map (·.isEmpty)
    match selfSafeOf tbl T kind mod cls extra, safe? with
    | some ss, some sf =>
      -- `key_types` is skipped when it is a safe ListNode
      if key = "key_types" && k.isListNode && sf then .ok []
      else
        let row : Row := { level := level, key := key, val := formatOf k mod cls, selfSafe := ss, safe := sf }
        if k.skipped then .ok [row]
        else
          match kids.walk tbl T (level + 1) with
          | .ok rest => .ok (row :: rest)
          | .error e => .error e
    | _, _ => .error .audit
/-- the children dict, in order; list and dict children are flattened at the same level -/
def Kids.walk (tbl : Table) (T : List String) : Kids → Nat → Except VErr (List Row)
  | .nil, _ => .ok []
  | .node _ label _ n rest, level =>
    match n.walk tbl T label level, rest.walk tbl T level with
    | .ok a, .ok b => .ok (a ++ b)
    | .error e, _ => .error e
    | _, .error e => .error e
  | .raw _ _ rest, level => rest.walk tbl T level
  | .absent _ rest, level => rest.walk tbl T level
  | .blob _ _ rest, level => rest.walk tbl T level
  | .synth slot _ mod cls extra rest, level =>
    -- the synthetic TypeNode: a childless node with the standard checks
    match qual mod cls, rest.walk tbl T level with
    | some q, .ok b =>
      let ok := (T ++ extra ++ typeNodeDefaults tbl).contains q
      .ok ({ level := level, key := slot, val := qualFmt mod cls, selfSafe := ok, safe := ok } :: b)
    | none, _ => .error .audit
    | _, .error e => .error e
end

inductive Show | all | untrusted | trusted
deriving DecidableEq, Repr

/-- `_check_visibility` -/
def visible (s : Show) (r : Row) : Bool :=
  match s with
  | .all => true
  | .untrusted => !r.safe
  | .trusted => r.selfSafe

/-- the loop of `_traverse_tree` after the root: `stack` = original levels of the shown ancestors -/
def traverseRest (s : Show) : List Nat → List Row → List Row
  | _, [] => []
  | stack, r :: rs =>
    if visible s r then
      let stack' := stack.dropWhile (fun l => decide (r.level ≤ l))
      { r with level := stack'.length } :: traverseRest s (r.level :: stack') rs
    else traverseRest s stack rs

/-- `_traverse_tree`: the root is always shown -/
def traverse (s : Show) : List Row → List Row
  | [] => []
  | root :: rest => root :: traverseRest s [root.level] rest

/-- `visualize(file, show=…, trusted=T)` with the default sink, as the rows it prints -/
def visualizeRows (tbl : Table) (T : List String) (s : Show) (root : Node) : Except VErr (List Row) :=
  match root.walk tbl T "root" 0 with
  | .ok rows => .ok (traverse s rows)
  | .error e => .error e

end Skops.Io
