/-!
# Object identities during one dump: why `id()` can be trusted as `__id__`

A dump is a sequence of heap events.  `alloc o a` : object `o` comes to life at address `a` (any address
not occupied by a live object — the allocator is otherwise arbitrary, in particular free to reuse
addresses of dead objects immediately); `free o` : the last reference to `o` disappears; `visit o` :
`get_state(o)` runs, which first *memoizes* `o` (`save_context.memo[id(o)] = o`, a reference that lives
until `clear_memo()` after the whole state has been built) and then writes `__id__ = id(o)`.
-/
namespace Skops.Io.Heap

abbrev Obj := Nat      -- identity of an object (never reused)
abbrev Addr := Nat

inductive Ev
  | alloc (o : Obj) (a : Addr)
  | free (o : Obj)
  | visit (o : Obj)
deriving DecidableEq, Repr

structure St where
  live : List (Obj × Addr) := []     -- live objects and where they are
  pinned : List Obj := []            -- objects referenced by the memo
  dead : List Obj := []              -- identities that are gone for good
  ids : List (Obj × Addr) := []      -- what has been written as `__id__` so far: (object, id)

def addrOf (live : List (Obj × Addr)) (o : Obj) : Option Addr :=
  (live.find? (·.1 = o)).map (·.2)

/-- one event, `pin` = whether `get_state` memoizes before writing the id; `none` = the event is
impossible for a real heap (address occupied, object not live, freeing a referenced object, ...) -/
def step (pin : Bool) (s : St) : Ev → Option St
  | .alloc o a =>
    if s.live.any (·.2 = a) || s.live.any (·.1 = o) || s.dead.contains o then none
    else some { s with live := (o, a) :: s.live }
  | .free o =>
    if s.pinned.contains o then none                       -- the memo still holds a reference
    else if s.live.any (·.1 = o) then
      some { s with live := s.live.filter (·.1 ≠ o), dead := o :: s.dead }
    else none
  | .visit o =>
    match addrOf s.live o with
    | none => none
    | some a =>
      some { s with pinned := if pin then o :: s.pinned else s.pinned, ids := (o, a) :: s.ids }

def run (pin : Bool) : St → List Ev → Option St
  | s, [] => some s
  | s, e :: es =>
    match step pin s e with
    | some s' => run pin s' es
    | none => none

end Skops.Io.Heap
