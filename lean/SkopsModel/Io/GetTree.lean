import SkopsModel.Io.Tree
/-!
# `get_tree`: schema JSON → node tree, with the load memo

Generic over the generated `Table`: which slots a kind reads, in which order, with which trust
additions.  Recursion is on explicit fuel (the schema is finite; the real code recurses on the
Python stack), every step mirrors `get_tree` / `Node.__init__` / the subclass `__init__`.
-/
namespace Skops.Io

inductive LErr
  | keyError | typeError | valueError | attrError | recursion | importError
deriving DecidableEq, Repr

inductive MemoEntry
  | inProgress (nid : Nat) (mod cls : NameVal)
  | done (n : Node)

structure LoadSt where
  memo : List (PyKey × MemoEntry) := []
  next : Nat := 0

structure Env where
  tbl : Table
  proto : PyKey               -- `schema["protocol"]` as a dict-key
  members : List String       -- names in the zip file

def memoGet (memo : List (PyKey × MemoEntry)) (k : PyKey) : Option MemoEntry :=
  match memo with
  | [] => none
  | (k', e) :: rest => if k' = k then some e else memoGet rest k

def memoSet (memo : List (PyKey × MemoEntry)) (k : PyKey) (e : MemoEntry) : List (PyKey × MemoEntry) :=
  match memo with
  | [] => [(k, e)]
  | (k', e') :: rest => if k' = k then (k', e) :: rest else (k', e') :: memoSet rest k e

/-- `NODE_TYPE_MAPPING[(loader, protocol)]`, falling back to `(loader, PROTOCOL)` -/
def lookupKind (env : Env) (loader : String) : Option (Nat × KindSpec) :=
  let exact := match env.proto with
    | .int i => if i < 0 then none else env.tbl.find? loader i.toNat
    | _ => none
  match exact with
  | some r => some r
  | none => env.tbl.find? loader env.tbl.protocol

/-- the `TypeNode` registered for the current protocol (used for ReduceNode's synthetic child) -/
def typeNodeKind (env : Env) : Option Nat := (env.tbl.find? "TypeNode" env.tbl.protocol).map (·.1)

def nameOfJ (j : J) : NameVal := NameVal.ofJ j

/-- names of the node child built for the slot whose state path is `path` -/
def childNames (slots : List Slot) (kids : Kids) (memo : List (PyKey × MemoEntry)) (path : List String) :
    Option (NameVal × NameVal) :=
  match slots.find? (fun s => s.path = path && s.shape = .node) with
  | none => none
  | some s =>
    match kids.findNode s.key with
    | some (.mk _ _ m c _ _ _) => some (m, c)
    | some (.backref nid) =>
      -- an ancestor that is still being built: its names were set first thing in `Node.__init__`
      let rec go : List (PyKey × MemoEntry) → Option (NameVal × NameVal)
        | [] => none
        | (_, .inProgress n m c) :: rest => if n = nid then some (m, c) else go rest
        | _ :: rest => go rest
      go memo
    | none => none

/-- evaluate a `NameExpr` (only MethodNode overrides its names) ; `none` = AttributeError/KeyError -/
def evalName (state : J) (slots : List Slot) (kids : Kids) (memo : List (PyKey × MemoEntry)) :
    NameExpr → Option NameVal
  | .state path => (state.getPath? path).map NameVal.ofJ
  | .childMod path => (childNames slots kids memo path).map (·.1)
  | .childCls path => (childNames slots kids memo path).map (·.2)
  | .lit s => some (.str s)
  | .concat parts =>
    -- an f-string: always a `str`
    let rec go : List NameExpr → Option String
      | [] => some ""
      | .lit s :: rest => (go rest).map (s ++ ·)
      | .state path :: rest =>
        match state.getPath? path, go rest with
        | some v, some r => some (pyStr v ++ r)
        | _, _ => none
      | .childCls path :: rest =>
        match childNames slots kids memo path, go rest with
        | some (_, c), some r => some (c.py ++ r)
        | _, _ => none
      | .childMod path :: rest =>
        match childNames slots kids memo path, go rest with
        | some (m, _), some r => some (m.py ++ r)
        | _, _ => none
      | _ :: _ => none
    (go parts).map NameVal.str
  | .unknown => none

/-- result of evaluating the `if state[...] == "const"` switch of an `__init__` -/
def pickVariant (state : J) (k : KindSpec) : Except LErr (List Slot) :=
  let rec go : List Variant → Except LErr (List Slot)
    | [] => if k.elseRaises then .error .valueError else .ok []
    | v :: vs =>
      if v.whenPath.isEmpty then .ok v.slots
      else match state.getPath? v.whenPath with
        | none => .error .keyError
        | some (.str s) => if s = v.whenEq then .ok v.slots else go vs
        | some _ => go vs
  go k.variants

mutual
/-- `get_tree(state, load_context, trusted)`; `extra` = default names accumulated on the way down
(TreeNode / LossNode hand `self.trusted` to their children) -/
def getTree (env : Env) : Nat → J → List String → LoadSt → Except LErr (Node × LoadSt)
  | 0, _, _, _ => .error .recursion
  | fuel + 1, state, extra, st =>
    match state with
    | .obj kvs =>
      let idv := (kvs.get? "__id__").getD .null
      let key := idv.pyKey
      if key = .unhashable then .error .typeError
      else
        match memoGet st.memo key with
        | some (.inProgress nid _ _) => .ok (.backref nid, st)
        | some (.done n) => .ok (n, st)
        | none =>
          match kvs.get? "__loader__" with
          | none => .error .keyError
          | some (.str loader) =>
            match lookupKind env loader with
            | none => .error .typeError
            | some (ki, k) => buildNode env fuel ki k state extra idv st
          | some _ => .error .typeError
    | _ => .error .attrError
termination_by fuel _ _ _ => (fuel, 0, 0)

/-- `node_cls(state, load_context, trusted=trusted)` -/
def buildNode (env : Env) : Nat → Nat → KindSpec → J → List String → J → LoadSt → Except LErr (Node × LoadSt)
  | fuel, ki, k, state, extra, idv, st =>
    if k.alwaysRaises then .error .importError
    else
    -- Node.__init__: names, memoize
    match state.get? "__class__", state.get? "__module__" with
    | some cj, some mj =>
      let nid := st.next
      let mod0 := nameOfJ mj
      let cls0 := nameOfJ cj
      let key := idv.pyKey
      let memoized := idv.truthy && k.memoize
      let st1 : LoadSt :=
        { memo := if memoized then memoSet st.memo key (.inProgress nid mod0 cls0) else st.memo, next := nid + 1 }
      -- reads of `state[...]` outside the switch (e.g. `self.content = state["content"]`); paths that belong
      -- to a variant are checked when that variant's slots are built
      let variantPaths := (k.variants.map fun v => v.slots.map (·.path)).flatten
      if (k.reads.filter fun p => !variantPaths.contains p).any (fun p => (state.getPath? p).isNone) then .error .keyError
      else
      match pickVariant state k with
      | .error e => .error e
      | .ok slots =>
        match buildSlots env fuel state extra slots st1 with
        | .error e => .error e
        | .ok (kids, st2) =>
          -- CachedNode: `self.cached = load_context.get_object(state.get("__id__"))`
          let ref : Ref :=
            if k.memoRef then
              match memoGet st2.memo key with
              | some (.done n) => .to n
              | some (.inProgress rid _ _) => .to (.backref rid)
              | none => .missing
            else .no
          -- names as finally assigned by the subclass `__init__`
          match evalName state slots kids st2.memo k.moduleName, evalName state slots kids st2.memo k.className with
          | some modF, some clsF =>
            let node := Node.mk nid ki modF clsF extra kids ref
            let st3 : LoadSt :=
              { st2 with memo := if memoized then memoSet st2.memo key (.done node) else st2.memo }
            .ok (node, st3)
          | _, _ => .error .attrError
    | _, _ => .error .keyError
termination_by fuel _ _ _ _ _ _ => (fuel, 2, 0)

/-- the children dict, slot by slot in source order -/
def buildSlots (env : Env) : Nat → J → List String → List Slot → LoadSt → Except LErr (Kids × LoadSt)
  | _, _, _, [], st => .ok (.nil, st)
  | fuel, state, extra, s :: ss, st =>
    let v? : Option J :=
      if s.optional then
        -- `state.get(key)`; a missing key and an explicit null both give None
        match s.path with
        | [k] => some ((state.get? k).getD .null)
        | p => state.getPath? p
      else state.getPath? s.path
    match s.shape with
    | .synth =>
      -- TypeNode({"__class__": ..., "__module__": ...}, load_context, trusted=trusted): not memoized
      let names : Option (NameVal × NameVal) :=
        match s.synth with
        | .const m c => some (.str m, .str c)
        | .fromState =>
          match state.get? "__module__", state.get? "__class__" with
          | some mj, some cj => some (nameOfJ mj, nameOfJ cj)
          | _, _ => none
      match names with
      | some (m, c) =>
        match buildSlots env fuel state extra ss { st with next := st.next + 1 } with
        | .ok (rest, st') => .ok (.synth s.key st.next m c (extra ++ s.childExtra) rest, st')
        | .error e => .error e
      | none => .error .keyError
    | shape =>
      match v? with
      | none => .error .keyError
      | some v =>
        match shape with
        | .node =>
          if s.optional && v.isNull then
            match buildSlots env fuel state extra ss st with
            | .ok (rest, st') => .ok (.absent s.key rest, st')
            | .error e => .error e
          else
            match fuel with
            | 0 => .error .recursion
            | f + 1 =>
              match getTree env f v (extra ++ s.childExtra) st with
              | .error e => .error e
              | .ok (n, st1) =>
                match buildSlots env (f + 1) state extra ss st1 with
                | .ok (rest, st') => .ok (.node s.key s.key .single n rest, st')
                | .error e => .error e
        | .nodes =>
          match v.pyIter with
          | none => .error .typeError
          | some items =>
            match fuel with
            | 0 => .error .recursion
            | f + 1 =>
              match buildElems env f (items.map fun x => (s.key, x)) (extra ++ s.childExtra) s.key .listElem st with
              | .error e => .error e
              | .ok (mk, st1) =>
                match buildSlots env (f + 1) state extra ss st1 with
                | .ok (rest, st') => .ok (mk rest, st')
                | .error e => .error e
        | .dict =>
          match v with
          | .obj kvs =>
            match fuel with
            | 0 => .error .recursion
            | f + 1 =>
              match buildElems env f kvs.toList (extra ++ s.childExtra) s.key .dictElem st with
              | .error e => .error e
              | .ok (mk, st1) =>
                match buildSlots env (f + 1) state extra ss st1 with
                | .ok (rest, st') => .ok (mk rest, st')
                | .error e => .error e
          | _ => .error .attrError
        | .raw =>
          match buildSlots env fuel state extra ss st with
          | .ok (rest, st') => .ok (.raw s.key v rest, st')
          | .error e => .error e
        | .blob =>
          match v with
          | .str name =>
            if env.members.contains name then
              match buildSlots env fuel state extra ss st with
              | .ok (rest, st') => .ok (.blob s.key name rest, st')
              | .error e => .error e
            else .error .keyError
          | _ => .error .typeError
        | .synth => .error .valueError     -- unreachable (handled above)
termination_by fuel _ _ slots _ => (fuel, 1, slots.length)

/-- elements of a list/dict child, left to right; returns a function that prepends them -/
def buildElems (env : Env) : Nat → List (String × J) → List String → String → Grp → LoadSt →
    Except LErr ((Kids → Kids) × LoadSt)
  | _, [], _, _, _, st => .ok (id, st)
  | fuel, (label, v) :: rest, extra, slot, grp, st =>
    match getTree env fuel v extra st with
    | .error e => .error e
    | .ok (n, st1) =>
      match buildElems env fuel rest extra slot grp st1 with
      | .error e => .error e
      | .ok (mk, st2) => .ok ((fun tail => Kids.node slot label grp n (mk tail)), st2)
termination_by fuel items _ _ _ _ => (fuel, 3, items.length)
end

/-- the whole first phase of `load`/`get_untrusted_types`/`visualize` -/
def getTreeRoot (tbl : Table) (schema : J) (members : List String) (fuel : Nat) : Except LErr Node :=
  match schema.get? "protocol" with
  | none => .error .keyError
  | some p =>
    if p.pyKey = .unhashable then .error .typeError
    else
      match getTree { tbl := tbl, proto := p.pyKey, members := members } fuel schema [] {} with
      | .ok (n, _) => .ok n
      | .error e => .error e

end Skops.Io
