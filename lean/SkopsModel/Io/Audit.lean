import SkopsModel.Io.Tree
/-!
# `Node.get_unsafe_set` / `audit_tree` / `get_untrusted_types`

`T` is the caller's list after `get_type_paths` (`[]` for `None`).  A node trusts
`T ++ defaults(kind) ++ extra` where `extra` are the names its ancestors handed down.
-/
namespace Skops.Io

/-- `self.trusted` -/
def trustedOf (tbl : Table) (T : List String) (kind : Nat) (extra : List String) : List String :=
  if (tbl.kind kind).callerPlus then T ++ extra ++ (tbl.kind kind).defaults
  else (tbl.kind kind).defaults           -- a loader that ignores the caller's list

/-- defaults of the `TypeNode` registered for the current protocol (what a synthetic constructor node trusts) -/
def typeNodeDefaults (tbl : Table) : List String :=
  match tbl.find? "TypeNode" tbl.protocol with
  | some (_, k) => k.defaults
  | none => []

/-- a raw (non-Node) child met by the generic `get_unsafe_set` loop -/
def rawAuditOk : J → Bool
  | .null => true
  | .str _ => true
  | .arr .nil => true          -- `for value in []`
  | .obj .nil => true          -- `for value in {}.values()`
  | _ => false                 -- elements are not Nodes (AttributeError) / "Cannot determine the safety" (ValueError)

mutual
/-- the unsafe names below and at a node, in walk order; `none` = an exception other than the
untrusted-types one (e.g. `TypeError` for a non-string name) -/
def Node.unsafe (tbl : Table) (T : List String) : Node → Option (List String)
  | .backref _ => some []
  | .mk _ kind mod cls extra kids _ =>
    let k := tbl.kind kind
    match k.selfCheck with
    | .always => some []
    | .unknown => none
    | .fnSelf =>
      let q := qualFmt mod cls
      some (if (trustedOf tbl T kind extra).contains q then [] else [q])
    | .fnContent mp cp =>
      match kids.findRaw (mp.head?.getD "") with
      | some j =>
        match j.getPath? mp.tail, j.getPath? cp.tail with
        | some (.str m), some (.str c) =>
          let q := m ++ "." ++ c
          some (if (trustedOf tbl T kind extra).contains q then [] else [q])
        | _, _ => none
      | none => none
    | .standard =>
      match qual mod cls with
      | none => none
      | some q =>
        let own := if (trustedOf tbl T kind extra).contains q then [] else [q]
        if k.walksKids then
          match kids.unsafe tbl T with
          | some rest => some (own ++ rest)
          | none => none
        else some own
def Kids.unsafe (tbl : Table) (T : List String) : Kids → Option (List String)
  | .nil => some []
  | .node _ _ _ n rest =>
    match n.unsafe tbl T, rest.unsafe tbl T with
    | some a, some b => some (a ++ b)
    | _, _ => none
  | .raw _ j rest => if rawAuditOk j then rest.unsafe tbl T else none
  | .absent _ rest => rest.unsafe tbl T
  | .blob _ _ rest => rest.unsafe tbl T
  | .synth _ _ mod cls extra rest =>
    -- a TypeNode: `Node.is_self_safe` on the names the loader chose, no children
    match qual mod cls, rest.unsafe tbl T with
    | some q, some b => some ((if (T ++ extra ++ typeNodeDefaults tbl).contains q then [] else [q]) ++ b)
    | _, _ => none
end

/-- insertion sort on strings by code points / `sorted(set(...))` -/
def insertSorted (x : String) : List String → List String
  | [] => [x]
  | y :: ys => if x < y then x :: y :: ys else if x = y then y :: ys else y :: insertSorted x ys

def sortDedup (xs : List String) : List String := xs.foldr insertSorted []

/-- `get_untrusted_types`: sorted, duplicate free -/
def untrusted (tbl : Table) (root : Node) : Option (List String) :=
  (root.unsafe tbl []).map sortDedup

end Skops.Io
