import SkopsModel.Io.Spec
/-!
# The node tree built by `get_tree`

A memo hit on a finished node is unfolded (the same node, as built at its first site, appears
again); a hit on a node that is still under construction — an ancestor — is a `backref`.
-/
namespace Skops.Io

inductive Grp
  | single      -- `children[slot]` is the node
  | listElem    -- element of the list `children[slot]`
  | dictElem    -- value of the dict `children[slot]`, `label` is its key
deriving DecidableEq, Repr

/-- Python's `str(v)` for the JSON values a name field may hold (used by f-strings) -/
def pyStr : J → String
  | .null => "None"
  | .bool true => "True"
  | .bool false => "False"
  | .int i => toString i
  | .float tok _ => tok
  | .str s => s
  | .arr .nil => "[]"
  | .obj .nil => "{}"
  | .arr _ => "?"        -- non-empty containers as names are not generated (their `str()` needs Python's repr of strings)
  | .obj _ => "?"

/-- `state["__module__"]` / `state["__class__"]`: normally a string, but any JSON value is stored -/
inductive NameVal
  | str (s : String)
  | other (py : String)        -- not a string; `py` = its `str()`
deriving DecidableEq, Repr

def NameVal.ofJ : J → NameVal
  | .str s => .str s
  | j => .other (pyStr j)

def NameVal.py : NameVal → String
  | .str s => s
  | .other p => p

mutual
inductive Node
  | mk (nid : Nat) (kind : Nat) (mod cls : NameVal) (extra : List String) (kids : Kids) (ref : Ref)
  | backref (nid : Nat)
inductive Kids
  | nil
  | node (slot label : String) (grp : Grp) (n : Node) (rest : Kids)
  | raw (slot : String) (j : J) (rest : Kids)
  | absent (slot : String) (rest : Kids)
  | blob (slot : String) (member : String) (rest : Kids)
  /-- the `TypeNode` a loader builds itself from names it chose (ReduceNode's `constructor`): always a
  current-protocol TypeNode, never memoized -/
  | synth (slot : String) (nid : Nat) (mod cls : NameVal) (extra : List String) (rest : Kids)
/-- `CachedNode.cached` -/
inductive Ref
  | no
  | missing
  | to (n : Node)
end

instance : Inhabited Node := ⟨.backref 0⟩

def Node.nid : Node → Nat
  | .mk nid .. => nid
  | .backref nid => nid

/-- the node child stored under `key` (first one) -/
def Kids.findNode (key : String) : Kids → Option Node
  | .nil => none
  | .node slot _ _ n rest => if slot = key then some n else rest.findNode key
  | .raw _ _ rest => rest.findNode key
  | .absent _ rest => rest.findNode key
  | .blob _ _ rest => rest.findNode key
  | .synth _ _ _ _ _ rest => rest.findNode key

/-- names of the synthetic child stored under `key` -/
def Kids.findSynth (key : String) : Kids → Option (NameVal × NameVal)
  | .nil => none
  | .synth slot _ m c _ rest => if slot = key then some (m, c) else rest.findSynth key
  | .node _ _ _ _ rest => rest.findSynth key
  | .raw _ _ rest => rest.findSynth key
  | .absent _ rest => rest.findSynth key
  | .blob _ _ rest => rest.findSynth key

/-- the raw child stored under `key` -/
def Kids.findRaw (key : String) : Kids → Option J
  | .nil => none
  | .raw slot j rest => if slot = key then some j else rest.findRaw key
  | .node _ _ _ _ rest => rest.findRaw key
  | .absent _ rest => rest.findRaw key
  | .blob _ _ rest => rest.findRaw key
  | .synth _ _ _ _ _ rest => rest.findRaw key

/-- `module_name + "." + class_name`; `none` = `TypeError` (a name is not a string) -/
def qual (mod cls : NameVal) : Option String :=
  match mod, cls with
  | .str m, .str c => some (m ++ "." ++ c)
  | _, _ => none

/-- `f"{module_name}.{class_name}"` -/
def qualFmt (mod cls : NameVal) : String := mod.py ++ "." ++ cls.py

end Skops.Io
