/-!
# Value layer: what `get_state` writes for a value and what `construct` builds from it

`encode` mirrors the `*_get_state` functions for the container families, `decode` the matching
`_construct`s.  Leaves whose bytes are produced by third-party codecs (numpy `.npy`, scipy `.npz`, RNG
state dicts, ...) are `opaque` tokens: their round trip is a library contract.  Numbers are kept as the
text Python prints for them (`str(int)`, `repr(float)`); `int(str(i)) == i` and `float(repr(x)) == x`
are contracts of CPython.
-/
namespace Skops.Io.Value

inductive Scalar
  | none | bool (b : Bool) | int (dec : String) | float (rep : String) | str (s : String)
deriving DecidableEq, Repr

/-- the Python type of a dict key, as stored in `key_types` -/
inductive KeyType
  | str | int | float | bool | npint (ty : String) | npfloat (ty : String) | npbool
deriving DecidableEq, Repr

/-- dict keys of the modelled grammar (a `None` key is outside it: `builtins.NoneType` cannot be resolved when the
`key_types` list is constructed, so such a dict is refused at load — covered by the implementation-level oracle) -/
inductive Key
  | str (s : String) | int (dec : String) | float (rep : String) | bool (b : Bool)
  | npint (ty dec : String) | npfloat (ty rep : String) | npbool (b : Bool)
deriving DecidableEq, Repr

def boolText (b : Bool) : String := if b then "true" else "false"

/-- the json object key `json.dumps` writes (numpy scalars went through `.item()` first) -/
def Key.text : Key → String
  | .str s => s
  | .int d => d
  | .float r => r
  | .bool b => boolText b
  | .npint _ d => d
  | .npfloat _ r => r
  | .npbool b => boolText b

def Key.ty : Key → KeyType
  | .str _ => .str
  | .int _ => .int
  | .float _ => .float
  | .bool _ => .bool
  | .npint ty _ => .npint ty
  | .npfloat ty _ => .npfloat ty
  | .npbool _ => .npbool

/-- `DictNode._restore_key(k_type, key)` -/
def restoreKey : KeyType → String → Key
  | .str, t => .str t
  | .int, t => .int t
  | .float, t => .float t
  | .bool, t => .bool (t == "true")
  | .npint ty, t => .npint ty t
  | .npfloat ty, t => .npfloat ty t
  | .npbool, t => .npbool (t == "true")

/-- what `k_type(key)` alone would give: the constructor of bool does not parse the json text
(`bool("false")` is `True`) -/
def restoreKeyNaive : KeyType → String → Option Key
  | .bool, t => some (.bool (t != ""))
  | .npbool, t => some (.npbool (t != ""))
  | ty, t => some (restoreKey ty t)

inductive DictCls
  | dict | ordered | sub (cls : String) | default (cls factory : String)
deriving DecidableEq, Repr

mutual
inductive PyVal
  | scalar (s : Scalar)
  | list (cls : String) (xs : PyVals)          -- list or a subclass of it
  | tuple (xs : PyVals)
  | namedtuple (cls : String) (xs : PyVals)
  | tupleSub (cls : String) (xs : PyVals)
  | set (cls : String) (xs : PyVals)
  | frozenset (xs : PyVals)
  | dict (cls : DictCls) (es : PyEntries)
  | opaque (family payload : String)           -- arrays, numpy scalars, dtypes, masked arrays, RNGs, sparse, bytes, callables
  | objarray (shape : List Nat) (cells : PyVals)
  /-- an object persisted through `__getstate__()` / `__dict__` (ObjectNode): determined by its class and
  that state (contract: `cls.__new__(cls)` + `__setstate__` / `__dict__.update` rebuilds it) -/
  | obj (cls : String) (state : PyVal)
  | property                                   -- a `property` object (only meaningful as a dict value)
  | unsupported (why : String)
inductive PyVals
  | nil
  | cons (x : PyVal) (xs : PyVals)
inductive PyEntries
  | nil
  | cons (k : Key) (v : PyVal) (rest : PyEntries)
end

mutual
/-- the typed content of `schema.json` (ids and member names abstracted away) -/
inductive Sch
  | json (s : Scalar)                                         -- JsonNode
  | seq (loader cls : String) (items : Schs)                  -- ListNode / TupleNode / SetNode
  | ctor (cls : String) (args : Sch)                          -- ConstructorFromReduceNode
  | dict (cls : String) (keyTypes : List KeyType) (content : SchEntries)   -- DictNode
  | ddict (cls factory : String) (main : Sch)                 -- DefaultDictNode
  | opaque (family payload : String)
  | objarr (shape : List Nat) (content : Schs)                -- NdArrayNode, type "json"
  | obj (cls : String) (content : Sch)                        -- ObjectNode
inductive Schs
  | nil
  | cons (x : Sch) (xs : Schs)
inductive SchEntries
  | nil
  | cons (text : String) (v : Sch) (rest : SchEntries)
end

def PyEntries.keys : PyEntries → List Key
  | .nil => []
  | .cons k _ rest => k :: rest.keys

def PyVals.length : PyVals → Nat
  | .nil => 0
  | .cons _ xs => xs.length + 1

def PyVal.isProperty : PyVal → Bool
  | .property => true
  | _ => false

/-- the entries `dict_get_state` keeps: values that are `property` objects are skipped -/
def PyEntries.kept : PyEntries → PyEntries
  | .nil => .nil
  | .cons k v rest => if v.isProperty then rest.kept else .cons k v rest.kept

mutual
/-- `get_state`; `none` = the dump raises -/
def encode : PyVal → Option Sch
  | .scalar s => some (.json s)
  | .list cls xs => (encodeAll xs).map (.seq "ListNode" cls)
  | .tuple xs => (encodeAll xs).map (.seq "TupleNode" "builtins.tuple")
  | .namedtuple cls xs => (encodeAll xs).map (.seq "TupleNode" cls)
  | .tupleSub cls xs => (encodeAll xs).map (.seq "TupleNode" cls)
  | .set cls xs => (encodeAll xs).map (.seq "SetNode" cls)
  | .frozenset xs =>
    -- `frozenset.__reduce__()` is `(frozenset, ([items],), None)`: the arguments are a 1-tuple holding a list
    (encodeAll xs).map fun items =>
      .ctor "builtins.frozenset" (.seq "TupleNode" "builtins.tuple" (.cons (.seq "ListNode" "builtins.list" items) .nil))
  | .dict cls es =>
    let texts := es.kept.keys.map Key.text
    -- keys that cannot be told apart as json text are refused
    if texts.Nodup then
      match encodeEntries es with
      | some content =>
        let types := es.keys.map Key.ty        -- `key_types` lists the type of *every* key, skipped or not
        match cls with
        | .dict => some (.dict "builtins.dict" types content)
        | .ordered => some (.dict "collections.OrderedDict" types content)
        | .sub c => some (.dict c types content)
        | .default c f => some (.ddict c f (.dict "builtins.dict" types content))
      | none => none
    else none
  | .opaque f p => some (.opaque f p)
  | .objarray shape cells =>
    -- 0-d object arrays are refused; the nesting of `tolist()` is abstracted to the flat C-order cell list
    if shape.isEmpty then none
    else if cells.length = shape.foldl (· * ·) 1 then (encodeAll cells).map (.objarr shape) else none
  | .obj cls state => (encode state).map (.obj cls)
  | .property => none
  | .unsupported _ => none
def encodeAll : PyVals → Option Schs
  | .nil => some .nil
  | .cons x xs =>
    match encode x, encodeAll xs with
    | some a, some b => some (.cons a b)
    | _, _ => none
/-- the `content` dict: entries whose value is a `property` object are skipped -/
def encodeEntries : PyEntries → Option SchEntries
  | .nil => some .nil
  | .cons k v rest =>
    if v.isProperty then encodeEntries rest
    else
      match encode v, encodeEntries rest with
      | some a, some b => some (.cons k.text a b)
      | _, _ => none
end

/-- `zip(key_types, content.items())` with `_restore_key` -/
def zipKeys : List KeyType → SchEntries → (Sch → Option PyVal) → Option PyEntries
  | _, .nil, _ => some .nil
  | [], .cons _ _ _, _ => some .nil                       -- zip stops at the shorter one
  | ty :: tys, .cons text v rest, dec =>
    match dec v, zipKeys tys rest dec with
    | some a, some b => some (.cons (restoreKey ty text) a b)
    | _, _ => none

mutual
/-- `construct`; `none` = loading raises -/
def decode : Sch → Option PyVal
  | .json s => some (.scalar s)
  | .seq loader cls items =>
    match decodeAll items with
    | none => none
    | some xs =>
      if loader = "ListNode" then some (.list cls xs)
      else if loader = "SetNode" then some (.set cls xs)
      else if loader = "TupleNode" then
        if cls = "builtins.tuple" then some (.tuple xs)
        else if cls.startsWith "nt:" then some (.namedtuple cls xs)      -- `isnamedtuple(cls)`; the harness tags such classes
        else some (.tupleSub cls xs)
      else none
  | .ctor cls args =>
    if cls = "builtins.frozenset" then
      match decode args with
      | some (.tuple (.cons (.list _ xs) .nil)) => some (.frozenset xs)
      | _ => none
    else none
  | .dict cls types content =>
    match decodeEntries types content with
    | none => none
    | some es =>
      if cls = "builtins.dict" then some (.dict .dict es)
      else if cls = "collections.OrderedDict" then some (.dict .ordered es)
      else some (.dict (.sub cls) es)
  | .ddict cls factory main =>
    match decode main with
    | some (.dict .dict es) => some (.dict (.default cls factory) es)
    | _ => none
  | .opaque f p => some (.opaque f p)
  | .objarr shape content =>
    match decodeAll content with
    | some cells => some (.objarray shape cells)
    | none => none
  | .obj cls content => (decode content).map (.obj cls)
def decodeAll : Schs → Option PyVals
  | .nil => some .nil
  | .cons x xs =>
    match decode x, decodeAll xs with
    | some a, some b => some (.cons a b)
    | _, _ => none
def decodeEntries : List KeyType → SchEntries → Option PyEntries
  | _, .nil => some .nil
  | [], .cons _ _ _ => some .nil
  | ty :: tys, .cons text v rest =>
    match decode v, decodeEntries tys rest with
    | some a, some b => some (.cons (restoreKey ty text) a b)
    | _, _ => none
end

end Skops.Io.Value
