import SkopsModel.Io.GetTree
import SkopsModel.Io.Trace
/-!
# `load` / `loads` / `get_untrusted_types` as functions of (archive, T)

`rejectTrue ≺ open ≺ get_tree ≺ audit_tree ≺ construct` — the statement order is a generated flow
fact (`Generated.Facts`); here the phases are composed in that order.
-/
namespace Skops.Io

inductive Outcome
  | treeError (e : LErr)                 -- `get_tree` raised
  | auditError                           -- the audit raised something other than UntrustedTypesFoundException
  | untrusted (names : List String)      -- UntrustedTypesFoundException(names), sorted, duplicate free
  | constructed (events : List Event)    -- audit passed; what construct may do because the archive named it
deriving Repr

mutual
/-- what the `__init__`s of the nodes of a tree did besides reading the archive (per the table) -/
def Node.initEvents (tbl : Table) : Node → List String
  | .backref _ => []
  | .mk _ kind _ _ _ kids ref => (tbl.kind kind).initEffects ++ kids.initEvents tbl ++ ref.initEvents tbl
def Kids.initEvents (tbl : Table) : Kids → List String
  | .nil => []
  | .node _ _ _ n rest => n.initEvents tbl ++ rest.initEvents tbl
  | .raw _ _ rest => rest.initEvents tbl
  | .absent _ rest => rest.initEvents tbl
  | .blob _ _ rest => rest.initEvents tbl
  | .synth _ _ _ _ _ rest => rest.initEvents tbl
def Ref.initEvents (tbl : Table) : Ref → List String
  | .to n => n.initEvents tbl
  | .no => []
  | .missing => []
end

/-- verdict and trace for a tree that was built -/
def loadTree (tbl : Table) (root : Node) (T : List String) : Outcome :=
  match root.unsafe tbl T with
  | none => .auditError
  | some l =>
    let names := sortDedup l
    if names.isEmpty then .constructed (traceOf tbl root) else .untrusted names

/-- `load(file, trusted=T)` / `loads(data, trusted=T)` after the `trusted is True` check -/
def load (tbl : Table) (schema : J) (members : List String) (fuel : Nat) (T : List String) : Outcome :=
  match getTreeRoot tbl schema members fuel with
  | .error e => .treeError e
  | .ok root => loadTree tbl root T

/-- `get_untrusted_types(data=...)` -/
def getUntrustedTypes (tbl : Table) (schema : J) (members : List String) (fuel : Nat) : Option (List String) :=
  match getTreeRoot tbl schema members fuel with
  | .error _ => none
  | .ok root => untrusted tbl root

end Skops.Io
