import Lean.Data.Json
import SkopsModel.Card.Ops
/-!
Line-protocol driver: one JSON object per input line, one JSON object per output line.
This file is glue (JSON decoding/encoding only); every decision is taken by the model functions.
-/
open Lean Skops Skops.Card

structure St where
  card : Card := {}

def jStr (j : Json) (k : String) : String := (j.getObjValAs? String k).toOption.getD ""
def jBool (j : Json) (k : String) : Bool := (j.getObjValAs? Bool k).toOption.getD false
def jOptStr (j : Json) (k : String) : Option String :=
  match j.getObjVal? k with
  | .ok (.str s) => some s
  | _ => none
def jArr (j : Json) (k : String) : List Json :=
  match j.getObjVal? k with
  | .ok (.arr a) => a.toList
  | _ => []
def asStr : Json → String
  | .str s => s
  | _ => ""
def asList : Json → List Json
  | .arr a => a.toList
  | _ => []
def asPair (j : Json) : String × String :=
  match asList j with
  | [a, b] => (asStr a, asStr b)
  | _ => ("", "")
def asTable (j : Json) : Table :=
  (asList j).map fun col =>
    match asList col with
    | [k, vs] => (asStr k, (asList vs).map asStr)
    | _ => ("", [])
def jPairs (j : Json) (k : String) : List (String × String) := (jArr j k).map asPair
def jStrs (j : Json) (k : String) : List String := (jArr j k).map asStr

def errName : Err → String
  | .keyError => "KeyError" | .valueError => "ValueError" | .typeError => "TypeError"

def outJson : Out → Json
  | .ok => Json.mkObj [("r", "ok")]
  | .err e => Json.mkObj [("r", "err"), ("e", errName e)]
  | .text s => Json.mkObj [("r", "text"), ("s", s)]
  | .sec s keys => Json.mkObj [
      ("r", "sec"), ("title", s.title), ("content", s.content), ("format", s.format),
      ("kind", match s.body with | .text _ => "text" | .plot .. => "plot" | .table .. => "table"),
      ("visible", s.visible), ("folded", s.folded), ("keys", Json.arr (keys.map Json.str).toArray)]

def cardOp (j : Json) (name : String) : Option Op :=
  match name with
  | "add" => some (.add (jBool j "folded") (jPairs j "items"))
  | "add_plot" => some (.addPlot (jOptStr j "description") (jOptStr j "alt_text") (jBool j "folded") (jPairs j "items"))
  | "add_table" => some (.addTable (jOptStr j "description") (jBool j "folded")
      ((jArr j "items").map fun it => match asList it with
        | [k, t] => (asStr k, asTable t)
        | _ => ("", [])))
  | "add_metrics" => some (.addMetrics (jStr j "section") (jOptStr j "description") (jPairs j "items"))
  | "add_hyperparams" => some (.addHyperparams (jStr j "section") (jOptStr j "description") (jPairs j "items"))
  | "select" => some (.select (jStr j "key"))
  | "select_chain" =>
    match jStrs j "keys" with
    | k :: ks => some (.selectChain k ks)
    | [] => none
  | "delete" => some (.delete (jStr j "key"))
  | "delete_list" => some (.deleteList (jStrs j "names"))
  | "set_visible" => some (.setVisible (jStr j "key") (jBool j "value"))
  | "set_folded" => some (.setFolded (jStr j "key") (jBool j "value"))
  | "render" => some .render
  | "toc" => some .toc
  | "save" => some .save
  | _ => none

def badOp : Json := Json.mkObj [("r", "bad-op")]

def handle (st : St) (j : Json) : St × Json :=
  let op := jStr j "op"
  if op = "card.new" then ({ st with card := {} }, Json.mkObj [("r", "ok")])
  else if op.startsWith "card." then
    match cardOp j (op.drop 5).toString with
    | some o =>
      let r := step st.card o
      ({ st with card := r.1 }, outJson r.2)
    | none => (st, badOp)
  else if op = "split" then
    (st, Json.mkObj [("r", "list"), ("v", Json.arr ((split (jStr j "key")).map Json.str).toArray)])
  else if op = "ws" then
    -- all code points the model regards as whitespace
    (st, Json.mkObj [("r", "list"), ("v", Json.arr (pySpaceCodes.map fun (n : Nat) => (n : Json)).toArray)])
  else (st, badOp)

partial def loop (h : IO.FS.Stream) (out : IO.FS.Stream) (st : St) : IO Unit := do
  let line ← h.getLine
  if line.isEmpty then return ()
  let (st', res) :=
    match Json.parse line with
    | .ok j => handle st j
    | .error _ => (st, badOp)
  out.putStrLn res.compress
  loop h out st'

def main : IO Unit := do
  let out ← IO.getStdout
  loop (← IO.getStdin) out {}
