import Lean.Data.Json
import SkopsModel.Card.Ops
import SkopsModel.Markup.Parser
import SkopsModel.Io.GetTree
import SkopsModel.Io.Trace
import SkopsModel.Io.Visualize
import SkopsModel.Io.Value
import SkopsModel.Lemmas.IoAudit
import SkopsModel.Generated.Specs
import SkopsModel.Generated.Skeletons
import SkopsModel.Fs.Canon
import SkopsModel.Fs.Fault
/-!
Line-protocol driver: one JSON object per input line, one JSON object per output line.
This file is glue (JSON decoding/encoding only); every decision is taken by the model functions.
-/
open Lean Skops Skops.Card Skops.Markup Skops.Io

structure DSt where
  card : Card := {}

def jStr (j : Json) (k : String) : String := (j.getObjValAs? String k).toOption.getD ""
def jBool (j : Json) (k : String) : Bool := (j.getObjValAs? Bool k).toOption.getD false
def jOptStr (j : Json) (k : String) : Option String :=
  match j.getObjVal? k with
  | .ok (.str s) => some s
  | _ => none
def jArr (j : Json) (k : String) : List Json :=
  match j.getObjVal? k with
  | .ok (.arr a) => a.toList
  | _ => []
def asStr : Json → String
  | .str s => s
  | _ => ""
def asList : Json → List Json
  | .arr a => a.toList
  | _ => []
def asPair (j : Json) : String × String :=
  match asList j with
  | [a, b] => (asStr a, asStr b)
  | _ => ("", "")
def asTable (j : Json) : Card.Table :=
  (asList j).map fun col =>
    match asList col with
    | [k, vs] => (asStr k, (asList vs).map asStr)
    | _ => ("", [])
def jPairs (j : Json) (k : String) : List (String × String) := (jArr j k).map asPair
def jStrs (j : Json) (k : String) : List String := (jArr j k).map asStr

def errName : Card.Err → String
  | .keyError => "KeyError" | .valueError => "ValueError" | .typeError => "TypeError"

def outJson : Out → Json
  | .ok => Json.mkObj [("r", "ok")]
  | .err e => Json.mkObj [("r", "err"), ("e", errName e)]
  | .text s => Json.mkObj [("r", "text"), ("s", s)]
  | .sec s keys => Json.mkObj [
      ("r", "sec"), ("title", s.title), ("content", s.content), ("format", s.format),
      ("kind", match s.body with | .text _ => "text" | .plot .. => "plot" | .table .. => "table"),
      ("visible", s.visible), ("folded", s.folded), ("keys", Json.arr (keys.map Json.str).toArray)]

def cardOp (j : Json) (name : String) : Option Op :=
  match name with
  | "add" => some (.add (jBool j "folded") (jPairs j "items"))
  | "add_plot" => some (.addPlot (jOptStr j "description") (jOptStr j "alt_text") (jBool j "folded") (jPairs j "items"))
  | "add_table" => some (.addTable (jOptStr j "description") (jBool j "folded")
      ((jArr j "items").map fun it => match asList it with
        | [k, t] => (asStr k, asTable t)
        | _ => ("", [])))
  | "add_metrics" => some (.addMetrics (jStr j "section") (jOptStr j "description") (jPairs j "items"))
  | "add_hyperparams" => some (.addHyperparams (jStr j "section") (jOptStr j "description") (jPairs j "items"))
  | "select" => some (.select (jStr j "key"))
  | "select_chain" =>
    match jStrs j "keys" with
    | k :: ks => some (.selectChain k ks)
    | [] => none
  | "delete" => some (.delete (jStr j "key"))
  | "delete_list" => some (.deleteList (jStrs j "names"))
  | "set_visible" => some (.setVisible (jStr j "key") (jBool j "value"))
  | "set_folded" => some (.setFolded (jStr j "key") (jBool j "value"))
  | "render" => some .render
  | "toc" => some .toc
  | "save" => some .save
  | _ => none


/-! ## pandoc JSON → `Item` (glue; malformed shapes become `.other`) -/

instance : Inhabited Items := ⟨Items.nil⟩
instance : Inhabited ItemsList := ⟨ItemsList.nil⟩
instance : Inhabited Item := ⟨Item.space⟩

def jIdx (j : Json) (i : Nat) : Json := (asList j).getD i Json.null

mutual
partial def decItems (j : Json) : Items :=
  (asList j).foldr (fun x acc => Items.cons (decItem x) acc) Items.nil
partial def decItemsList (j : Json) : ItemsList :=
  (asList j).foldr (fun x acc => ItemsList.cons (decItems x) acc) ItemsList.nil
partial def decItem (j : Json) : Item :=
  match j with
  | .str s => .raw s
  | _ =>
    let t := jStr j "t"
    let c := (j.getObjVal? "c").toOption.getD Json.null
    match t with
    | "Space" => .space
    | "SoftBreak" => .softBreak
    | "LineBreak" => .lineBreak
    | "Str" => .str (asStr c)
    | "Plain" => .plain (decItems c)
    | "Para" => .para (decItems c)
    | "Strong" => .strong (decItems c)
    | "Emph" => .emph (decItems c)
    | "Strikeout" => .strikeout (decItems c)
    | "RawInline" => .rawInline (asStr (jIdx c 1))
    | "RawBlock" => .rawBlock (asStr (jIdx c 1))
    | "Header" => .header ((jIdx c 0).getNat?.toOption.getD 0) (decItems (jIdx c 2))
    | "Image" => .image (decItems (jIdx c 1)) (asStr (jIdx (jIdx c 2) 0)) (asStr (jIdx (jIdx c 2) 1))
    | "CodeBlock" => .codeBlock ((asList (jIdx (jIdx c 0) 1)).map asStr) (asStr (jIdx c 1))
    | "Code" => .code (asStr (jIdx c 1))
    | "Table" =>
      if (asList c).length = 6 then
        -- pandoc >= 2.10: attr capt specs thead tbody tfoot
        let theadBody := jIdx (jIdx (jIdx (jIdx c 3) 1) 0) 1
        let cols := (asList theadBody).foldr
          (fun cell acc => Items.cons (.plain (decItems (jIdx cell 4))) acc) Items.nil
        let trows := jIdx (jIdx (jIdx c 4) 0) 3
        let rows := (asList trows).foldr (fun row acc =>
          ItemsList.cons ((asList (jIdx row 1)).foldr
            (fun cell acc2 => Items.cons (.plain (decItems (jIdx cell 4))) acc2) Items.nil) acc) ItemsList.nil
        .table cols rows
      else
        let cols := (asList (jIdx c 3)).foldr (fun cell acc => Items.cons (decItem (jIdx cell 0)) acc) Items.nil
        let rows := (asList (jIdx c 4)).foldr (fun row acc =>
          ItemsList.cons ((asList row).foldr (fun cell acc2 =>
            Items.cons (if (asList cell).isEmpty then .raw "" else decItem (jIdx cell 0)) acc2) Items.nil) acc)
          ItemsList.nil
        .table cols rows
    | "Div" =>
      let attr := jIdx c 0
      .div (asStr (jIdx attr 0)) ((asList (jIdx attr 1)).map asStr) ((asList (jIdx attr 2)).map asPair)
        (decItems (jIdx c 1))
    | "Link" => .link (decItems (jIdx c 1)) (asStr (jIdx (jIdx c 2) 0))
    | "BulletList" => .bulletList (decItemsList c)
    | "OrderedList" => .orderedList ((jIdx (jIdx c 0) 0).getNat?.toOption.getD 0) (decItemsList (jIdx c 1))
    | "Quoted" => .quoted (jStr (jIdx c 0) "t") (decItems (jIdx c 1))
    | "BlockQuote" => .blockQuote (decItems c)
    | other => .other other
end

def strArr (xs : List String) : Json := Json.arr (xs.map Json.str).toArray

/-- convert the items one after the other on ONE Markdown instance -/
def mdConvAll : List Item → Markup.St → List Json × Markup.St
  | [], st => ([], st)
  | x :: xs, st =>
    let r := conv x st
    let o := match r.1 with
      | .ok s => Json.mkObj [("ok", s)]
      | .error _ => Json.mkObj [("err", "ValueError")]
    let rest := mdConvAll xs r.2
    (o :: rest.1, rest.2)

partial def forestJson (prefixPath : List String) : Forest → List Json
  | .nil => []
  | .cons k s ch rest =>
    let p := prefixPath ++ [k]
    Json.mkObj [("path", strArr p), ("title", s.title), ("content", s.content)]
      :: (forestJson p ch ++ forestJson prefixPath rest)


/-! ## io: tagged JSON → `J`, tree dump -/

instance : Inhabited J := ⟨J.null⟩
def natJ (n : Nat) : Json := (n : Json)

mutual
partial def decJ (j : Json) : J :=
  match asList j with
  | [Json.str "n"] => .null
  | [Json.str "b", Json.bool b] => .bool b
  | [Json.str "i", Json.str s] => .int (s.toInt?.getD 0)
  | [Json.str "f", Json.str tok, Json.str i] => .float tok (i.toInt?)
  | [Json.str "f", Json.str tok, _] => .float tok none
  | [Json.str "s", Json.str s] => .str s
  | [Json.str "a", xs] => .arr ((asList xs).foldr (fun x acc => JL.cons (decJ x) acc) JL.nil)
  | [Json.str "o", kvs] => .obj ((asList kvs).foldr (fun kv acc =>
      match asList kv with
      | [Json.str k, v] => JO.cons k (decJ v) acc
      | _ => acc) JO.nil)
  | _ => .null
end

partial def encJ : J → Json
  | .null => Json.null
  | .bool b => Json.bool b
  | .int i => Json.mkObj [("i", toString i)]
  | .float tok _ => Json.mkObj [("f", tok)]
  | .str s => Json.str s
  | .arr xs => Json.arr (xs.toList.map encJ).toArray
  | .obj kvs => Json.arr (kvs.toList.map fun kv => Json.arr #[Json.str kv.1, encJ kv.2]).toArray

def optStr : Option String → Json
  | some s => Json.str s
  | none => Json.null

def nameJ : NameVal → Json
  | .str s => Json.str s
  | .other _ => Json.null

def grpName : Grp → String
  | .single => "single" | .listElem => "list" | .dictElem => "dict"

/-- DFS dump; a node met again (same nid) is listed as a reference to its first visit -/
partial def dumpNode (tbl : Io.Table) (depth : Nat) (slot label grp : String) (n : Node)
    (seen : List Nat) (acc : Array Json) : List Nat × Array Json :=
  match n with
  | .backref nid =>
    (seen, acc.push (Json.mkObj [("d", natJ depth), ("slot", slot), ("label", label), ("grp", grp), ("t", "ref"),
      ("idx", natJ (seen.reverse.idxOf nid))]))
  | .mk nid kind mod cls extra kids ref =>
    if seen.contains nid then
      (seen, acc.push (Json.mkObj [("d", natJ depth), ("slot", slot), ("label", label), ("grp", grp), ("t", "ref"),
        ("idx", natJ (seen.reverse.idxOf nid))]))
    else
      let k := tbl.kind kind
      let acc := acc.push (Json.mkObj [("d", natJ depth), ("slot", slot), ("label", label), ("grp", grp), ("t", "node"),
        ("cls", k.cls), ("mod", nameJ mod), ("name", nameJ cls), ("extra", strArr extra)])
      let seen := nid :: seen
      let rec kidsLoop (ks : Kids) (seen : List Nat) (acc : Array Json) : List Nat × Array Json :=
        match ks with
        | .nil => (seen, acc)
        | .node s l g c rest =>
          let r := dumpNode tbl (depth + 1) s l (grpName g) c seen acc
          kidsLoop rest r.1 r.2
        | .raw s j rest =>
          kidsLoop rest seen (acc.push (
            if j.isNull then Json.mkObj [("d", natJ (depth + 1)), ("slot", s), ("t", "none")]
            else Json.mkObj [("d", natJ (depth + 1)), ("slot", s), ("t", "raw"), ("v", encJ j)]))
        | .absent s rest =>
          kidsLoop rest seen (acc.push (Json.mkObj [("d", natJ (depth + 1)), ("slot", s), ("t", "none")]))
        | .blob s m rest =>
          kidsLoop rest seen (acc.push (Json.mkObj [("d", natJ (depth + 1)), ("slot", s), ("t", "blob"), ("member", m)]))
        | .synth s snid m c extra rest =>
          kidsLoop rest (snid :: seen) (acc.push (Json.mkObj [("d", natJ (depth + 1)), ("slot", s), ("label", s),
            ("grp", "single"), ("t", "node"),
            ("cls", ((tbl.find? "TypeNode" tbl.protocol).map (·.2.cls)).getD "?"), ("mod", nameJ m), ("name", nameJ c),
            ("extra", strArr extra)]))
      let r := kidsLoop kids seen acc
      match ref with
      | .no => r
      | .missing => (r.1, r.2.push (Json.mkObj [("d", natJ (depth + 1)), ("slot", "@memo"), ("t", "none")]))
      | .to c => dumpNode tbl (depth + 1) "@memo" "@memo" "single" c r.1 r.2

def eventJson (tbl : Io.Table) : Event → Json
  | .resolve name kind _ => Json.mkObj [("e", "resolve"), ("name", name), ("by", (tbl.kind kind).cls)]
  | .resolveIn m kind _ => Json.mkObj [("e", "resolveIn"), ("module", m), ("by", (tbl.kind kind).cls)]
  | .getattr name kind _ => Json.mkObj [("e", "getattr"), ("name", name), ("by", (tbl.kind kind).cls)]

def errStr : LErr → String
  | .keyError => "KeyError" | .typeError => "TypeError" | .valueError => "ValueError"
  | .attrError => "AttributeError" | .recursion => "RecursionError" | .importError => "ImportError"

def rowJson (r : Row) : Json :=
  Json.mkObj [("level", natJ r.level), ("key", r.key), ("val", r.val), ("self_safe", r.selfSafe), ("safe", r.safe)]

mutual
partial def nodeCyclic : Node → Bool
  | .backref _ => true
  | .mk _ _ _ _ _ kids _ => kidsCyclic kids
partial def kidsCyclic : Kids → Bool
  | .nil => false
  | .node _ _ _ n rest => nodeCyclic n || kidsCyclic rest
  | .raw _ _ rest => kidsCyclic rest
  | .absent _ rest => kidsCyclic rest
  | .blob _ _ rest => kidsCyclic rest
  | .synth _ _ _ _ _ rest => kidsCyclic rest
end

def ioVisualize (j : Json) : Json :=
  let tbl := Skops.Generated.table
  let schema := decJ ((j.getObjVal? "schema").toOption.getD Json.null)
  let members := jStrs j "members"
  let fuel := ((j.getObjValAs? Nat "fuel").toOption.getD 400)
  let T := jStrs j "trusted"
  match getTreeRoot tbl schema members fuel with
  | .error e => Json.mkObj [("r", "err"), ("e", errStr e)]
  | .ok root =>
    match root.walk tbl T "root" 0 with
    | .error .audit => Json.mkObj [("r", "err"), ("e", "audit"), ("cyclic", nodeCyclic root)]
    | .error .recursion => Json.mkObj [("r", "err"), ("e", "RecursionError"), ("cyclic", true)]
    | .ok rows =>
      Json.mkObj [("r", "rows"), ("cyclic", nodeCyclic root), ("walk", Json.arr (rows.map rowJson).toArray),
        ("all", Json.arr ((traverse .all rows).map rowJson).toArray),
        ("untrusted", Json.arr ((traverse .untrusted rows).map rowJson).toArray),
        ("trusted", Json.arr ((traverse .trusted rows).map rowJson).toArray)]

def ioLoad (j : Json) : Json :=
  let tbl := Skops.Generated.table
  let schema := decJ ((j.getObjVal? "schema").toOption.getD Json.null)
  let members := jStrs j "members"
  let fuel := ((j.getObjValAs? Nat "fuel").toOption.getD 400)
  let Ts : List (List String) := (jArr j "trusted").map fun t => (asList t).map asStr
  match getTreeRoot tbl schema members fuel with
  | .error e => Json.mkObj [("r", "err"), ("e", errStr e)]
  | .ok root =>
    let dump := (dumpNode tbl 0 "root" "root" "single" root [] #[]).2
    let unt := match untrusted tbl root with
      | some l => strArr l
      | none => Json.null
    let perT := Ts.map fun T =>
      match root.unsafe tbl T with
      | none => Json.mkObj [("verdict", "audit-error")]
      | some l =>
        let l := sortDedup l
        if l.isEmpty then
          Json.mkObj [("verdict", "ok"), ("events", Json.arr ((traceOf tbl root).map (eventJson tbl)).toArray),
                      ("refsAudited", root.refsAuditedB tbl T)]
        else Json.mkObj [("verdict", "untrusted"), ("names", strArr l)]
    Json.mkObj [("r", "tree"), ("dump", Json.arr dump), ("untrusted", unt), ("perT", Json.arr perT.toArray)]


/-! ## value layer: PyVal JSON ↔ model -/
section ValueGlue
open Skops.Io.Value

def decScalar (j : Json) : Scalar :=
  match asList j with
  | [Json.str "none"] => .none
  | [Json.str "bool", Json.bool b] => .bool b
  | [Json.str "int", Json.str d] => .int d
  | [Json.str "float", Json.str r] => .float r
  | [Json.str "str", Json.str s] => .str s
  | _ => .none

def decKey (j : Json) : Key :=
  match asList j with
  | [Json.str "str", Json.str s] => .str s
  | [Json.str "int", Json.str d] => .int d
  | [Json.str "float", Json.str r] => .float r
  | [Json.str "bool", Json.bool b] => .bool b
  | [Json.str "npint", Json.str ty, Json.str d] => .npint ty d
  | [Json.str "npfloat", Json.str ty, Json.str r] => .npfloat ty r
  | [Json.str "npbool", Json.bool b] => .npbool b
  | _ => .str "?"

def encKey : Key → Json
  | .str s => Json.arr #["str", s]
  | .int d => Json.arr #["int", d]
  | .float r => Json.arr #["float", r]
  | .bool b => Json.arr #["bool", b]
  | .npint ty d => Json.arr #["npint", ty, d]
  | .npfloat ty r => Json.arr #["npfloat", ty, r]
  | .npbool b => Json.arr #["npbool", b]

def decDictCls (j : Json) : DictCls :=
  match asList j with
  | [Json.str "dict"] => .dict
  | [Json.str "ordered"] => .ordered
  | [Json.str "sub", Json.str c] => .sub c
  | [Json.str "default", Json.str c, Json.str f] => .default c f
  | _ => .dict

def encDictCls : DictCls → Json
  | .dict => Json.arr #["dict"]
  | .ordered => Json.arr #["ordered"]
  | .sub c => Json.arr #["sub", c]
  | .default c f => Json.arr #["default", c, f]

instance : Inhabited PyVal := ⟨.property⟩
instance : Inhabited PyVals := ⟨.nil⟩
instance : Inhabited PyEntries := ⟨.nil⟩

mutual
partial def decPyVal (j : Json) : PyVal :=
  match asList j with
  | [Json.str "scalar", s] => .scalar (decScalar s)
  | [Json.str "list", Json.str c, xs] => .list c (decPyVals xs)
  | [Json.str "tuple", xs] => .tuple (decPyVals xs)
  | [Json.str "namedtuple", Json.str c, xs] => .namedtuple c (decPyVals xs)
  | [Json.str "tuplesub", Json.str c, xs] => .tupleSub c (decPyVals xs)
  | [Json.str "set", Json.str c, xs] => .set c (decPyVals xs)
  | [Json.str "frozenset", xs] => .frozenset (decPyVals xs)
  | [Json.str "dict", c, es] => .dict (decDictCls c) (decPyEntries es)
  | [Json.str "opaque", Json.str f, Json.str p] => .opaque f p
  | [Json.str "objarray", shape, cells] => .objarray ((asList shape).map fun x => x.getNat?.toOption.getD 0) (decPyVals cells)
  | [Json.str "obj", Json.str c, st] => .obj c (decPyVal st)
  | [Json.str "property"] => .property
  | [Json.str "unsupported", Json.str w] => .unsupported w
  | _ => .unsupported "?"
partial def decPyVals (j : Json) : PyVals :=
  (asList j).foldr (fun x acc => PyVals.cons (decPyVal x) acc) PyVals.nil
partial def decPyEntries (j : Json) : PyEntries :=
  (asList j).foldr (fun kv acc =>
    match asList kv with
    | [k, v] => PyEntries.cons (decKey k) (decPyVal v) acc
    | _ => acc) PyEntries.nil
end

def encScalar : Scalar → Json
  | .none => Json.arr #["none"]
  | .bool b => Json.arr #["bool", b]
  | .int d => Json.arr #["int", d]
  | .float r => Json.arr #["float", r]
  | .str s => Json.arr #["str", s]

mutual
partial def encPyVal : PyVal → Json
  | .scalar s => Json.arr #["scalar", encScalar s]
  | .list c xs => Json.arr #["list", c, encPyVals xs]
  | .tuple xs => Json.arr #["tuple", encPyVals xs]
  | .namedtuple c xs => Json.arr #["namedtuple", c, encPyVals xs]
  | .tupleSub c xs => Json.arr #["tuplesub", c, encPyVals xs]
  | .set c xs => Json.arr #["set", c, encPyVals xs]
  | .frozenset xs => Json.arr #["frozenset", encPyVals xs]
  | .dict c es => Json.arr #["dict", encDictCls c, encPyEntries es]
  | .opaque f p => Json.arr #["opaque", f, p]
  | .objarray shape cells => Json.arr #["objarray", Json.arr (shape.map natJ).toArray, encPyVals cells]
  | .obj c st => Json.arr #["obj", c, encPyVal st]
  | .property => Json.arr #["property"]
  | .unsupported w => Json.arr #["unsupported", w]
partial def encPyVals : PyVals → Json
  | .nil => Json.arr #[]
  | .cons x xs => match encPyVals xs with
    | Json.arr a => Json.arr (#[encPyVal x] ++ a)
    | _ => Json.arr #[encPyVal x]
partial def encPyEntries : PyEntries → Json
  | .nil => Json.arr #[]
  | .cons k v rest => match encPyEntries rest with
    | Json.arr a => Json.arr (#[Json.arr #[encKey k, encPyVal v]] ++ a)
    | _ => Json.arr #[]
end

def keyTypeName : KeyType → String
  | .str => "str" | .int => "int" | .float => "float" | .bool => "bool"
  | .npint ty => "npint:" ++ ty | .npfloat ty => "npfloat:" ++ ty | .npbool => "npbool"

mutual
partial def schJson : Sch → Json
  | .json s => Json.arr #["json", encScalar s]
  | .seq loader cls items => Json.arr #["seq", loader, cls, schsJson items]
  | .ctor cls args => Json.arr #["ctor", cls, schJson args]
  | .dict cls types content => Json.arr #["dict", cls, Json.arr (types.map fun t => Json.str (keyTypeName t)).toArray, schEntriesJson content]
  | .ddict cls f main => Json.arr #["ddict", cls, f, schJson main]
  | .opaque f _ => Json.arr #["opaque", f]
  | .objarr shape content => Json.arr #["objarr", Json.arr (shape.map natJ).toArray, schsJson content]
  | .obj cls content => Json.arr #["obj", cls, schJson content]
partial def schsJson : Schs → Json
  | .nil => Json.arr #[]
  | .cons x xs => match schsJson xs with
    | Json.arr a => Json.arr (#[schJson x] ++ a)
    | _ => Json.arr #[]
partial def schEntriesJson : SchEntries → Json
  | .nil => Json.arr #[]
  | .cons t v rest => match schEntriesJson rest with
    | Json.arr a => Json.arr (#[Json.arr #[Json.str t, schJson v]] ++ a)
    | _ => Json.arr #[]
end

def valEncode (j : Json) : Json :=
  let v := decPyVal ((j.getObjVal? "value").toOption.getD Json.null)
  match encode v with
  | none => Json.mkObj [("r", "refused")]
  | some s =>
    match decode s with
    | none => Json.mkObj [("r", "ok"), ("schema", schJson s), ("loaded", Json.null)]
    | some w => Json.mkObj [("r", "ok"), ("schema", schJson s), ("loaded", encPyVal w)]

end ValueGlue


namespace FsGlue
open Skops.Fs

def jNat (j : Json) (k : String) (d : Nat) : Nat := (j.getObjValAs? Nat k).toOption.getD d
def jBoolD (j : Json) (k : String) (d : Bool) : Bool := (j.getObjValAs? Bool k).toOption.getD d
def decPath (j : Json) : Fs.Path := ⟨jBool j "abs", jStrs j "parts"⟩
def decOptPath (j : Json) (k : String) : Option Fs.Path :=
  match j.getObjVal? k with
  | .ok Json.null => none
  | .ok p => some (decPath p)
  | .error _ => none
def decBytes (j : Json) : Bytes := (asList j).map fun x => x.getNat?.toOption.getD 0
def rpJ (p : RPath) : Json := strArr p
def bytesJ (b : Bytes) : Json := Json.arr (b.map fun (n : Nat) => (n : Json)).toArray
def opJ : Fs.Op → Json
  | .mkdir d => Json.arr #["mkdir", rpJ d]
  | .create p => Json.arr #["create", rpJ p]
  | .append p b => Json.arr #["append", rpJ p, bytesJ b]
  | .replace a b => Json.arr #["replace", rpJ a, rpJ b]
  | .unlink p => Json.arr #["unlink", rpJ p]
  | .rmtree d => Json.arr #["rmtree", rpJ d]
def sigJ : Sig → Json
  | .next => "next"
  | .ret => "ret"
  | .raised e => Json.str ("raised:" ++ e)
def fsJ (fs : FS) : Json :=
  Json.mkObj [("dirs", Json.arr (fs.dirs.map rpJ).toArray),
              ("files", Json.arr (fs.files.map fun e => Json.arr #[rpJ e.1, bytesJ e.2]).toArray)]

def fsRun (j : Json) : Json :=
  let cfg : Cfg :=
    { cwd := jStrs j "cwd", input := decPath ((j.getObjVal? "input").toOption.getD Json.null),
      output := decOptPath j "output", inplace := jBool j "inplace", proto := jNat j "proto" 0, cur := jNat j "cur" 2,
      loadable := jBoolD j "loadable" true, dumpable := jBoolD j "dumpable" true, untrusted := jStrs j "untrusted",
      chunks := (jArr j "chunks").map decBytes, fresh := jStr j "fresh", sysTmp := jStrs j "sysTmp",
      sysTmpSameFs := jBoolD j "sysTmpSameFs" true, sinkIsPath := jBoolD j "sinkIsPath" true }
  let fs : FS :=
    { dirs := (jArr j "dirs").map fun d => (asList d).map asStr,
      files := (jArr j "files").map fun e => ((asList (jIdx e 0)).map asStr, decBytes (jIdx e 1)) }
  let prog := jStr j "prog"
  -- "fault": n — the file operation number n of the run fails with an I/O error instead of taking place
  let fault : Option Nat := (j.getObjValAs? Nat "fault").toOption
  let r : World × Sig :=
    if prog = "update" ∧ fault.isSome then (runF Skops.Generated.updateMain Skops.Generated.updateInner cfg fs fault).1
    else if prog = "convert" ∧ fault.isSome then (runF Skops.Generated.convertMain Skops.Generated.convertInner cfg fs fault).1
    else if prog = "update" then run Skops.Generated.updateMain Skops.Generated.updateInner cfg fs
    else if prog = "update-old" then run [] updateProgOld cfg fs
    else if prog = "convert" then run Skops.Generated.convertMain Skops.Generated.convertInner cfg fs
    else if prog = "dump" then execL cfg Skops.Generated.dumpBody { fs := fs, output := cfg.output }
    else if prog = "dumps" then execL cfg Skops.Generated.dumpsBody { fs := fs, output := cfg.output }
    else ({ fs := fs }, .raised "bad-prog")
  let w := r.1
  -- the states a crash can leave behind: one per prefix of the trace
  let crash := (List.range (w.trace.length + 1)).map fun k => fsJ (applyAll fs (w.trace.take k))
  Json.mkObj [("r", "fs"), ("sig", sigJ r.2), ("trace", Json.arr (w.trace.map opJ).toArray),
              ("logs", strArr w.logs), ("fs", fsJ w.fs), ("handle", Json.arr (w.handle.map bytesJ).toArray),
              ("returned", match w.returned with | some b => Json.arr (b.map bytesJ).toArray | none => Json.null),
              ("crash", if jBool j "crashStates" then Json.arr crash.toArray else Json.null)]

end FsGlue

def badOp : Json := Json.mkObj [("r", "bad-op")]

def handle (st : DSt) (j : Json) : DSt × Json :=
  let op := jStr j "op"
  if op = "card.new" then ({ st with card := {} }, Json.mkObj [("r", "ok")])
  else if op.startsWith "card." then
    match cardOp j (op.drop 5).toString with
    | some o =>
      let r := step st.card o
      ({ st with card := r.1 }, outJson r.2)
    | none => (st, badOp)
  else if op = "val.encode" then (st, valEncode j)
  else if op = "fs.run" then (st, FsGlue.fsRun j)
  else if op = "io.load" then (st, ioLoad j)
  else if op = "io.visualize" then (st, ioVisualize j)
  else if op = "md.conv" then
    let items := (jArr j "items").map decItem
    let r := mdConvAll items []
    (st, Json.mkObj [("r", "md"), ("out", Json.arr r.1.toArray),
                     ("stack", Json.arr (r.2.map fun (n : Nat) => (n : Json)).toArray)])
  else if op = "parse" then
    match generate ((jArr j "blocks").map decItem) with
    | .ok f => (st, Json.mkObj [("r", "card"), ("sections", Json.arr (forestJson [] f).toArray),
                                ("toc", toc f), ("render", render f)])
    | .error _ => (st, Json.mkObj [("r", "err"), ("e", "ValueError")])
  else if op = "split" then
    (st, Json.mkObj [("r", "list"), ("v", Json.arr ((split (jStr j "key")).map Json.str).toArray)])
  else if op = "ws" then
    -- all code points the model regards as whitespace
    (st, Json.mkObj [("r", "list"), ("v", Json.arr (pySpaceCodes.map fun (n : Nat) => (n : Json)).toArray)])
  else (st, badOp)

partial def loop (h : IO.FS.Stream) (out : IO.FS.Stream) (st : DSt) : IO Unit := do
  let line ← h.getLine
  if line.isEmpty then return ()
  let (st', res) :=
    match Json.parse line with
    | .ok j => handle st j
    | .error _ => (st, badOp)
  out.putStrLn res.compress
  loop h out st'

def main : IO Unit := do
  let out ← IO.getStdout
  loop (← IO.getStdin) out {}
