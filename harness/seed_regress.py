"""Regression over the stored seeded changes: python -m harness.seed_regress [seed ...]
For every /verif/seeded/<id>_<x>/patch.diff: apply it to /repo (plain, else 3-way), run the property's quick check, revert
(always), and record whether the check reported a violation and whether it had a concrete failing input.  Writes
seeded/REGRESSION.md.  /repo must be clean and no other check may be running."""
import json
import os
import subprocess
import sys
import time
from pathlib import Path

VERIF = Path(__file__).resolve().parent.parent
REPO = os.environ.get("SKOPS_REPO", "/repo")


def sh(cmd, **kw):
    p = subprocess.run(cmd, shell=True, capture_output=True, text=True, **kw)
    return p.returncode, p.stdout + p.stderr


def main(argv):
    seeds = argv or sorted(p.name for p in (VERIF / "seeded").iterdir() if (p / "patch.diff").exists())
    rc, out = sh(f"git -C {REPO} status --porcelain --untracked-files=no")
    assert out.strip() == "", "repo not clean: " + out
    head = sh(f"git -C {REPO} rev-parse --short HEAD")[1].strip()
    rows = []
    for s in seeds:
        d = VERIF / "seeded" / s
        prop = s.split("_")[0]
        t0 = time.time()
        rc, out = sh(f"git -C {REPO} apply {d}/patch.diff")
        how = "plain"
        if rc != 0:
            rc, out = sh(f"git -C {REPO} apply --3way {d}/patch.diff")
            how = "3way"
        if rc != 0:
            sh(f"git -C {REPO} reset -q && git -C {REPO} checkout -- .")
            rows.append((s, "does-not-apply", "", out.strip().splitlines()[-1][:120] if out.strip() else ""))
            print(s, "does not apply", flush=True)
            continue
        try:
            rc, o = sh(f"cd {VERIF} && ./check {prop} quick")
        finally:
            sh(f"git -C {REPO} reset -q && git -C {REPO} checkout -- .")
        lines = o.splitlines()
        viol = [l for l in lines if l.startswith("VIOLATION")]
        why = [l.strip() for l in lines if l.startswith("  (")]
        concrete = [v for v in viol if "no-failing-input-found" not in v]
        status = "infrastructure-error" if rc == 2 else ("missed" if not viol else ("caught" if concrete else "caught (no-failing-input-found)"))
        first = ""
        for v, w in zip(viol, why):
            if "no-failing-input-found" not in v or not concrete:
                first = w
                break
        rows.append((s, status, how, first[1:161].replace("|", "\\|")))
        print(s, status, round(time.time() - t0), "s", flush=True)
    out = [f"# Regression of the stored seeded changes against the current checks\n",
           f"`python -m harness.seed_regress` on /repo HEAD {head}: each patch applied, the property's quick check run, the patch reverted.\n",
           "| Seed | Result | Applied | First reported reason |", "|---|---|---|---|"]
    for r in rows:
        out.append("| " + " | ".join(r) + " |")
    summary = {}
    for r in rows:
        summary[r[1]] = summary.get(r[1], 0) + 1
    out.append("")
    out.append("Totals: " + ", ".join(f"{k}: {v}" for k, v in sorted(summary.items())))
    if not argv:
        (VERIF / "seeded" / "REGRESSION.md").write_text("\n".join(out) + "\n")
    print(json.dumps(summary))


if __name__ == "__main__":
    main(sys.argv[1:])
