"""File-system observation for C16/C17/C18: run a piece of the real code in a forked child inside a scratch tree,
record its file operations through an audit hook, optionally kill it at the N-th operation (or in the middle of a
write), and snapshot the tree afterwards."""
from __future__ import annotations

import builtins
import errno
import json
import os
import shutil
import sys
import tempfile
import traceback
from pathlib import Path

WRITE_EVENTS = {"os.rename", "os.mkdir", "os.rmdir", "os.remove", "os.truncate", "os.link", "os.symlink", "shutil.rmtree",
                "shutil.move", "shutil.copyfile", "shutil.copytree"}
CRASH_EXIT = 99


def other_fs_dir():
    """a directory on a different file system than the default scratch area, or None"""
    base = tempfile.gettempdir()
    for cand in ("/dev/shm", "/run/shm", "/run", "/var/tmp"):
        try:
            if os.path.isdir(cand) and os.access(cand, os.W_OK) and os.stat(cand).st_dev != os.stat(base).st_dev:
                return cand
        except OSError:
            continue
    return None


class Sandbox:
    """root/               (model path [])
         w/                working directory of the call
         w/sub/            an existing sub-directory
         abs/              target area for absolute paths
         systmp/           TMPDIR on the same file system (or a directory on another one, model path ["__tmp__"])"""

    def __init__(self, other_fs=False):
        self.root = Path(tempfile.mkdtemp(prefix="verif-fs-"))
        for d in ("w", "w/sub", "abs"):
            (self.root / d).mkdir()
        self.other = None
        if other_fs:
            base = other_fs_dir()
            if base:
                self.other = Path(tempfile.mkdtemp(prefix="verif-fs-", dir=base))
        self.systmp = self.other or (self.root / "systmp")
        if not self.other:
            self.systmp.mkdir()

    def rel(self, p):
        """model path (list of components) of a real path"""
        p = os.path.abspath(p)
        if self.other and (p == str(self.other) or p.startswith(str(self.other) + os.sep)):
            rest = os.path.relpath(p, self.other)
            return ["__tmp__"] + ([] if rest == "." else rest.split(os.sep))
        rest = os.path.relpath(p, self.root)
        if rest.startswith(".."):
            return ["__outside__"] + p.strip(os.sep).split(os.sep)
        return [] if rest == "." else rest.split(os.sep)

    def snapshot(self):
        files, dirs = {}, []
        roots = [(self.root, [])] + ([(self.other, ["__tmp__"])] if self.other else [])
        for base, prefix in roots:
            for dp, dn, fn in os.walk(base):
                relp = os.path.relpath(dp, base)
                here = prefix + ([] if relp == "." else relp.split(os.sep))
                dirs.append(tuple(here))
                for f in fn:
                    fp = os.path.join(dp, f)
                    try:
                        files[tuple(here + [f])] = Path(fp).read_bytes()
                    except OSError:
                        files[tuple(here + [f])] = None
        return dict(files=files, dirs=sorted(dirs))

    def cleanup(self):
        shutil.rmtree(self.root, ignore_errors=True)
        if self.other:
            shutil.rmtree(self.other, ignore_errors=True)


class InjectedFault(OSError):
    """the I/O error the tracer raises in place of an operation (fail_at)"""


class _CrashingWriter:
    """wraps a file opened for writing: every write is split in two with a crash point between the halves"""

    def __init__(self, f, tracer, path):
        self._f, self._t, self._p = f, tracer, path

    def write(self, b):
        mv = memoryview(b)
        half = len(mv) // 2
        if half:
            self._f.write(mv[:half])
            self._f.flush()
        self._t.point("midwrite", self._p)
        self._f.write(mv[half:])
        return len(mv)

    def __enter__(self):
        self._f.__enter__()
        return self

    def close(self):
        # whatever Python still buffers reaches the file only now: a crash point just before
        if not self._f.closed:
            self._t.point("preclose", self._p)
        return self._f.close()

    def __exit__(self, *a):
        if not self._f.closed:
            self._t.point("preclose", self._p)
        return self._f.__exit__(*a)

    def __getattr__(self, n):
        return getattr(self._f, n)

    def __iter__(self):
        return iter(self._f)


class Tracer:
    """audit-hook recorder; `crash_at` = ordinal (1-based) of the crash point at which the process dies *before*
    the operation takes place (for `midwrite`: after the first half of the data reached the file)"""

    def __init__(self, sandbox, crash_at=None, split_writes=True, fail_at=None):
        self.sb, self.crash_at, self.events, self.n = sandbox, crash_at, [], 0
        self.fail_at = fail_at          # ordinal of the operation that fails with OSError (ENOSPC) instead of taking place
        self.active = False
        self.split_writes = split_writes

    def relevant(self, p):
        try:
            p = os.fspath(p)
        except TypeError:
            return False
        if isinstance(p, bytes):
            p = p.decode("utf8", "replace")
        p = os.path.abspath(p)
        return p.startswith(str(self.sb.root)) or (self.sb.other is not None and p.startswith(str(self.sb.other)))

    def point(self, kind, *paths):
        self.n += 1
        self.events.append([kind] + [self.sb.rel(p) for p in paths])
        if self.crash_at is not None and self.n == self.crash_at:
            os._exit(CRASH_EXIT)
        if self.fail_at is not None and self.n == self.fail_at and kind != "preclose":
            self.fail_at = None
            raise InjectedFault(errno.ENOSPC, "No space left on device (injected)", str(paths[0]) if paths else None)

    def hook(self, event, args):
        if not self.active:
            return
        try:
            if event == "open":
                path, mode, flags = args
                if isinstance(path, int) or not self.relevant(path):
                    return
                writing = (mode is not None and any(c in mode for c in "wax+")) or \
                    (mode is None and flags & (os.O_WRONLY | os.O_RDWR | os.O_CREAT | os.O_TRUNC))
                if writing:
                    self.point("open-w", path)
            elif event in WRITE_EVENTS:
                paths = [a for a in args[:2] if isinstance(a, (str, bytes, os.PathLike))]
                if paths and any(self.relevant(p) for p in paths):
                    self.point(event, *paths)
        except (SystemExit, InjectedFault):
            raise
        except Exception:
            pass

    def install(self):
        sys.addaudithook(self.hook)
        if self.split_writes:
            real_open = builtins.open
            tracer = self

            def open_(file, mode="r", *a, **k):
                f = real_open(file, mode, *a, **k)
                if tracer.active and "b" in mode and any(c in mode for c in "wax") and not isinstance(file, int) \
                        and tracer.relevant(file):
                    return _CrashingWriter(f, tracer, file)
                return f

            builtins.open = open_
            try:
                shutil._USE_CP_SENDFILE = False      # make shutil copy through read()/write() so that the split applies
                shutil._HAS_FCOPYFILE = False
            except Exception:
                pass


def run_forked(fn, timeout=120):
    """run fn() in a forked child; returns (exit_code, payload or None)"""
    r, w = os.pipe()
    pid = os.fork()
    if pid == 0:
        os.close(r)
        code = 0
        try:
            out = fn()
            data = json.dumps(out, default=str).encode()
        except BaseException:
            data = json.dumps(dict(child_error=traceback.format_exc()[-3000:])).encode()
            code = 3
        try:
            with os.fdopen(w, "wb") as f:
                f.write(data)
        finally:
            os._exit(code)
    os.close(w)
    chunks = []
    with os.fdopen(r, "rb") as f:
        while True:
            b = f.read(65536)
            if not b:
                break
            chunks.append(b)
    _, status = os.waitpid(pid, 0)
    code = os.waitstatus_to_exitcode(status)
    raw = b"".join(chunks)
    try:
        payload = json.loads(raw) if raw else None
    except Exception:
        payload = None
    return code, payload


def traced_call(sb, call, cwd, tmpdir, crash_at=None, capture_logs=False, fail_at=None):
    """in a forked child: chdir, point TMPDIR at `tmpdir`, trace, run call() -> dict(outcome, events, logs)"""

    def child():
        import logging

        os.chdir(cwd)
        os.environ["TMPDIR"] = str(tmpdir)
        tempfile.tempdir = None
        records = []
        if capture_logs:
            class H(logging.Handler):
                def emit(self, rec):
                    records.append([rec.levelname, rec.getMessage()])

            root = logging.getLogger()
            for h in list(root.handlers):
                root.removeHandler(h)
            root.addHandler(H(level=0))
            # the CLI's basicConfig would add a stderr handler; keep only its effect on the level
            configured = [False]

            def basic_config(*a, **k):
                # as the library's: the first call of the process (or one with force=True) takes effect, later ones do nothing
                if k.get("force"):
                    configured[0] = False
                if configured[0]:
                    return
                configured[0] = True
                if k.get("level") is not None:
                    root.setLevel(k["level"])

            logging.basicConfig = basic_config
        tr = Tracer(sb, crash_at=crash_at, fail_at=fail_at)
        tr.install()
        tr.active = True
        try:
            ret = call()
            outcome = ["ok", ret if isinstance(ret, (str, int, type(None))) else None]
        except SystemExit as ex:
            outcome = ["exit", ex.code if isinstance(ex.code, (int, type(None))) else str(ex.code)]
        except Exception as ex:
            outcome = ["raised", type(ex).__name__, str(ex)[:300]]
        tr.active = False
        return dict(outcome=outcome, events=tr.events, logs=records)

    return run_forked(child)


def norm_events(events):
    """collapse what happens inside one rmtree, and the rename/remove pairs, to the model's alphabet"""
    out, i = [], 0
    while i < len(events):
        e = events[i]
        if e[0] == "shutil.rmtree":
            d = e[1]
            out.append(["rmtree", d])
            i += 1
            while i < len(events) and events[i][0] in ("os.rmdir", "os.remove") and events[i][1][:len(d)] == d:
                i += 1
            continue
        if e[0] == "open-w":
            out.append(["create", e[1]])
        elif e[0] in ("midwrite", "preclose"):
            pass
        elif e[0] == "os.rename":
            out.append(["replace", e[1], e[2]])
        elif e[0] == "os.mkdir":
            out.append(["mkdir", e[1]])
        elif e[0] == "os.remove":
            out.append(["unlink", e[1]])
        elif e[0] == "os.rmdir":
            out.append(["rmtree", e[1]])
        elif e[0] == "shutil.move":
            pass                                   # followed by the os.rename / copy events it performs
        elif e[0] == "shutil.copyfile":
            pass
        else:
            out.append(e)
        i += 1
    return out


def model_trace(trace):
    """the model's trace without the appends (a write has no audit event)"""
    return [t for t in trace if t[0] != "append"]
