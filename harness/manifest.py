"""Writes MANIFEST.json from the table below (run: /venv/bin/python -m harness.manifest)."""
import json
from .common import VERIF

BASELINE_OFF = ("cd /repo && SKOPS_VERIF= /venv/bin/python -m pytest -ra -q -p no:cacheprovider --timeout=900 "
                "--continue-on-collection-errors")

CHECKS = {
    "C09": dict(
        technique="Lean 4 proof (refinement of add/delete to an abstract path map, split = specification) + differential correspondence of the model with skops.card.Card on generated histories",
        text="Theorems over all forests, paths and edit histories (history_refines, add_refines, add_kids, delete_refines, split_spec, chained_select) about a hand-written Lean model of the section tree; the model is tied to /repo by running it and the real Card on the same generated histories every run, and the property's sentences are evaluated directly on the implementation for the replay search.",
        note="Trusted: Lean kernel; the hand model (checked, not proved, to match skops/card/_model_card.py by correspondence); PrettyTable stand-in; generators. Known finding: empty non-leaf path part accepted by Card.select/delete.",
        design="6/C09"),
    "C10": dict(
        technique="Lean 4 proof (render/TOC = filter of the DFS enumeration by the 'shown' predicate) + differential correspondence of exact render/get_toc/save text",
        text="render_events / toc_events / nothing_hidden hold for every forest and flag assignment; exact strings of render(), get_toc() and the bytes written by save() are compared between model and implementation on generated histories, and the property's sentences are re-evaluated on the live card after every operation.",
        note="Trusted: Lean kernel; hand model tied by correspondence; PrettyTable stand-in (table layout opaque).",
        design="6/C10"),
    "C14": dict(
        technique="Lean 4 proof (metrics accumulation, placement via C09.select_add_same, cell escaping, multi = fold of single) + differential correspondence + real-PrettyTable parse-back",
        text="metrics_once/latest/order/calls for every update sequence, placement and multi-item theorems for every path; builders compared on generated histories through a recording table stand-in, and the real PrettyTable output is parsed back into header/rows.",
        note="Trusted: Lean kernel; hand model tied by correspondence; PrettyTable layout (validated by parse-back on sampled tables only); add_model_plot is outside the model (sklearn HTML repr).",
        design="6/C14"),
    "C15": dict(
        technique="Lean 4 proof (converter state restored by mutual induction over the pandoc tree => order independence; stack algorithm = 'nearest preceding lower-level header' for all header lists; per-step refinement of the parser) + differential correspondence on generated pandoc JSON",
        text="conv_state_restored/conv_order_independent hold for every pandoc tree and every starting state; outline_spec for every header list; header_step/content_step describe each parser step as an edit of the abstract path map. The model converter and parser are run against skops.card._markup/_parser on generated pandoc JSON (no pandoc binary needed) and the property's sentences are evaluated on the implementation.",
        note="Trusted: Lean kernel; hand model tied by correspondence; driver JSON decoding glue; pandoc Figure excluded; whole-document content theorem is stated per step (content_step), not as one closed formula. Known finding: duplicate sibling headings lose the earlier body.",
        design="6/C15"),
    "C01": dict(
        technique="Lean 4 proof (for every JSON schema: load succeeded => every name resolution of construct is vouched; mutual induction over the node tree + the memo invariant of getTree proved by strong induction on fuel; decidable side-conditions on the per-loader table regenerated from the source by an AST translator) + instrumented differential correspondence of load",
        text="load_archive_only_vouched / C01_archive_current quantify over every JSON value, member list, fuel and trusted list with no hypothesis on the tree (getTreeRoot_good proves the memo invariant for getTree itself); audit_passed_only_vouched/load_only_vouched(_refs) are the tree-level statements; table_vouched and table_ref_kinds_inert (by decide) re-check the side-conditions on the table the translator extracts from the current _construct/__init__/get_unsafe_set of all 29 registered loaders; the model's tree, verdict and event trace are compared with the real get_tree/load under patched resolvers, audit hooks and canary modules on generated adversarial archives.",
        note="Trusted: Lean kernel; harness/translate/nodes.py (AST symbolic executor; unknown syntax becomes an `unknown` use that no obligation accepts); library calls (np.load allow_pickle=False, load_npz, json.loads) inert by contract; calls made inside vouched callees are not modelled.",
        design="6/C01"),
    "C02": dict(
        technique="Lean 4 proof (tree building performs no effect for every tree, from the generated AllInitInert side-condition and flow facts) + instrumented runs of get_untrusted_types / visualize / pre-verdict load",
        text="tree_building_inert for every node tree; table_init_inert and flow_facts (by decide) on tables regenerated from the source; on every generated archive get_untrusted_types, visualize and refused loads are run under resolver patches, sys.modules diff, audit hooks and canary ledger and must show no activity.",
        note="Trusted: Lean kernel; translator (any call in an __init__ that is not on the inert allow-list becomes an init effect); failing get_tree runs are covered by the instrumented runs, not by the theorem.",
        design="6/C02"),
    "C03": dict(
        technique="Lean 4 proof (unsafe(T) = unsafe(None) filtered by T; verdict exact; monotone in T; sorted duplicate-free report) + differential correspondence + T-matrix oracle on the implementation",
        text="verdict_exact/enlarging_T/T_as_set/reported_sorted_nodup hold for every tree and T under the generated AllCallerPlus side-condition; flow facts pin trusted=True rejection, audit-before-construct, sorted messages; the implementation is exercised with subsets/supersets/permutations/duplicates/tuples/type objects and data= vs file=.",
        note="Trusted: Lean kernel; translator; string order = code point order on both sides; deep equality of loaded results uses harness/compare.py.",
        design="6/C03"),
    "C08": dict(
        technique="Lean 4 proof (exact-else-current lookup = 'smallest registered protocol not below' under the gap-freeness side-condition decided on the generated registry) + exhaustive (loader, protocol value) enumeration + downgrade rewriter",
        text="lookup_eq_spec / unchanged_kind_same / unregistered_error for every table, loader and protocol; registry_ok (by decide) on the registry and the emitted-loader list regenerated from the source; every registered loader x 13 protocol values compared between model and get_tree; zoo archives rewritten into protocol 0/1 layouts must load to the same object.",
        note="Trusted: Lean kernel; translators (registry, emitted loaders via AST of the registered *_get_state functions); comparator. Known finding: protocol-0 Generator archives (pinned by a test).",
        design="6/C08"),
    "C11": dict(
        technique="Lean 4 proof (acceptance without a trusted list implies membership in the default lists, corollary of C01; set algebra defaults ⊆ families, defaults ∩ dangerous = ∅ decided in the kernel over interned ids) + enumeration of (kind, slot, dangerous name) refusals on the implementation",
        text="no_T_only_defaults_archive for every JSON schema (no hypothesis on the tree) and no_T_only_defaults for every tree; defaults_in_families / defaults_not_dangerous by decide +kernel on tables regenerated from the live default lists and the installed numpy/scipy/sklearn/stdlib namespaces (589 default names, ~4000 dangerous names); every registered kind is given dangerous names (in every name-bearing position, header-only and content-only for loaders that name a function twice) and must report and refuse them; registries_filtered / foreign_registration_not_default: the two lists built from registries other packages can write to are filtered by the library's own prefix in the current source, and a fresh interpreter in which a foreign package registered classes before skops.io was imported must still report and refuse them.",
        note="Trusted: Lean kernel; translate/trust.py (family predicates and name resolution are evaluated by Python in the pinned environment); quick samples 25 names per kind, thorough enumerates all.",
        design="6/C11"),
    "C13": dict(
        technique="Lean 4 proof (walk stream and filtered stream never jump more than one level, by mutual induction; row flags = audit of that node) + row-by-row differential correspondence + totality runs over dumps",
        text="walk_wellformed / traverse_wellformed for every tree, trusted list and show mode; unsafe_marked / safe_iff_audit_empty tie each row to the audit; NodeInfo streams of the real visualize are compared with the model on generated archives and the property's sentences are evaluated on them; every zoo dump x trusted x show x colours must complete.",
        note="Trusted: Lean kernel; translator view facts (format / is_self_safe / is_safe / SKIPPED_TYPES / ListNode per loader); cyclic trees are only checked against the sentences (per-node audit of a cyclic graph differs from the unfolded tree); is_last not compared.",
        design="6/C13"),
    "C04": dict(
        technique="Lean 4 proof (dump refuses or load returns the same value, by mutual induction over a value grammar; negation witness for the recorded finding) + value-level differential correspondence + refuse-or-faithful oracle over a wide object grammar",
        text="faithful_or_refuses_partial covers every nesting of the modelled containers (lists, tuples, namedtuples, subclasses, sets, frozensets, dicts with str/int/float/bool/numpy keys, defaultdicts, object arrays, objects) with opaque leaves; not_faithful_witness proves the full statement false for property-valued dict entries (known finding). The model's dump refusal, typed schema and loaded value are compared with the real dumps/loads on generated values; the oracle runs ~40 kinds of odd values and checks that dumping does not modify the object.",
        note="Trusted: Lean kernel; hand-written value model (tied by correspondence); leaf codecs (numpy/scipy/RNG/float repr/json) as contracts; harness/compare.py. None keys and generic __reduce__ objects are outside the model grammar (oracle only).",
        design="6/C04"),
    "C05": dict(
        technique="Lean 4 proof (supported values are never refused and round-trip; stability for every number of cycles by induction) + value-level correspondence + strict structural comparator on generated supported values",
        text="roundtrip / roundtrip_stable / restore_key / key_texts_distinct for the supported grammar; every generated supported value (containers x keys x 18 dtypes x 9 shapes x layouts, numpy scalars, dtypes, masked, object arrays, 5 bit generators, 5 sparse formats as matrix and array, callables) is dumped, loaded, compared, re-cycled, and RNG streams are compared.",
        note="Trusted: Lean kernel; value model tied by correspondence; library codecs as contracts exercised on every generated leaf.",
        design="6/C05"),
    "C06": dict(
        technique="Lean 4 proof (heap-event model: with the memo pin, ids written in one dump are equal iff the objects are, for every allocation history; counter-history without the pin) + flow facts + identity-partition oracle under allocation stress",
        text="ids_faithful quantifies over all event sequences of the heap model (arbitrary address reuse); without_pin_ids_collide shows the pin is necessary; flow_facts pins memoize-before-get_state, id from memoize, member names from memoize, single write, clear after; load side: second_reference_shares / first_reference_memoized on the get_tree model and all_kinds_memoize (decide +kernel on the regenerated table: every loader memoizes except the one that reads the memo); generated DAGs with shared mutable objects (incl. ndarray/bytearray subclasses, masked arrays) and hundreds of temporaries are dumped/loaded and the identity partitions compared.",
        note="Trusted: Lean kernel; heap model (alloc/free/visit) as an abstraction of CPython's allocator; flow-fact patterns (memoize bodies as exact statement lists); construct-side caching of the io model.",
        design="6/C06"),
    "C07": dict(
        technique="Lean 4 proof (object layer: an estimator with supported state round-trips, arbitrarily nested) + estimator-zoo oracle (state comparator, bitwise method outputs, default-trust census)",
        text="PARTIAL (scikit-learn's numerics are outside any model; the theorems cover the object layer only). state_preserved / composition_preserved are corollaries of the C05 round trip for obj nodes; all_estimators() unfitted, a seeded subset fitted (thorough: all, with hyper-parameters from _parameter_constraints), ten compositions; names reported untrusted must not belong to a documented family.",
        note="PARTIAL by nature: scikit-learn's numerical behaviour is outside any Lean model; 'equal state => identical predictions' is a contract exercised on the zoo. Trusted: Lean kernel, comparator, family predicates.",
        design="6/C07"),
    "C12": dict(
        technique="Lean 4 proof (member/reference bookkeeping: refs = members, no duplicate member, for every emission sequence; sink independence on the dump/dumps statement skeletons regenerated from the source by a translator and interpreted over a file-system model) + flow facts on dump + traced real dumps compared with the model + exhaustive sink x compression matrix on the implementation",
        text="refs_eq_members for all sequences of member writes / re-references; flow_facts: every *_get_state writes the header fields, get_state adds the id, root carries protocol+version, member names are flat, _save precedes any sink write and only fills its buffer; archives of zoo and generated objects are checked for zip validity, schema fields, refs<->members, flat names, and equality across 7 sinks x 12 compression settings. sink_independent (with path_sink_gets_buffer / file_sink_gets_buffer / dumps_returns_buffer): for every dumpable value of the grammar, file-system state, working directory and path form, a path sink, a fresh file object and the value of dumps receive the same byte string, the path sink changes no other path and creates no directory, the file-object sink and dumps touch no file; skeleton_dump/skeleton_dumps check by rfl that the programs are the translation of the current source; the real dump is traced in forked children (9 sink forms) and its file operations, changed paths and file-object advance are compared with the model run on the same state.",
        note="Trusted: Lean kernel; flow-fact AST patterns; zipfile codec as a contract.",
        design="6/C12"),
    "C16": dict(
        technique="Lean 4 proof (statement skeleton of skops.cli._update regenerated from the source by a translator and interpreted over a file-system model: decision table, rewrite frame, no residue, crash safety for every prefix of the operation trace and every chunking of the writes) + traced and killed runs of the real CLI",
        text="PARTIAL with respect to crash points (proved for the operation model under the POSIX rename contract; real kills are sampled). decision_untouched / both_flags_error / rewritten / input_untouched / crash_safe quantify over every configuration (paths, flags, protocols), file system state and crash point of the model; skeleton_inner/skeleton_main check by rfl that the program the lemmas are about is the translation of the current source; the real CLI is run in forked children over protocol x output form x inplace x pre-existing destination x TMPDIR file system, its audit-hook operation trace, outcome and final file set are compared with the model, and it is killed at every file operation, in the middle of every write and just before a written file is closed. io_fault_safe (fault interpreter Fs/Fault.lean, equal to the plain one when nothing fails: updateF_none): whichever single file operation fails with an I/O error, for every chunking, the destination is old or complete-new, nothing else is altered and nothing remains unless the removal of the temporary directory is what failed; the real CLI is re-run once per file operation with that operation raising ENOSPC and compared with the model under the same fault.",
        note="PARTIAL with respect to 'dies at any moment': proved for the operation model under the POSIX rename contract; power-loss durability, path components ./.. and symlinks, permissions and more than one I/O fault per run are outside the model (../ paths are exercised on the implementation); Python's own write buffer exists only on the implementation side (pre-close kill point). Trusted: Lean kernel; translate/skeleton.py (unknown statements become `.unknown`, which no theorem survives); fscheck tracer; comparator. The defects found here were repaired (fixed:b25e65d).",
        design="6/C16"),
    "C17": dict(
        technique="Lean 4 proof (skeleton of skops.cli._convert from the translator: no file operation at all when the object cannot be persisted; output path, frame and warning condition on success) + runs of the real CLI compared with the model and with the unpickled object",
        text="failed_convert_untouched / converted for every configuration and file-system state, with the dump outcome taken from the value model (encode); default_output_name / default_output_name_no_suffix: for every input name <base>.<ext> the default output is <cwd>/<base>.skops (only the last suffix replaced), and a name with no dot, only a leading dot or a trailing dot keeps its whole name (lemmas stem_base_ext, stem_no_dot, stem_leading_dot, stem_trailing_dot about the model of PurePath.stem, itself compared with the real CLI on every run); skeletons tied by rfl; real `skops convert` over zoo, user-class, unpersistable and generated objects x output option x verbosity x pre-existing output x 7 input-name shapes: loaded archive equals pickle.load(input), input bytes, residue, warning text equals get_untrusted_types, op trace / log levels / outcome equal the model's.",
        note="Trusted: Lean kernel; translate/skeleton.py; value model (C04/C05) for 'loads to an equal object'; comparator; pickle of the harness's own objects as reference.",
        design="6/C17"),
    "C18": dict(
        technique="Lean 4 proof (skeletons of dump/dumps from the translator: get_state failing => the world is returned unchanged, for every sink; an unsupported element anywhere inside makes get_state fail, by mutual induction over the value grammar) + flow facts + substitution runs on the real dump",
        text="failed_dump_untouched / unsupported_inside_untouched / failed_dumps_nothing / encode_none for every value, configuration and world; flow_facts (by decide) re-establish that _save precedes every open/write and writes only its own buffer; generated structures with one raising element substituted at sampled (thorough: all) positions are dumped to existing/new paths (str, Path), positioned file objects, BytesIO and dumps in forked children: tree before/after, file-object position, write-type audit events.",
        note="Trusted: Lean kernel; translators (skeleton, flow); value model tied by correspondence (refusal compared on the substituted structures).",
        design="6/C18"),
    "C19": dict(
        technique="Lean 4 proof (PARTIAL: the io model is total on every JSON value; the audit walk's in-progress guard terminates on every finite graph; explicit exponential cost family) + schema-level outcome correspondence + sandboxed mutation runs with wall-clock limit",
        text="PARTIAL (schema level only; byte-level corruption and native parsers are sampled in sandboxed workers). load_total / cycle_guard_terminates / audit_exponential; the model's verdict is compared with the implementation on the adversarial archive grammar; byte-, member- and schema-level mutants (single and stacked) of zoo and grammar archives run get_untrusted_types, visualize and loads in forked workers: exit status, exception class, 20 s limit, cwd/environ/sys.path/umask/global RNG/files before vs after; the visit count of the real audit on the evil(n) family is compared with the model (equal => the known finding is printed).",
        note="PARTIAL: byte-level zip corruption and native parsers (np.load, load_npz, Cython __setstate__) cannot be expressed in the Lean model and are only sampled. Known finding: exponential audit on nested shared ids ('terminate promptly' is false for that family). Trusted: Lean kernel; worker sandbox; mutators.",
        design="6/C19"),
    "C20": dict(
        technique="Lean 4 proof (PARTIAL: frame model — steps that write only their own object's state are history- and schedule-independent, instantiated with the card and io models; negation witness for a memoising step) + frame facts regenerated from the source by a syntactic translator + fresh-process vs sequenced vs threaded runs",
        text="PARTIAL (interleavings of frame-respecting steps are proved; real CPython schedules are sampled). history_independent / first_or_later / schedule_independent (Conc/Frame.lean) for every history and schedule; cards_independent and io_call_history_free instantiate them with Card.step and the io model; frame_facts_hold (by decide) on facts re-derived from every non-test module (no global statements, no writes to module-level containers or class attributes in functions, no mutable defaults, no process-state writes, contexts per call, no function-level caches); every call is executed once as the only call of a fresh interpreter and compared with shuffled in-process sequences and 8-thread runs at a 1 microsecond switch interval; module-state digest before/after.",
        note="PARTIAL: real CPython interleavings are sampled, not enumerated; the theorem is conditional on the frame hypothesis, which is established syntactically and sampled dynamically. Trusted: Lean kernel; translate/frame.py; comparator; sklearn's HTML id counter is normalised.",
        design="6/C20"),

}

PENDING_REASON = "not claimed yet: the model/check for this property is still being built in this round (see DESIGN.md section 11); it is not 'not applicable' in principle"
ALL = [f"C{i:02d}" for i in range(1, 21)]


def main():
    checks = []
    for pid, c in CHECKS.items():
        checks.append(dict(
            property_id=pid,
            quick_cmd=f"./check {pid} quick",
            thorough_cmd=f"./check {pid} thorough",
            evidence_file=f"evidence/{pid}.json",
            replay_cmd_template=f"./check {pid} --replay {{path}}",
            engine="lean-model+correspondence",
            level_claimed=dict(category="proof", text=c["text"], design_ref=c["design"]),
            level_note=c["note"],
            technique=c["technique"],
        ))
    man = dict(
        version=1,
        setup_cmd="./check --setup",
        hooks=dict(guard="SKOPS_VERIF",
                   enable="no source hooks are needed: instrumentation is applied from outside (monkey-patching, sys.monitoring, audit hooks); ./check exports SKOPS_VERIF=1 for completeness",
                   baseline_off_cmd=BASELINE_OFF, source_commits=[], add_only=True),
        engines=[dict(name="lean-model+correspondence", path="lean/ + harness/",
                      serves_properties=sorted(CHECKS),
                      kind_free_text="Lean 4 model + theorems (lake project lean/), compiled line-protocol driver, Python harness running the real skops in-process")],
        checks=checks,
        notes="Every check: translate /repo -> lean/SkopsModel/Generated, lake build of the property module, axiom audit, correspondence model<->implementation, oracle evaluation on the implementation; exit 1 only with a VIOLATION line, exit 2 on infrastructure failure.",
        not_applicable=[dict(property_id=p, reason=PENDING_REASON) for p in ALL if p not in CHECKS],
    )
    (VERIF / "MANIFEST.json").write_text(json.dumps(man, indent=1))


if __name__ == "__main__":
    main()
