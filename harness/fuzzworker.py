"""Sandboxed execution of `get_untrusted_types` / `visualize` / `loads` on corrupted archives (C19).

A forked worker walks through a batch of archives; before each one it announces the index on a pipe, afterwards it
reports outcome classes, wall time and every change of process-wide state.  The parent enforces a wall-clock limit
per archive: a worker that falls silent is killed (`hang`), one that dies is a `crash` (with the signal); either way
a new worker continues with the rest of the batch."""
from __future__ import annotations

import hashlib
import json
import os
import pickle
import select
import shutil
import signal
import sys
import tempfile
import time


def _state(scratch):
    import numpy as np

    listing = []
    for dp, dn, fn in os.walk(scratch):
        for f in fn + dn:
            listing.append(os.path.relpath(os.path.join(dp, f), scratch))
    return dict(cwd=os.getcwd(), environ=hashlib.sha1(repr(sorted(os.environ.items())).encode()).hexdigest(),
                sys_path=hashlib.sha1(repr(sys.path).encode()).hexdigest(),
                np_random=hashlib.sha1(pickle.dumps(np.random.get_state())).hexdigest(),
                files=sorted(listing), umask=_umask())


def _umask():
    m = os.umask(0)
    os.umask(m)
    return m


def _classify(fn):
    t = time.time()
    try:
        r = fn()
        return ["ok", None, round(time.time() - t, 3)], r
    except Exception as ex:                       # ordinary exceptions
        return ["exception", type(ex).__name__, round(time.time() - t, 3)], None
    except BaseException as ex:                   # SystemExit, KeyboardInterrupt, GeneratorExit: not ordinary
        return ["non-ordinary", type(ex).__name__, round(time.time() - t, 3)], None


def _child(batch, start, wfd, scratch, mem_limit):
    import resource

    from . import ioarch

    os.chdir(scratch)
    os.environ["TMPDIR"] = scratch
    tempfile.tempdir = None
    if mem_limit:
        try:
            resource.setrlimit(resource.RLIMIT_AS, (mem_limit, mem_limit))
        except Exception:
            pass
    out = os.fdopen(wfd, "w", buffering=1)
    from skops.io import get_untrusted_types, load, loads, visualize

    with ioarch.Recorder() as rec:                  # safety net: general-purpose callables are never handed out
        for i in range(start, len(batch)):
            data = batch[i]
            out.write(json.dumps(dict(begin=i)) + "\n")
            s0 = _state(scratch)
            res = {}
            mods0 = set(sys.modules)
            res["untrusted"], names = _classify(lambda: get_untrusted_types(data=data))
            res["visualize"], _ = _classify(lambda: visualize(data, sink=lambda nodes, show, **kw: [n for n in nodes]))
            imported = sorted(m for m in set(sys.modules) - mods0 if not m.startswith(("encodings", "skops.")))
            # with an empty trusted list: everything the defaults let through is constructed (native parsers included)
            res["loads"], _ = _classify(lambda: loads(data, trusted=[]))
            # the path-based entry point, from a directory of its own
            arch_dir = os.path.join(scratch, "archive-dir")
            os.makedirs(arch_dir, exist_ok=True)
            with open(os.path.join(arch_dir, "m.skops"), "wb") as fh:
                fh.write(data)
            s0["files"] = _state(scratch)["files"]
            res["load-file"], _ = _classify(lambda: load(os.path.join(arch_dir, "m.skops"), trusted=[]))
            s1 = _state(scratch)
            # and with every reported name trusted, to get further into construct: crash / hang / exception class only --
            # what importing and calling names the caller vouched for does to the process is the caller's business
            T = names if isinstance(names, list) else []
            if T:
                res["loads-all-trusted"], _ = _classify(lambda: loads(data, trusted=T))
            changed = [k for k in s0 if s0[k] != s1[k]]
            detail = {k: (s0[k], s1[k]) for k in changed if k in ("cwd", "files", "umask")}
            if imported:
                # inspecting an archive (no trusted list involved yet) made the interpreter import modules
                changed.append("sys.modules")
                detail["sys.modules"] = imported[:6]
            out.write(json.dumps(dict(end=i, res=res, changed=changed, detail=detail, blocked=rec.blocked_hits[-3:])) + "\n")
            rec.events.clear()
            # leave no residue for the next archive
            for f in os.listdir(scratch):
                p = os.path.join(scratch, f)
                shutil.rmtree(p, ignore_errors=True) if os.path.isdir(p) else os.unlink(p)
    out.close()
    os._exit(0)


def _cpu_seconds(pid):
    """user+system CPU time of a process so far (the limit is on work done, not on wall-clock time of a loaded machine)"""
    try:
        with open(f"/proc/{pid}/stat") as f:
            parts = f.read().rsplit(")", 1)[1].split()
        return (int(parts[11]) + int(parts[12])) / os.sysconf("SC_CLK_TCK")
    except Exception:
        return None


def run_batch(batch, limit=20.0, mem_limit=6 << 30):
    """-> list (one per archive) of dict(status=ok|hang|crash, res=..., changed=..., signal=...)"""
    results = [None] * len(batch)
    start = 0
    while start < len(batch):
        scratch = tempfile.mkdtemp(prefix="verif-c19-")
        r, w = os.pipe()
        pid = os.fork()
        if pid == 0:
            os.close(r)
            try:
                _child(batch, start, w, scratch, mem_limit)
            finally:
                os._exit(1)
        os.close(w)
        rf = os.fdopen(r, "r")
        current, t_begin = None, time.time()
        cpu_begin = _cpu_seconds(pid) or 0.0
        died = False
        while True:
            ready, _, _ = select.select([rf], [], [], 1.0)
            if not ready:
                wall = time.time() - t_begin
                if current is None:
                    if wall < limit * 3:
                        continue                      # the worker is still starting up / between two archives
                else:
                    # `limit` seconds of CPU time for one archive -- work done, not wall-clock time on a loaded machine --
                    # or ten times that on the wall clock (a child that sleeps or is starved)
                    cpu_now = _cpu_seconds(pid)
                    used = (cpu_now - cpu_begin) if cpu_now is not None else wall
                    if used < limit and wall < 10 * limit:
                        continue
                # silent for too long: a hang (or an extremely slow call) on `current`
                os.kill(pid, signal.SIGKILL)
                os.waitpid(pid, 0)
                idx = current if current is not None else start
                results[idx] = dict(status="hang", limit=limit)
                start = idx + 1
                died = True
                break
            line = rf.readline()
            if not line:
                _, status = os.waitpid(pid, 0)
                code = os.waitstatus_to_exitcode(status)
                if current is not None and results[current] is None:
                    results[current] = dict(status="crash", exit=code, signal=-code if code < 0 else None)
                    start = current + 1
                    died = True
                elif code != 0 and start < len(batch):
                    # died between two archives (or before the first): blame the next one so that progress is guaranteed
                    results[start] = dict(status="crash", exit=code, signal=-code if code < 0 else None, between=True)
                    start += 1
                    died = True
                else:
                    start = len(batch)
                break
            msg = json.loads(line)
            if "begin" in msg:
                current, t_begin = msg["begin"], time.time()
                cpu_begin = _cpu_seconds(pid) or 0.0
            else:
                results[msg["end"]] = dict(status="ok", res=msg["res"], changed=msg["changed"], detail=msg["detail"], blocked=msg["blocked"])
                start = msg["end"] + 1
                current, t_begin = None, time.time()
        rf.close()
        shutil.rmtree(scratch, ignore_errors=True)
        if not died and start >= len(batch):
            break
    return results


def run_parallel(batch, limit=20.0, workers=16):
    """split the batch over `workers` single-threaded driver processes (each forks its own sandboxed children)"""
    import subprocess

    from .common import VERIF

    d = tempfile.mkdtemp(prefix="verif-c19-drv-")
    procs = []
    try:
        chunks = [list(range(k, len(batch), workers)) for k in range(workers)]
        for k, idx in enumerate(chunks):
            if not idx:
                continue
            inp, outp = os.path.join(d, f"in{k}.pkl"), os.path.join(d, f"out{k}.pkl")
            with open(inp, "wb") as f:
                pickle.dump(([batch[i] for i in idx], limit), f)
            p = subprocess.Popen([sys.executable, "-W", "ignore", "-m", "harness.fuzzworker", inp, outp], cwd=str(VERIF),
                                 env=dict(os.environ, PYTHONPATH=str(VERIF)), stdout=subprocess.DEVNULL, stderr=subprocess.PIPE)
            procs.append((idx, p, outp))
        results = [None] * len(batch)
        for idx, p, outp in procs:
            _, err = p.communicate()
            if p.returncode != 0 or not os.path.exists(outp):
                raise RuntimeError("fuzz driver failed: " + (err or b"").decode()[-800:])
            with open(outp, "rb") as f:
                for i, x in zip(idx, pickle.load(f)):
                    results[i] = x
        return results
    finally:
        for _, p, _ in procs:
            if p.poll() is None:
                p.kill()
        shutil.rmtree(d, ignore_errors=True)


if __name__ == "__main__":
    from .common import repo_on_path

    repo_on_path()
    with open(sys.argv[1], "rb") as f:
        _batch, _limit = pickle.load(f)
    _res = run_batch(_batch, limit=_limit)
    with open(sys.argv[2], "wb") as f:
        pickle.dump(_res, f)
