"""Typed object grammar for the persistence properties (C04-C06, C12, C17, C18).

Every generator returns (value, supported) where `supported` says whether the value lies inside the families C05
promises to round-trip exactly.  User classes live in the importable module `verif_userclasses` (harness/canary)
so that dumped names resolve on load.
"""
from __future__ import annotations

import collections
import functools
import operator
import sys

import numpy as np

from .common import VERIF

sys.path.insert(0, str(VERIF / "harness" / "canary"))
import verif_userclasses as U  # noqa: E402

INTS = [0, 1, -1, 7, 2**31, -2**63, 10**100, 255]
FLOATS = [0.0, -0.0, 1.5, float("nan"), float("inf"), float("-inf"), 1e-300, 3.141592653589793, 1e22]
STRS = ["", "a", "key", "ünï", "日本", "\U0001F600", "nul\x00in", "line\nbreak", "1", "true", "null", " spaced ", "a/b"]
DTYPES = ["int8", "int16", "int32", "int64", "uint8", "uint64", "float16", "float32", "float64", "complex64", "complex128",
          "bool", ">i4", ">f8", "<U3", "S2", "datetime64[D]", "timedelta64[s]"]
SHAPES = [(), (0,), (1,), (3,), (2, 3), (0, 3), (3, 0), (2, 1, 2), (2, 0, 1)]
BITGENS = ["PCG64", "MT19937", "Philox", "SFC64", "PCG64DXSM"]


class G:
    def __init__(self, rng):
        self.rng = rng

    # ---- scalars -------------------------------------------------------------------------------
    def scalar(self):
        r = self.rng
        return r.choice([None, True, False, r.choice(INTS), r.choice(FLOATS), r.choice(STRS)]), True

    def key(self, supported_only=True):
        r = self.rng
        pool = [lambda: r.choice(STRS), lambda: r.choice(INTS[:6]), lambda: r.choice([1.5, 0.25, -2.0, 1e22, float("inf"), float("-inf"), float("nan")]),
                lambda: np.int64(r.choice([0, 3, -4])), lambda: np.float32(r.choice([0.5, 2.0])), lambda: np.int8(r.choice([1, 2])),
                lambda: np.float64(r.choice([2.5, -0.125, 7.0])), lambda: np.uint16(r.choice([5, 6]))]
        if not supported_only:
            pool += [lambda: True, lambda: False, lambda: None, lambda: (1, 2), lambda: np.bool_(True)]
        return r.choice(pool)()

    # ---- numpy ---------------------------------------------------------------------------------
    def array(self):
        r = self.rng
        dt = np.dtype(r.choice(DTYPES))
        shape = r.choice(SHAPES)
        n = int(np.prod(shape)) if shape else 1
        if dt.kind in "iu":
            a = np.array([r.randint(0, 100) for _ in range(n)], dtype=dt)
        elif dt.kind == "f":
            a = np.array([r.choice(FLOATS[:7] + [r.random()]) for _ in range(n)], dtype=dt)
        elif dt.kind == "c":
            a = np.array([complex(r.random(), r.choice([0.0, float("nan"), 1.0])) for _ in range(n)], dtype=dt)
        elif dt.kind == "b":
            a = np.array([r.random() < 0.5 for _ in range(n)], dtype=dt)
        elif dt.kind == "U":
            a = np.array([r.choice(["a", "bc", "ü"]) for _ in range(n)], dtype=dt)
        elif dt.kind == "S":
            a = np.array([r.choice([b"a", b"bc"]) for _ in range(n)], dtype=dt)
        elif dt.kind == "M":
            a = np.array([np.datetime64("2020-01-0%d" % r.randint(1, 9)) for _ in range(n)], dtype=dt)
        else:
            a = np.array([r.randint(0, 100) for _ in range(n)], dtype=dt)
        a = a.reshape(shape)
        v = r.random()
        if v < 0.25 and a.ndim >= 2:
            a = np.asfortranarray(a)
        elif v < 0.35 and a.ndim >= 1 and a.shape[0] > 1:
            a = a[::2]                               # non-contiguous view
        return a, True

    def structured(self):
        a = np.zeros(self.rng.choice([0, 2]), dtype=[("x", "i4"), ("y", "f8")])
        return a, True

    def npscalar(self):
        r = self.rng
        return r.choice([np.int64(3), np.float32(1.5), np.float64("nan"), np.bool_(True), np.uint8(255), np.complex128(1 + 2j),
                         np.str_("ab"), np.datetime64("2020-01-01")]), True

    def objarray(self, supported=True):
        r = self.rng
        cells_ok = [1, 2.5, "s", None, True, "ünï", 10**30]
        if supported:
            shape = r.choice([(1,), (3,), (2, 2), (1, 3), (2, 1, 2)])
            n = int(np.prod(shape))
            a = np.empty(n, dtype=object)
            for i in range(n):
                a[i] = r.choice(cells_ok)
            return a.reshape(shape), True
        shape = r.choice([(0,), (0, 3), (2, 2), (3,), (), (2, 0)])
        n = int(np.prod(shape)) if shape else 1
        a = np.empty(n, dtype=object)
        for i in range(n):
            a[i] = r.choice(cells_ok + [[1, 2], (1, 2), {"k": 1}, np.arange(2)])
        return a.reshape(shape), False

    def rng_obj(self):
        r = self.rng
        if r.random() < 0.4:
            rs = np.random.RandomState(r.randint(0, 99))
            rs.random_sample(r.randint(0, 5))
            # legacy gaussian draws leave a cached second value behind (has_gauss/gauss are part of the stream state)
            for _ in range(r.choice([0, 1, 1, 2, 3])):
                rs.standard_normal()
            if r.random() < 0.3:
                rs.randint(0, 10, size=r.randint(0, 3))
            return rs, True
        g = np.random.Generator(getattr(np.random, r.choice(BITGENS))(r.randint(0, 99)))
        g.random(r.randint(0, 5))
        return g, True

    def sparse(self, supported=True):
        import scipy.sparse as sp

        r = self.rng
        dense = np.array([[0, 1.5, 0], [2, 0, 0], [0, 0, 3.0], [0, 0, 0]])[: r.choice([1, 2, 4]), : r.choice([1, 3])]
        fmt = r.choice(["csr", "csc", "coo", "bsr", "dia"] if supported else ["dok", "lil"])
        kind = r.choice(["matrix", "array"])
        ctor = getattr(sp, f"{fmt}_{kind}", None) or getattr(sp, f"{fmt}_matrix")
        if supported and r.random() < 0.3:
            # non-canonical storage: unsorted column indices (csr/csc), duplicate entries (coo)
            if fmt == "csr":
                m = sp.csr_matrix((np.array([1.0, 2.0, 3.0, 4.0]), np.array([2, 0, 1, 0]), np.array([0, 3, 4])), shape=(2, 3))
                return m, True
            if fmt == "csc":
                m = sp.csc_matrix((np.array([1.0, 2.0, 3.0]), np.array([1, 0, 1]), np.array([0, 2, 3, 3])), shape=(2, 3))
                return m, True
            if fmt == "coo":
                m = sp.coo_matrix((np.array([1.0, 2.0, 3.0]), (np.array([0, 0, 1]), np.array([1, 1, 0]))), shape=(2, 2))
                return m, True
        return ctor(dense), supported

    def masked(self):
        a, _ = self.array()
        if a.dtype.kind not in "iuf" or a.ndim == 0:
            a = np.arange(4.0)
        mask = np.zeros(a.shape, dtype=bool)
        v = self.rng.random()
        if v < 0.25:
            return np.ma.MaskedArray(a), True                      # nomask
        if v < 0.5:
            return np.ma.MaskedArray(a, mask), True                # an explicit mask array without a True entry
        if mask.size:
            mask.flat[0] = True
            if v > 0.8:
                mask.flat[-1] = True
        return np.ma.MaskedArray(a, mask), True

    def callable_(self):
        from scipy import special

        r = self.rng
        return r.choice([np.sqrt, np.add, special.exp10, int, str, np.float64, list, functools.partial(np.add, 1),
                         functools.partial(int, base=2), operator.attrgetter("a.b"), operator.itemgetter(1, 2), operator.itemgetter(2), operator.itemgetter(1), operator.attrgetter("x"), operator.attrgetter("y", "z"),
                         np.dtype("float32"), np.dtype(">i2"), np.dtype([("x", "i4")])]), True

    # ---- containers ----------------------------------------------------------------------------
    def leaf(self, supported=True):
        r = self.rng
        x = r.random()
        if x < 0.45:
            return self.scalar()
        if x < 0.6:
            return self.array()
        if x < 0.66:
            return self.npscalar()
        if x < 0.72:
            return self.objarray(True)
        if x < 0.77:
            return self.rng_obj()
        if x < 0.82:
            return self.sparse(True)
        if x < 0.86:
            return self.masked()
        if x < 0.92:
            return self.callable_()
        if x < 0.96:
            return r.choice([b"", b"ab\x00", bytearray(b"cd"), slice(1, None, 2), slice(None), slice(0, 10**20)]), True
        return self.structured()

    def value(self, depth=0, supported=True):
        """supported=True: stay inside C05's grammar; False: anything (the flag returned says what was produced)"""
        r = self.rng
        if depth > 3 or r.random() < 0.3:
            if not supported and r.random() < 0.35:
                return self.odd()
            return self.leaf(supported)
        kind = r.choice(["list", "tuple", "set", "dict", "odict", "ddict", "list", "dict"])
        n = r.choice([0, 1, 2, 3])
        ok = True
        if kind in ("list", "tuple"):
            items = []
            for _ in range(n):
                v, s = self.value(depth + 1, supported)
                ok &= s
                items.append(v)
            return (items if kind == "list" else tuple(items)), ok
        if kind == "set":
            return {r.choice(INTS + STRS[:5] + [1.5, None]) for _ in range(n)}, True
        keys = []
        d = {}
        for _ in range(n):
            k = self.key(supported_only=supported)
            v, s = self.value(depth + 1, supported)
            ok &= s
            d[k] = v
        # JSON text collisions / non-supported key types make the dict unsupported
        texts = [_json_key_text(k) for k in d]
        if len(set(texts)) != len(texts) or any(not _key_supported(k) for k in d):
            ok = False
        if kind == "odict":
            return collections.OrderedDict(d), ok
        if kind == "ddict":
            return collections.defaultdict(r.choice([list, int, dict, None, np.float64]), d), ok
        return d, ok

    def odd(self):
        """values outside the supported families: must be refused or faithful (C04)"""
        r = self.rng
        makers = [
            lambda: frozenset({1, 2}), lambda: collections.deque([1, 2], maxlen=5), lambda: collections.Counter("aab"),
            lambda: range(1, 10, 2), lambda: U.Point(1, 2), lambda: U.MyTuple((1, 2)), lambda: U.MyList([1, 2]),
            lambda: U.MyDict(a=1), lambda: {True: "t", False: "f"}, lambda: {1: "a", "1": "b"}, lambda: {None: 1},
            lambda: {(1, 2): 3}, lambda: {"p": property(lambda s: 1)}, lambda: self.objarray(False)[0],
            lambda: self.sparse(False)[0], lambda: U.Plain(1, [2]), lambda: U.WithGetstate(3), lambda: U.WithSlots(1, 2),
            lambda: U.SlotsNoDict(1), lambda: U.ReduceSameType(4), lambda: U.ReduceOther(5), lambda: U.RaisesGetstate(),
            lambda: U.GetstateNone(), lambda: U.Plain(1, [2]).method, lambda: operator.methodcaller("f", 1),
            lambda: U.module_function, lambda: complex(1, 2), lambda: bytearray(b"x"), lambda: np.array(U.Plain(1, 2), dtype=object),
            lambda: U.HiddenState([1, 2, 3]), lambda: object(), lambda: Ellipsis, lambda: U.Color.RED, lambda: 1 + 2j,
            lambda: memoryview(b"ab"), lambda: iter([1]), lambda: U.MyDefaultDict(list, {"a": [1]}),
            lambda: [b"one", b"two", U.NestedDump(3), b"three"], lambda: [U.ScalarState(10.0), U.ScalarState(20.5), U.ScalarState(31.25), U.ScalarState(-4.0)],
            lambda: [1, U.RaisesStopIteration(), 2], lambda: (U.SometimesRaises(True), [U.SometimesRaises(False)]),
            lambda: np.zeros(2, dtype=[("name", object), ("x", "i4")]), lambda: np.dtype([("name", object), ("y", "f8")]),
            lambda: [np.dtype("int32"), np.dtype("float64"), np.dtype(">i2"), np.dtype("float64")], lambda: np.bytes_(b"ab"), lambda: U.MyBytes(b"ab"), lambda: U.MyByteArray(b"cd"), lambda: [np.bytes_(b"x"), b"y"],
            lambda: __import__("scipy.sparse", fromlist=["x"]).dok_array((2, 3)), lambda: {"m": __import__("scipy.sparse", fromlist=["x"]).dok_array((1, 1))},
            lambda: np.float64(1.5).__add__, lambda: slice(np.int64(1), None), lambda: U.Plain(np.arange(3), {"k": U.Plain(1, 2)}),
        ]
        return r.choice(makers)(), False


def _json_key_text(k):
    if hasattr(k, "item") and np.isscalar(k):
        k = k.item()
    if k is True:
        return "true"
    if k is False:
        return "false"
    if k is None:
        return "null"
    if isinstance(k, float):
        return float.__repr__(k)
    return str(k)


def _key_supported(k):
    if isinstance(k, (bool, np.bool_)) or k is None:
        return False
    return isinstance(k, (str, int, float, np.integer, np.floating))
