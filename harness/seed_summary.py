"""python -m harness.seed_summary: rewrite seeded/SUMMARY.md from the meta.json files"""
import json
from pathlib import Path

root = Path(__file__).resolve().parent.parent / "seeded"
rows = []
for d in sorted(p for p in root.iterdir() if (p / "meta.json").exists()):
    m = json.loads((d / "meta.json").read_text())
    cell = lambda s: str(s).replace("|", "\\|").replace("\n", " ")
    rows.append(f"| {d.name} | {cell(m.get('change', ''))} | {cell(m.get('needs_to_manifest', ''))} | {cell(m.get('detection', ''))} |")
head = ("# Seeded changes and the checks that catch them\n\nGenerated from the meta.json files (`python -m harness.seed_summary`); every row was confirmed with "
        "`python -m harness.seeded` (round 1: `_a`/`_b`, round 2: `_c`/`_d`, round 3: `_e`/`_f`, round 4: `_g`, round 5: `_h`).\n\n"
        "| Seed | Change | Needs, to manifest | Detection |\n|---|---|---|---|\n")
(root / "SUMMARY.md").write_text(head + "\n".join(rows) + "\n")
print(len(rows), "seeds")
