"""Pandoc-JSON generators and implementation runners for C15 (parser + markdown converter)."""
from __future__ import annotations

import json

from .common import repo_on_path
from .card import patched_table

repo_on_path()

WORDS = ["a", "b", "In/Out", "x\\y", "c d", "é", "1.", "-", "- ☒", "- ☐", "\xa0", "*", "#", "", "A", "B", "/", "\\", "a/"]
UNSUPPORTED = ["Math", "Cite", "Superscript", "Subscript", "SmallCaps", "Span", "Note", "HorizontalRule", "DefinitionList", "LineBlock", "Null"]
ATTR = ["", [], []]


def attr(rng):
    return [rng.choice(["", "id1"]), rng.sample(["c1", "c2"], rng.randint(0, 2)),
            [[k, rng.choice(["", "v"])] for k in rng.sample(["hidden", "k"], rng.randint(0, 2))]]


def gen_inline(rng, depth=0, allow_bad=True):
    r = rng.random()
    if depth > 2 or r < 0.4:
        return {"t": "Str", "c": rng.choice(WORDS)}
    if r < 0.5:
        return {"t": "Space"}
    if r < 0.55:
        return {"t": "SoftBreak"}
    if r < 0.58:
        return {"t": "LineBreak"}
    if r < 0.7:
        return {"t": rng.choice(["Strong", "Emph", "Strikeout"]), "c": gen_inlines(rng, depth + 1, allow_bad)}
    if r < 0.75:
        return {"t": "RawInline", "c": ["html", rng.choice(["<b>", "<br/>", ""])]}
    if r < 0.8:
        return {"t": "Code", "c": [ATTR, rng.choice(["x = 1", "", "a`b"])]}
    if r < 0.86:
        return {"t": "Link", "c": [ATTR, gen_inlines(rng, depth + 1, allow_bad), [rng.choice(["http://x", "a b"]), "title"]]}
    if r < 0.91:
        typef = "fig:" if (not allow_bad or rng.random() < 0.85) else rng.choice(["", "x"])
        cap = gen_inlines(rng, depth + 1, allow_bad) if (not allow_bad or rng.random() < 0.9) else []
        return {"t": "Image", "c": [ATTR, cap, [rng.choice(["p.png", "a/b.png"]), typef]]}
    if r < 0.96:
        qt = rng.choice(["DoubleQuote", "SingleQuote"]) if (not allow_bad or rng.random() < 0.9) else "AngleQuote"
        return {"t": "Quoted", "c": [{"t": qt}, gen_inlines(rng, depth + 1, allow_bad)]}
    if allow_bad:
        return {"t": rng.choice(UNSUPPORTED), "c": []}
    return {"t": "Str", "c": "z"}


def gen_inlines(rng, depth=0, allow_bad=True):
    return [gen_inline(rng, depth, allow_bad) for _ in range(rng.randint(1, 4))]


def gen_table(rng, depth, allow_bad):
    ncols = rng.choice([0, 1, 2, 2, 3])
    nrows = rng.choice([0, 1, 2, 3])
    new = rng.random() < 0.5
    names = [rng.choice(["a", "b", "c", "a"]) for _ in range(ncols)]

    def cell_blocks():
        return [{"t": "Plain", "c": gen_inlines(rng, depth + 1, allow_bad)}]

    if new:
        head_cells = [[ATTR, {"t": "AlignDefault"}, 1, 1, [{"t": "Plain", "c": [{"t": "Str", "c": n}]}]] for n in names]
        rows = []
        for _ in range(nrows):
            k = ncols if rng.random() < 0.85 else rng.randint(0, ncols)
            rows.append([ATTR, [[ATTR, {"t": "AlignDefault"}, 1, 1, cell_blocks()] for _ in range(k)]])
        return {"t": "Table", "c": [ATTR, [None, []], [], [ATTR, [[ATTR, head_cells]]], [[ATTR, 0, [], rows]], [ATTR, []]]}
    thead = [[{"t": "Plain", "c": [{"t": "Str", "c": n}]}] for n in names]
    tbody = []
    for _ in range(nrows):
        k = ncols if rng.random() < 0.85 else rng.randint(0, ncols)
        tbody.append([(cell_blocks() if rng.random() < 0.85 else []) for _ in range(k)])
    return {"t": "Table", "c": [[], [], [], thead, tbody]}


POOL = []          # container blocks generated so far in this process: re-used verbatim at other depths


def gen_block(rng, depth=0, allow_bad=True):
    if POOL and rng.random() < 0.12:
        return json.loads(json.dumps(rng.choice(POOL[-40:])))
    b = _gen_block(rng, depth, allow_bad)
    if b["t"] in ("BulletList", "OrderedList", "BlockQuote", "Div", "Table") and len(json.dumps(b)) < 1500:
        POOL.append(b)
        if len(POOL) > 400:
            del POOL[:200]
    return b


def _gen_block(rng, depth=0, allow_bad=True):
    r = rng.random()
    if depth > 2 or r < 0.35:
        return {"t": rng.choice(["Para", "Plain"]), "c": gen_inlines(rng, depth, allow_bad)}
    if r < 0.42:
        return {"t": "RawBlock", "c": ["html", rng.choice(["<div>x</div>", "", "<!-- c -->\nline", "<details>", "</details>",
                                                           "<summary> Click to expand </summary>",
                                                           "<details>\n<summary> Click to expand </summary>\n\nbody\n\n</details>"])]}
    if r < 0.5:
        return {"t": "CodeBlock", "c": [["", rng.sample(["python", "numberLines"], rng.randint(0, 2)), []], rng.choice(["x = 1\ny = 2", ""])]}
    if r < 0.62:
        return {"t": "BulletList", "c": [[gen_block(rng, depth + 1, allow_bad) for _ in range(rng.randint(1, 2))] for _ in range(rng.randint(1, 3))]}
    if r < 0.72:
        return {"t": "OrderedList", "c": [[rng.choice([1, 1, 3, 0]), {"t": "Decimal"}, {"t": "Period"}],
                                          [[gen_block(rng, depth + 1, allow_bad) for _ in range(rng.randint(1, 2))] for _ in range(rng.randint(1, 3))]]}
    if r < 0.8:
        return {"t": "BlockQuote", "c": [gen_block(rng, depth + 1, allow_bad) for _ in range(rng.randint(1, 2))]}
    if r < 0.88:
        return {"t": "Div", "c": [attr(rng), [gen_block(rng, depth + 1, allow_bad) for _ in range(rng.randint(0, 2))]]}
    if r < 0.95:
        return gen_table(rng, depth, allow_bad)
    if allow_bad:
        return {"t": rng.choice(UNSUPPORTED), "c": []}
    return {"t": "Para", "c": [{"t": "Str", "c": "z"}]}


def gen_header(rng, allow_bad=False, small=False):
    if small:
        # tiny alphabet: titles that are slash-joins of other titles, few levels -> paths collide as strings
        return {"t": "Header", "c": [rng.choice([1, 1, 2, 2, 3]), ["h", [], []],
                                     [{"t": "Str", "c": rng.choice(["A", "B", "A/B", "B/A", "A/B/A"])}]]}
    lvl = rng.choice([1, 1, 2, 2, 3, 3, 4, 5, 6])
    r = rng.random()
    if r < 0.05:
        inl = []                                   # a header without any text (a bare `#` line)
    elif r < 0.6:
        inl = [{"t": "Str", "c": rng.choice(["A", "B", "C", "A/B", "B/C", "A/B/C", "A", "B", "In/Out", "a\\", "é", "T", "C:\\", "R²", "µs", "…", "A\u00a0B"])}]
    else:
        inl = gen_inlines(rng, 1, allow_bad)
    return {"t": "Header", "c": [lvl, ["h", [], []], inl]}


def gen_doc(rng, allow_bad=False, start_with_header=True):
    n = rng.randint(1, 12)
    blocks = []
    small = rng.random() < 0.3
    v = rng.random()
    if v < 0.04:
        # a section whose whole content spells the wrapper skops writes for folded sections, with sub-headers below it
        H = lambda l, t: {"t": "Header", "c": [l, ["h", [], []], [{"t": "Str", "c": t}]]}
        R = lambda t: {"t": "RawBlock", "c": ["html", t]}
        return [H(1, "A"), R("<details>"), R("<summary> Click to expand </summary>"), {"t": "Para", "c": [{"t": "Str", "c": "body"}]}, R("</details>"),
                H(2, "B"), {"t": "Para", "c": [{"t": "Str", "c": "below"}]}, H(1, "C")]
    if v < 0.08:
        # a header without text that has deeper headers below it
        H = lambda l, inl: {"t": "Header", "c": [l, ["h", [], []], inl]}
        return [H(1, [{"t": "Str", "c": "Top"}]), H(2, []), H(3, [{"t": "Str", "c": "Deep"}]), {"t": "Para", "c": [{"t": "Str", "c": "x"}]},
                H(2, [{"t": "Str", "c": "Sib"}])]
    for i in range(n):
        if (i == 0 and start_with_header) or rng.random() < 0.4:
            blocks.append(gen_header(rng, allow_bad, small))
        else:
            blocks.append(gen_block(rng, 0, allow_bad))
    return blocks


# ------------------------------------------------------------------------------------------
# implementation runners


def impl_conv(items):
    """convert on ONE Markdown instance; returns (results, final indent trace)"""
    from skops.card._markup import Markdown

    with patched_table():
        md = Markdown()
        out = []
        for it in items:
            try:
                out.append({"ok": md(json.loads(json.dumps(it)))})
            except ValueError:
                out.append({"err": "ValueError"})
        return out, list(md._indent_trace)


def impl_conv_fresh(item):
    from skops.card._markup import Markdown

    with patched_table():
        try:
            return {"ok": Markdown()(json.loads(json.dumps(item)))}
        except ValueError:
            return {"err": "ValueError"}


def impl_parse(blocks):
    from skops.card._parser import PandocParser

    with patched_table():
        try:
            card = PandocParser(json.dumps({"blocks": blocks, "pandoc-api-version": [1, 22], "meta": {}})).generate()
        except ValueError:
            return dict(r="err", e="ValueError")
        secs = []

        def rec(d, prefix):
            for k, s in d.items():
                p = prefix + [k]
                secs.append(dict(path=p, title=s.title, content=s.content))
                rec(s.subsections, p)

        rec(card._data, [])
        return dict(r="card", sections=secs, toc=card.get_toc(), render=card.render())


def impl_parse_twice(blocks):
    """the same parser object asked twice: (first render, second render) or None when the document is refused"""
    from skops.card._parser import PandocParser

    with patched_table():
        try:
            parser = PandocParser(json.dumps({"blocks": blocks, "pandoc-api-version": [1, 22], "meta": {}}))
            a = parser.generate()
            b = parser.generate()
        except ValueError:
            return None
        return (a.render(), a.get_toc()), (b.render(), b.get_toc())
