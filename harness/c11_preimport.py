"""C11, fresh interpreter: the default-trusted lists are computed when skops.io is imported, from registries other packages
can write to (the public scikit-learn modules that all_estimators() walks, numpy's sctypeDict).  A package that registered
its own classes there *before* skops.io is imported must not make them trusted by default: they are not members of the
documented families.  Prints one JSON object: {"problems": [...], "cases": n}.  Nothing but inert stand-in classes is used."""
import io
import json
import sys
import types
from zipfile import ZipFile

from harness.common import REPO  # noqa: F401  (puts the repository under test on sys.path)

import numpy as np
import sklearn.dummy
import sklearn.preprocessing
from sklearn.base import BaseEstimator, TransformerMixin

assert not any(m == "skops.io" or m.startswith("skops.io.") for m in sys.modules)

foreign = types.ModuleType("verif_foreign_pkg")
sys.modules["verif_foreign_pkg"] = foreign


class FastDummy(BaseEstimator):
    def __init__(self, strategy="prior"):
        self.strategy = strategy


class FastScaler(TransformerMixin, BaseEstimator):
    def __init__(self, with_mean=True):
        self.with_mean = with_mean


class bfloat16(np.float32):
    pass


class int4(np.int8):
    pass


for cls in (FastDummy, FastScaler, bfloat16, int4):
    cls.__module__ = "verif_foreign_pkg"
    cls.__qualname__ = cls.__name__
    setattr(foreign, cls.__name__, cls)

sklearn.dummy.DummyClassifier = FastDummy               # drop-in replacement of an estimator (patch_sklearn style)
sklearn.preprocessing.FastScaler = FastScaler           # an additional estimator in a public module
if hasattr(sklearn.preprocessing, "__all__"):
    sklearn.preprocessing.__all__ = list(sklearn.preprocessing.__all__) + ["FastScaler"]
np.sctypeDict["bfloat16"] = bfloat16                     # extension scalar types (ml_dtypes style)
np.sctypeDict["int4"] = int4

from skops.io import get_untrusted_types, loads  # noqa: E402
from skops.io._protocol import PROTOCOL  # noqa: E402
from skops.io.exceptions import UntrustedTypesFoundException  # noqa: E402


def archive(state, files=()):
    buf = io.BytesIO()
    with ZipFile(buf, "w") as zf:
        zf.writestr("schema.json", json.dumps(dict(state, protocol=PROTOCOL, _skops_version="0")))
        for name, payload in files:
            zf.writestr(name, payload)
    return buf.getvalue()


def npy(value):
    buf = io.BytesIO()
    np.save(buf, value, allow_pickle=False)
    return buf.getvalue()


def node(loader, cls, **kw):
    return dict({"__class__": cls, "__module__": "verif_foreign_pkg", "__loader__": loader, "__id__": 1}, **kw)


empty_dict = {"__class__": "dict", "__module__": "builtins", "__loader__": "DictNode", "content": {}, "__id__": 2,
              "key_types": {"__class__": "list", "__module__": "builtins", "__loader__": "ListNode", "content": [], "__id__": 3}}
CASES = []
for est in ("FastDummy", "FastScaler"):
    CASES.append((f"ObjectNode {est}", f"verif_foreign_pkg.{est}", node("ObjectNode", est, content=empty_dict), ()))
    CASES.append((f"TypeNode {est}", f"verif_foreign_pkg.{est}", node("TypeNode", est), ()))
for sc in ("bfloat16", "int4"):
    CASES.append((f"TypeNode {sc}", f"verif_foreign_pkg.{sc}", node("TypeNode", sc), ()))
    CASES.append((f"NdArrayNode {sc}", f"verif_foreign_pkg.{sc}", node("NdArrayNode", sc, type="numpy", file="1.npy"),
                  [("1.npy", npy(np.float32(1.5) if sc == "bfloat16" else np.int8(3)))]))

problems = []
for label, name, state, files in CASES:
    data = archive(state, files)
    try:
        untrusted = get_untrusted_types(data=data)
    except Exception as ex:
        untrusted = None
        note = f"{type(ex).__name__}"
    if untrusted is not None and name not in untrusted:
        problems.append(dict(case=label, name=name, what=f"get_untrusted_types reports {untrusted}: {name} is trusted by default", schema=state))
    try:
        obj = loads(data, trusted=None)
    except UntrustedTypesFoundException:
        continue
    except Exception as ex:
        if untrusted is None:
            continue                                    # the archive is refused as malformed: nothing was accepted
        problems.append(dict(case=label, name=name, what=f"loads(trusted=None) passed the audit ({type(ex).__name__})", schema=state))
    else:
        problems.append(dict(case=label, name=name, what=f"loads(trusted=None) returned a {type(obj).__module__}.{type(obj).__name__}", schema=state))
print(json.dumps(dict(problems=problems, cases=len(CASES))))
