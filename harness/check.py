"""./check <id> quick|thorough   |   ./check --setup   |   ./check <id> --replay <path>"""
from __future__ import annotations

import importlib
import os
import json
import sys
import traceback

from .common import LEAN, Ctx, Lock, sh, VERIF


def setup():
    from .translate import run_all

    run_all()
    with Lock(LEAN / ".lock"):
        rc, out = sh(["lake", "build", "driver"], cwd=LEAN)
        print(out[-2000:])
        # the property modules are built (and their failures reported as proof obligations) by each check; building
        # them here only warms the cache, so a module that no longer checks on a changed tree does not fail the setup
        rc2, out2 = sh(["lake", "build", "SkopsModel"], cwd=LEAN)
        print(out2[-1500:])
    return 0 if rc == 0 else 2


def main(argv):
    if not argv:
        print(__doc__)
        return 2
    if argv[0] == "--setup":
        return setup()
    pid = argv[0]
    mod = importlib.import_module(f"harness.props.{pid.lower()}")
    if len(argv) >= 3 and argv[1] == "--replay":
        return mod.replay(json.loads(open(argv[2]).read()))
    tier = argv[1] if len(argv) > 1 else "quick"
    tier = {"quick": "quick", "thorough": "thorough"}.get(tier, "quick")
    ctx = Ctx(pid, tier)
    try:
        from .translate import run_all

        run_all()
        mod.run(ctx)
        rc = ctx.finish(level="proof")
    except Exception as ex:
        traceback.print_exc()
        # a harness step that the pinned tree passes raised *inside the implementation*: the correspondence for that step no longer
        # checks (reported as such, with the traceback as the replay); anything raised by the harness itself is an infrastructure error
        from .common import REPO

        frames = traceback.extract_tb(ex.__traceback__)
        inner = frames[-1] if frames else None
        in_impl = inner is not None and os.path.abspath(inner.filename).startswith(str(REPO) + os.sep)
        if not in_impl:
            print(f"INFRASTRUCTURE-ERROR property={pid}", flush=True)
            return 2
        step = next((f for f in reversed(frames) if "/harness/" in f.filename), None)
        try:
            ctx.violation(f"correspondence no longer checks: the harness step {os.path.basename(step.filename) if step else '?'}:"
                          f"{step.lineno if step else '?'} raised {type(ex).__name__} inside the implementation "
                          f"({os.path.relpath(inner.filename, str(REPO))}:{inner.lineno}), which it does not on the pinned tree",
                          dict(kind="impl-raised", exception=f"{type(ex).__name__}: {str(ex)[:300]}", traceback=traceback.format_exc()[-3000:]),
                          no_input=True)
            rc = ctx.finish(level="proof")
        except Exception:
            traceback.print_exc()
            print(f"INFRASTRUCTURE-ERROR property={pid}", flush=True)
            return 2
    print(f"{pid} {tier}: violations={len(ctx.violations)} known={len(ctx.known)} wall={ctx.coverage.get('wall', '')}")
    return rc


if __name__ == "__main__":
    sys.exit(main(sys.argv[1:]))
