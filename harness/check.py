"""./check <id> quick|thorough   |   ./check --setup   |   ./check <id> --replay <path>"""
from __future__ import annotations

import importlib
import json
import sys
import traceback

from .common import LEAN, Ctx, Lock, sh, VERIF


def setup():
    from .translate import run_all

    run_all()
    with Lock(LEAN / ".lock"):
        rc, out = sh(["lake", "build", "driver"], cwd=LEAN)
        print(out[-2000:])
        # the property modules are built (and their failures reported as proof obligations) by each check; building
        # them here only warms the cache, so a module that no longer checks on a changed tree does not fail the setup
        rc2, out2 = sh(["lake", "build", "SkopsModel"], cwd=LEAN)
        print(out2[-1500:])
    return 0 if rc == 0 else 2


def main(argv):
    if not argv:
        print(__doc__)
        return 2
    if argv[0] == "--setup":
        return setup()
    pid = argv[0]
    mod = importlib.import_module(f"harness.props.{pid.lower()}")
    if len(argv) >= 3 and argv[1] == "--replay":
        return mod.replay(json.loads(open(argv[2]).read()))
    tier = argv[1] if len(argv) > 1 else "quick"
    tier = {"quick": "quick", "thorough": "thorough"}.get(tier, "quick")
    ctx = Ctx(pid, tier)
    try:
        from .translate import run_all

        run_all()
        mod.run(ctx)
        rc = ctx.finish(level="proof")
    except Exception:
        traceback.print_exc()
        print(f"INFRASTRUCTURE-ERROR property={pid}", flush=True)
        return 2
    print(f"{pid} {tier}: violations={len(ctx.violations)} known={len(ctx.known)} wall={ctx.coverage.get('wall', '')}")
    return rc


if __name__ == "__main__":
    sys.exit(main(sys.argv[1:]))
