"""Shared plumbing: paths, Lean build + axiom audit, driver, evidence, findings, violations."""
from __future__ import annotations

import fcntl
import hashlib
import json
import os
import random
import re
import subprocess
import sys
import time
from pathlib import Path

VERIF = Path(__file__).resolve().parent.parent
REPO = Path(os.environ.get("SKOPS_REPO", "/repo"))
LEAN = VERIF / "lean"
EVID = VERIF / "evidence"
REPLAYS = EVID / "replays"
DRIVER = LEAN / ".lake" / "build" / "bin" / "driver"
ALLOWED_AXIOMS = {"propext", "Classical.choice", "Quot.sound"}
FORBIDDEN = re.compile(
    r"\bsorry\b|\badmit\b|^\s*axiom\s|native_decide|bv_decide|implemented_by|(^|\s)unsafe\s+(def|instance|abbrev|structure|inductive|opaque|axiom|theorem|partial)\b|maxHeartbeats\s+0\b",
    re.M,
)

TRUSTED_BASE = [
    "Lean 4.33.0 kernel (thorough tier: re-checked by leanchecker)",
    "axioms allowed: propext, Classical.choice, Quot.sound (audited per theorem on every run)",
    "harness/translate/*: Python translators that regenerate lean/SkopsModel/Generated/*.lean from /repo",
    "harness correspondence (generators, canonicalisers, line-protocol driver glue lean/Driver.lean)",
    "modelled-not-verified: CPython, json, zipfile, numpy/scipy codecs, PrettyTable layout, POSIX file semantics, sklearn",
]


def repo_on_path():
    """Make the working-tree skops importable (it is what /venv has installed in editable mode,
    but be explicit so that a worktree can be checked via SKOPS_REPO)."""
    p = str(REPO)
    if p not in sys.path:
        sys.path.insert(0, p)


class Lock:
    def __init__(self, path):
        self.path = path

    def __enter__(self):
        self.f = open(self.path, "w")
        fcntl.flock(self.f, fcntl.LOCK_EX)
        return self

    def __exit__(self, *a):
        fcntl.flock(self.f, fcntl.LOCK_UN)
        self.f.close()


def sh(cmd, cwd=None, timeout=3600, env=None):
    e = dict(os.environ)
    if env:
        e.update(env)
    p = subprocess.run(cmd, cwd=cwd, capture_output=True, text=True, timeout=timeout, env=e)
    return p.returncode, p.stdout + p.stderr


def strip_comments(src: str) -> str:
    # remove /- ... -/ (nested not needed for our files) and -- line comments
    src = re.sub(r"/-.*?-/", "", src, flags=re.S)
    src = re.sub(r"--.*", "", src)
    return src


def grep_forbidden():
    hits = []
    for p in list(LEAN.glob("SkopsModel/**/*.lean")) + [LEAN / "Driver.lean", LEAN / "SkopsModel.lean"]:
        body = strip_comments(p.read_text())
        for m in FORBIDDEN.finditer(body):
            hits.append(f"{p.relative_to(LEAN)}: {m.group(0).strip()}")
    return hits


def write_if_changed(path: Path, content: str) -> bool:
    path.parent.mkdir(parents=True, exist_ok=True)
    if path.exists() and path.read_text() == content:
        return False
    path.write_text(content)
    return True


AUDIT_TEMPLATE = """import Lean
import {module}
open Lean Elab Command in
run_cmd do
  let env ← getEnv
  let ns := `{ns}
  for (n, ci) in env.constants.toList do
    if n.getPrefix == ns && !n.isInternalDetail then
      match ci with
      | .thmInfo _ =>
        let axs ← Lean.collectAxioms n
        logInfo m!"AXIOMS|{{n}}|{{axs.toList}}"
      | _ => pure ()
"""


def lean_build_and_audit(prop_id: str, extra_targets=(), clean=False):
    """lake build the property module + driver, audit axioms.  Returns dict:
    ok, build_log, theorems {name: [axioms]}, bad_axioms, forbidden, errors [str]"""
    module = f"SkopsModel.Properties.{prop_id}"
    ns = f"Skops.Properties.{prop_id}"
    res = dict(ok=False, theorems={}, bad_axioms={}, forbidden=[], errors=[], build_log="")
    with Lock(LEAN / ".lock"):
        if clean:
            for sub in ("lib/lean/SkopsModel/Properties", "ir/SkopsModel/Properties"):
                for f in (LEAN / ".lake" / "build" / sub).glob(f"{prop_id}.*"):
                    f.unlink()
        rc, out = sh(["lake", "build", module, "driver", *extra_targets], cwd=LEAN)
        res["build_log"] = out[-6000:]
        if rc != 0:
            res["errors"] = [l for l in out.splitlines() if l.startswith("error:")][:20] or [out[-500:]]
            return res
        res["forbidden"] = grep_forbidden()
        audit = LEAN / ".lake" / f"audit_{prop_id}.lean"
        audit.write_text(AUDIT_TEMPLATE.format(module=module, ns=ns))
        rc, out = sh(["lake", "env", "lean", str(audit)], cwd=LEAN)
    if rc != 0:
        res["errors"] = ["axiom audit failed: " + out[-500:]]
        return res
    for line in out.splitlines():
        m = re.search(r"AXIOMS\|([^|]+)\|\[(.*)\]", line)
        if m:
            axs = [a.strip() for a in m.group(2).split(",") if a.strip()]
            res["theorems"][m.group(1)] = axs
            bad = [a for a in axs if a not in ALLOWED_AXIOMS]
            if bad:
                res["bad_axioms"][m.group(1)] = bad
    res["ok"] = not res["forbidden"] and not res["bad_axioms"]
    if res["forbidden"]:
        res["errors"].append("forbidden tokens: " + "; ".join(res["forbidden"]))
    if res["bad_axioms"]:
        res["errors"].append("disallowed axioms: " + json.dumps(res["bad_axioms"]))
    return res


def leanchecker(prop_id: str):
    rc, out = sh(["lake", "env", "leanchecker", f"SkopsModel.Properties.{prop_id}"], cwd=LEAN, timeout=1800)
    return rc == 0, out[-1000:]


class Driver:
    """Runs the compiled Lean model on a batch of JSON lines."""

    def run(self, objs):
        if not objs:
            return []
        data = "\n".join(json.dumps(o, ensure_ascii=False) for o in objs) + "\n"
        p = subprocess.run([str(DRIVER)], input=data.encode("utf-8"), capture_output=True, timeout=1800)
        if p.returncode != 0:
            raise RuntimeError("driver failed: " + p.stderr.decode()[-500:])
        lines = p.stdout.decode("utf-8").splitlines()
        if len(lines) != len(objs):
            raise RuntimeError(f"driver produced {len(lines)} lines for {len(objs)} inputs")
        return [json.loads(l) for l in lines]


def ast_fingerprint(path: Path, names):
    """sha256 of ast.dump of the named top-level functions/classes/methods ('Class.method')."""
    import ast

    tree = ast.parse(path.read_text())
    found = {}

    def visit(body, prefix=""):
        for node in body:
            if isinstance(node, (ast.FunctionDef, ast.ClassDef, ast.AsyncFunctionDef)):
                q = prefix + node.name
                found[q] = node
                if isinstance(node, ast.ClassDef):
                    visit(node.body, q + ".")

    visit(tree.body)
    out = {}
    for n in names:
        node = found.get(n)
        if node is None:
            out[n] = "MISSING"
            continue
        # drop docstrings
        for sub in ast.walk(node):
            if isinstance(sub, (ast.FunctionDef, ast.ClassDef)) and sub.body and isinstance(sub.body[0], ast.Expr) \
                    and isinstance(getattr(sub.body[0], "value", None), ast.Constant) and isinstance(sub.body[0].value.value, str):
                sub.body = sub.body[1:] or [ast.Pass()]
        out[n] = hashlib.sha256(ast.dump(node).encode()).hexdigest()[:16]
    return out


def load_findings():
    p = VERIF / "known_findings.json"
    if not p.exists():
        return []
    return json.loads(p.read_text())["findings"]


class Ctx:
    """One run of one check."""

    def __init__(self, prop_id: str, tier: str):
        self.id = prop_id
        self.tier = tier
        self.seed = int(os.environ.get("VERIF_SEED", "0") or 0)
        self.rng = random.Random(f"{prop_id}:{self.seed}")
        self.t0 = time.time()
        self.violations = []
        self.known = []
        self.coverage = {}
        self.assumptions = []
        self.driver = Driver()
        self.lean = None
        EVID.mkdir(exist_ok=True)
        REPLAYS.mkdir(exist_ok=True)

    def thorough(self):
        return self.tier == "thorough"

    def budget(self, quick, thorough):
        return thorough if self.thorough() else quick

    # ---- Lean -------------------------------------------------------------------------------
    def build(self, required_theorems=(), extra_targets=()):
        """Build + audit.  A failure is recorded as a *broken obligation* (not yet a violation);
        the caller runs the replay search and then calls conclude()."""
        r = lean_build_and_audit(self.id, extra_targets=extra_targets)
        self.lean = r
        self.broken = list(r["errors"])
        ns = f"Skops.Properties.{self.id}."
        have = {k[len(ns):] if k.startswith(ns) else k for k in r["theorems"]}
        for t in required_theorems:
            if r["ok"] or r["theorems"]:
                if t not in have:
                    self.broken.append(f"required theorem {t} is missing")
        if self.thorough() and not self.broken:
            ok, out = leanchecker(self.id)
            self.coverage["leanchecker"] = "ok" if ok else out
            if not ok:
                self.broken.append("leanchecker rejected the compiled module: " + out[-300:])
        n = len(r["theorems"])
        self.coverage.update(
            obligations=max(n, len(required_theorems)) + 0,
            discharged=0 if self.broken else n,
            checker_cmd=f"cd lean && lake build SkopsModel.Properties.{self.id} && lake env lean .lake/audit_{self.id}.lean"
            + (" && lake env leanchecker SkopsModel.Properties." + self.id if self.thorough() else ""),
            trusted_base=TRUSTED_BASE,
            theorems={k: v for k, v in sorted(r["theorems"].items())},
        )
        return not self.broken

    # ---- reporting --------------------------------------------------------------------------
    def replay_path(self, tag):
        h = hashlib.sha256(tag.encode()).hexdigest()[:10]
        return REPLAYS / f"{self.id}_{h}.json"

    def violation(self, what: str, replay: dict, no_input=False):
        path = self.replay_path(what + json.dumps(replay, sort_keys=True, default=str)[:2000])
        replay = {(k if k not in ("property", "what") else k + "_"): v for k, v in replay.items()}     # never a reason not to report
        path.write_text(json.dumps(dict(property=self.id, what=what, **replay), indent=1, default=str, ensure_ascii=False))
        rel = os.path.relpath(path, VERIF)
        line = f"VIOLATION property={self.id} replay={rel}"
        if no_input:
            line += " no-failing-input-found"
        print(line, flush=True)
        print(f"  ({what})", flush=True)
        self.violations.append(dict(what=what, replay=rel, no_input=no_input))

    def known_finding(self, key: str, what: str):
        print(f"KNOWN-FINDING: property={self.id} {key}: {what}", flush=True)
        self.known.append(key)

    def finish(self, level="proof"):
        if not self.coverage.get("discharged"):
            # a broken build: the proof-level keys would not validate; the exploration-style counts remain
            self.coverage["broken_obligations"] = self.coverage.pop("obligations", None)
            self.coverage.pop("discharged", None)
        ev = dict(
            property_id=self.id,
            tier=self.tier,
            seed=self.seed,
            level=level,
            coverage=self.coverage,
            assumptions=self.assumptions,
            wall_s=round(time.time() - self.t0, 2),
            violations=len(self.violations),
            known_findings=self.known,
        )
        (EVID / f"{self.id}.json").write_text(json.dumps(ev, indent=1, default=str, ensure_ascii=False))
        return 1 if self.violations else 0
