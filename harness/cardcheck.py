"""Engine shared by the model-card properties (C09, C10, C14).

For every generated history:
  * run it on the real `skops.card.Card` (in-process) and on the Lean model (driver), compare the
    outputs under the property's *view*;
  * evaluate the property's *oracle sentences* directly on the implementation (no model involved).
An oracle failure is a violation with the (shrunk) history as replay.  A model/implementation
mismatch, a broken Lean obligation or a changed fingerprint triggers an extended oracle search;
if that finds nothing the violation is reported with `no-failing-input-found`.
"""
from __future__ import annotations

import json
import time

from . import card, fingerprints
from .common import Ctx, load_findings


def spec_split(key: str):
    """the property's sentence, written independently of model and implementation:
    split on unescaped '/', strip parts, '\\/' is a literal slash"""
    parts, cur, i = [], [], 0
    while i < len(key):
        if key[i] == "\\" and i + 1 < len(key) and key[i + 1] == "/":
            cur.append(("lit", "/"))
            i += 2
        elif key[i] == "/":
            parts.append(cur)
            cur = []
            i += 1
        else:
            cur.append(("ch", key[i]))
            i += 1
    parts.append(cur)
    out = []
    for p in parts:
        a, b = 0, len(p)
        while a < b and p[a][0] == "ch" and p[a][1].isspace():
            a += 1
        while b > a and p[b - 1][0] == "ch" and p[b - 1][1].isspace():
            b -= 1
        out.append("".join(c for _, c in p[a:b]))
    return out


def snapshot(c):
    """DFS list of (path, title, content, kind, visible, folded) of the live card"""
    from skops.card._model_card import PlotSection, TableSection

    out = []

    def rec(d, prefix):
        for k, s in d.items():
            kind = "plot" if isinstance(s, PlotSection) else "table" if isinstance(s, TableSection) else "text"
            extra = None
            if kind == "plot":
                extra = (str(s.path), s.alt_text)
            if kind == "table":
                extra = tuple((str(col), tuple(str(v) for v in vals)) for col, vals in s.table.items())
            p = prefix + (k,)
            out.append((p, s.title, s.content, kind, bool(s.visible), bool(s.folded), extra))
            rec(s.subsections, p)

    rec(c._data, ())
    return out


class Run:
    """executes one history on the implementation, calling oracle hooks around every op"""

    def __init__(self, oracle):
        self.oracle = oracle

    def run(self, history):
        from skops.card import Card

        outs, fails = [], []
        c = None
        with card.patched_table():
            for i, op in enumerate(history):
                if op["op"] == "card.new":
                    c = Card(card.StubModel(), template=None)
                    outs.append(dict(r="ok"))
                    continue
                before = snapshot(c)
                metrics_before = dict(c._metrics)
                out = card.exec_op(c, op)
                outs.append(out)
                after = snapshot(c)
                for msg in self.oracle(c, op, out, before, after, metrics_before):
                    fails.append((i, msg))
        return outs, fails


def finding_matches(f, op, msg):
    """does an oracle failure fall under an *open* known finding?"""
    if f["status"] != "open":
        return False
    if f["key"] == "empty-nonleaf-part":
        if not msg.startswith("empty-part-accepted"):
            return False
        key = op.get("key")
        if key is None:
            return False
        parts = spec_split(key)
        return len(parts) >= 2 and parts[-1] != "" and any(p == "" for p in parts[:-1])
    return False


def run_card_property(ctx: Ctx, *, area, required, weights, view, oracle, quick=(300, 30), thorough=(6000, 60),
                      extra_streams=None, scenarios=()):
    t0 = time.time()
    lean_ok = ctx.build(required_theorems=required)
    fp_changed = fingerprints.changed(area)
    n_hist, n_ops = ctx.budget(quick, thorough)
    escalated = (not lean_ok) or bool(fp_changed)
    if escalated:
        n_hist *= 4
    findings = [f for f in load_findings() if f["property"] == ctx.id]
    runner = Run(oracle)

    evaluations = 0
    distinct = set()
    samples = []
    mismatches = []
    oracle_fails = []
    known_hits = {}
    op_hist = {}
    err_kinds = {}
    batch_hist, batch_outs = [], []

    def flush():
        nonlocal batch_hist, batch_outs
        if not batch_hist:
            return
        flat = [card.model_view(o) for h in batch_hist for o in h]
        mo = ctx.driver.run(flat)
        k = 0
        for h, outs in zip(batch_hist, batch_outs):
            for i, (op, a) in enumerate(zip(h, outs)):
                b = mo[k + i]
                va, vb = view(op, card.canon(a)), view(op, b)
                if va != vb:
                    mismatches.append(dict(history=h[: i + 1], index=i, impl=a, model=b))
                    break
            k += len(h)
        batch_hist, batch_outs = [], []

    scenarios = list(scenarios)
    for hi in range(n_hist + len(scenarios)):
        if hi < len(scenarios):
            hist = scenarios[hi]          # fixed multi-step sequences that random generation reaches too rarely
        else:
            hist, _ = card.gen_history(ctx.rng, n_ops, weights)
        outs, fails = runner.run(hist)
        evaluations += len(hist)
        for op, o in zip(hist, outs):
            op_hist[op["op"]] = op_hist.get(op["op"], 0) + 1
            if o.get("r") == "err":
                err_kinds[o["e"]] = err_kinds.get(o["e"], 0) + 1
            if o.get("r") != "err" or True:
                distinct.add(json.dumps([op, o.get("r"), o.get("e")], sort_keys=True, ensure_ascii=False, default=str))
        if hi < 2:
            samples.append(hist[:8])
        for i, msg in fails:
            fk = next((f for f in findings if finding_matches(f, hist[i], msg)), None)
            if fk:
                known_hits.setdefault(fk["key"], (hist[: i + 1], msg))
            else:
                oracle_fails.append((hist[: i + 1], i, msg))
        batch_hist.append(hist)
        batch_outs.append(outs)
        if len(batch_hist) >= 200:
            flush()
        if len(oracle_fails) >= 5:
            break
    flush()

    if extra_streams:
        for name, fn in extra_streams.items():
            r = fn(ctx)
            evaluations += r.get("evaluations", 0)
            ctx.coverage[name] = r
            for m in r.get("mismatches", []):
                mismatches.append(m)
            for f in r.get("oracle_fails", []):
                oracle_fails.append(f)

    # ---- known findings: replay the recorded witnesses on the implementation --------------------
    for f in findings:
        if f["status"] != "open":
            continue
        w = f.get("witness_history")
        if w:
            _, fails = runner.run(w)
            if any(finding_matches(f, w[i], msg) for i, msg in fails):
                ctx.known_finding(f["key"], f["what"])
            else:
                print(f"note: known finding {f['key']} no longer reproduces on the implementation")
        elif f["key"] in known_hits:
            ctx.known_finding(f["key"], f["what"])

    # ---- conclude -------------------------------------------------------------------------------
    reported = set()
    for hist, i, msg in oracle_fails[:3]:
        tag = msg.split(":")[0]
        if tag in reported:
            continue
        reported.add(tag)
        small = card.shrink(hist, lambda h: any(m.split(":")[0] == tag for _, m in runner.run(h)[1]))
        ctx.violation(f"oracle sentence failed on the implementation: {msg}", dict(kind="card-history", history=small))

    if not oracle_fails and (mismatches or not lean_ok):
        # extended search with the oracle (no model involved) before giving up
        found = None
        for _ in range(n_hist):
            hist, _ = card.gen_history(ctx.rng, n_ops, weights)
            _, fails = runner.run(hist)
            evaluations += len(hist)
            fails = [(i, m) for i, m in fails if not any(finding_matches(f, hist[i], m) for f in findings)]
            if fails:
                found = (hist[: fails[0][0] + 1], fails[0][1])
                break
        if found:
            tag = found[1].split(":")[0]
            small = card.shrink(found[0], lambda h: any(m.split(":")[0] == tag for _, m in runner.run(h)[1]))
            ctx.violation(f"oracle sentence failed on the implementation: {found[1]}", dict(kind="card-history", history=small))
        else:
            broken = []
            if not lean_ok:
                broken += [f"lean: {e}" for e in ctx.broken]
            if mismatches:
                m = mismatches[0]

                def still(h):
                    a = card.run_impl(h)
                    b = ctx.driver.run([card.model_view(o) for o in h])
                    return any(view(o, card.canon(x)) != view(o, y) for o, x, y in zip(h, a, b))

                small = card.shrink(m["history"], still)
                a = card.run_impl(small)
                b = ctx.driver.run([card.model_view(o) for o in small])
                broken.append(f"correspondence stream card-history/{ctx.id}: model and implementation differ")
                ctx.violation(
                    "model/implementation correspondence broken and no failing input found by the oracle search; "
                    + "; ".join(broken),
                    dict(kind="card-history", history=small, impl=a[-1], model=b[-1], no_longer_checks=broken),
                    no_input=True)
            else:
                ctx.violation("Lean obligation no longer checks and no failing input was found; " + "; ".join(broken),
                              dict(kind="lean", no_longer_checks=broken), no_input=True)

    ctx.coverage.update(
        evaluations=evaluations,
        distinct_nontrivial=len(distinct),
        rule="histories of card operations generated from one PRNG (VERIF_SEED) while executing on the real Card; "
             "a case = (operation with arguments, outcome class); all distinct cases are counted",
        samples=samples,
        traces_validated_against_impl=n_hist,
        op_histogram=op_hist,
        error_kinds=err_kinds,
        correspondence_mismatches=len(mismatches),
        oracle_failures=len(oracle_fails),
        fingerprints_changed=fp_changed,
        budget_escalated=escalated,
        wall=round(time.time() - t0, 1),
    )
    ctx.assumptions += [
        "PrettyTable layout replaced by a recording stand-in (third-party layout is opaque to the model)",
        "kwargs names bound by Python itself (self, folded, description, alt_text, section, key) excluded from generated titles",
        "strings with lone surrogates excluded",
    ]
