"""Shared pieces of the persistence checks (C04, C05, C06, C07, C12): dump/load runners and oracles."""
from __future__ import annotations

import copy
import io
import json
import pickle
import zipfile

from .common import repo_on_path
from .compare import same

repo_on_path()


def snapshot(v):
    """a deep copy used to detect that dumping modified the object (pickle round trip keeps numpy/sklearn details)"""
    try:
        snap = copy.deepcopy(v)
    except Exception:
        try:
            snap = pickle.loads(pickle.dumps(v))
        except Exception:
            return None
    # a snapshot that is not itself an exact copy (by the comparator) is useless as a reference
    return snap if same(v, snap) is None else None


def cycle(v, **kw):
    """one dump/load cycle -> ('dump-error', cls) | ('load-error', cls) | ('ok', value, data)"""
    from skops.io import dumps, get_untrusted_types, loads

    try:
        data = dumps(v, **kw)
    except Exception as ex:
        return ("dump-error", type(ex).__name__, str(ex)[:100])
    try:
        w = loads(data, trusted=get_untrusted_types(data=data))
    except Exception as ex:
        return ("load-error", type(ex).__name__, str(ex)[:100], data)
    return ("ok", w, data)


def normalise_schema(schema):
    """ids -> first-occurrence indices, uuid/id member names -> indices"""
    ids, files = {}, {}

    def rec(s):
        if isinstance(s, dict):
            out = {}
            for k, v in s.items():
                if k == "__id__":
                    out[k] = ids.setdefault(v, len(ids))
                elif k == "file" and isinstance(v, str):
                    ext = v.rsplit(".", 1)[-1]
                    out[k] = f"{files.setdefault(v, len(files))}.{ext}"
                else:
                    out[k] = rec(v)
            return out
        if isinstance(s, list):
            return [rec(x) for x in s]
        return s

    return rec(schema), files


def archive_parts(data):
    with zipfile.ZipFile(io.BytesIO(data)) as z:
        infos = z.infolist()
        schema = json.loads(z.read("schema.json"))
        members = {i.filename: z.read(i.filename) for i in infos if i.filename != "schema.json"}
    return schema, members, infos


def rng_draws(v, n=5):
    import numpy as np

    out = []

    def rec(x):
        if isinstance(x, np.random.RandomState):
            out.append(pickle.loads(pickle.dumps(x)).random_sample(n).tobytes())
        elif isinstance(x, np.random.Generator):
            out.append(pickle.loads(pickle.dumps(x)).random(n).tobytes())
        elif isinstance(x, (list, tuple, set, frozenset)):
            for y in x:
                rec(y)
        elif isinstance(x, dict):
            for y in x.values():
                rec(y)

    rec(v)
    return out


def value_correspondence(ctx, values):
    """model (driver op val.encode) vs implementation on values inside the modelled grammar:
    refusal at dump, the typed schema, and the loaded value"""
    from . import pyval

    items = [(v, pyval.to_pyval(v)) for v in values]
    items = [(v, pv) for v, pv in items if pv is not None]
    mo = ctx.driver.run([dict(op="val.encode", value=pv) for _, pv in items])
    mism = []

    def unnt(x):
        if isinstance(x, list):
            return [unnt(y) for y in x]
        if isinstance(x, str) and x.startswith("nt:"):
            return x[3:]
        return x

    for (v, pv), m in zip(items, mo):
        r = cycle(v)
        if m["r"] == "refused":
            if r[0] != "dump-error":
                mism.append(dict(what="model refuses the value at dump, the implementation dumps it", value=repr(v)[:500]))
            continue
        if r[0] == "dump-error":
            mism.append(dict(what=f"implementation refuses at dump ({r[1]}: {r[2]}), the model dumps it", value=repr(v)[:500]))
            continue
        schema, _, _ = archive_parts(r[-1])
        try:
            a = pyval.strip_opaque(pyval.summarise(schema))
        except Exception as ex:
            mism.append(dict(what=f"dumped schema has a layout the model's reader does not know ({type(ex).__name__}: {ex})", value=repr(v)[:500]))
            continue
        b = unnt(pyval.strip_opaque(m["schema"]))
        if a != b:
            mism.append(dict(what="dumped schema differs from the model's", value=repr(v)[:500], impl=json.dumps(a)[:400], model=json.dumps(b)[:400]))
            continue
        if r[0] == "load-error":
            if m["loaded"] is not None:
                mism.append(dict(what=f"implementation fails to load ({r[1]}), the model loads", value=repr(v)[:500]))
            continue
        lw = pyval.to_pyval(r[1])
        if m["loaded"] != lw:
            mism.append(dict(what="loaded value differs from the model's", value=repr(v)[:500], impl=json.dumps(lw)[:400],
                             model=json.dumps(m["loaded"])[:400]))
    return len(items), mism
