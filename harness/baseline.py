"""Runs the pinned suite (guard off) and compares with /root/.vp/BASELINE.json stable_pass."""
import json, os, subprocess, sys, tempfile
import xml.etree.ElementTree as ET

def main():
    base = json.load(open("/root/.vp/BASELINE.json"))
    out = tempfile.mktemp(suffix=".xml", prefix="verif-junit-")
    env = dict(os.environ); env.pop("SKOPS_VERIF", None)
    cmd = base["cmd"].replace("<file>", out)
    untracked = lambda: set(subprocess.run("git -C /repo ls-files --others --exclude-standard", shell=True, capture_output=True, text=True).stdout.split("\n")) - {""}
    before = untracked()
    subprocess.run(cmd, shell=True, env=env, stdout=subprocess.DEVNULL, stderr=subprocess.DEVNULL)
    for f in untracked() - before:          # files the suite's doc tests drop into the working directory
        try:
            os.unlink(os.path.join("/repo", f))
        except OSError:
            pass
    passed = set()
    for tc in ET.parse(out).getroot().iter("testcase"):
        if not any(ch.tag in ("failure", "error", "skipped") for ch in tc):
            passed.add(f"{tc.get('classname')}::{tc.get('name')}")
    os.unlink(out)
    missing = [t for t in base["stable_pass"] if t not in passed]
    print(f"passed={len(passed)} stable={len(base['stable_pass'])} missing={len(missing)}")
    for m in missing: print("  MISSING", m)
    return 1 if missing else 0

if __name__ == "__main__":
    sys.exit(main())
