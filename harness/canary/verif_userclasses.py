"""User classes for the object grammar: every `__getstate__` / `__slots__` / `__reduce__` variant.
Importable (this directory is on sys.path during checks) so that archives naming them can be loaded."""
import collections
import enum

import numpy as np

Point = collections.namedtuple("Point", ["x", "y"])


class MyTuple(tuple):
    pass


class MyList(list):
    pass


class MyDict(dict):
    pass


class MyDefaultDict(collections.defaultdict):
    pass


class Color(enum.Enum):
    RED = 1


class Plain:
    def __init__(self, a, b):
        self.a = a
        self.b = b

    def method(self, x=0):
        return (self.a, x)


class WithGetstate:
    def __init__(self, n):
        self.n = n
        self.cache = object()

    def __getstate__(self):
        return {"n": self.n}

    def __setstate__(self, st):
        self.n = st["n"]
        self.cache = None


class WithSlots:
    __slots__ = ("a", "b", "__dict__")

    def __init__(self, a, b):
        self.a = a
        self.b = b


class SlotsNoDict:
    __slots__ = ("a",)

    def __init__(self, a):
        self.a = a


class ReduceSameType:
    """__reduce__ of the form (type(self), args)"""

    def __init__(self, n):
        self.n = n

    def __reduce__(self):
        return (ReduceSameType, (self.n,))


def _rebuild(n):
    return ReduceOther(n)


class ReduceOther:
    """__reduce__ through a helper function"""

    def __init__(self, n):
        self.n = n

    def __reduce__(self):
        return (_rebuild, (self.n,))


class RaisesGetstate:
    def __getstate__(self):
        raise RuntimeError("no state for you")


class GetstateNone:
    def __init__(self):
        self.a = 1

    def __getstate__(self):
        return None


class HiddenState(list):
    """content that is not reachable through __getstate__/__dict__"""

    def __init__(self, items):
        super().__init__(items)
        self.tag = "t"


def module_function(x):
    return x


class MyBytes(bytes):
    pass


class MyByteArray(bytearray):
    pass


class RaisesReduce:
    def __reduce__(self):
        raise RuntimeError("cannot be reduced")

    def __reduce_ex__(self, protocol):
        raise RuntimeError("cannot be reduced")


class NestedDump:
    """an object whose __getstate__ itself dumps something (a user class that snapshots part of its state)"""

    def __init__(self, v=1):
        self.v = v

    def __getstate__(self):
        from skops.io import dumps

        dumps([b"inner-1", b"inner-2", bytearray(b"inner-3")])
        return {"v": self.v}

    def __setstate__(self, state):
        self.v = state["v"]


class ScalarState:
    """state is a bare scalar that is computed on the fly (a fresh float object on every call)"""

    def __init__(self, v):
        self.v = v

    def __getstate__(self):
        return float(self.v) * 1.0 + 0.0

    def __setstate__(self, state):
        self.v = state


class SometimesRaises:
    """refuses to be reduced while it is 'open'"""

    def __init__(self, ok):
        self.ok = ok

    def __reduce__(self):
        if not self.ok:
            raise RuntimeError("cannot persist an open handle")
        return object.__reduce__(self)

    def __reduce_ex__(self, protocol):
        if not self.ok:
            raise RuntimeError("cannot persist an open handle")
        return object.__reduce_ex__(self, protocol)


class RaisesStopIteration:
    def __getstate__(self):
        return next(iter(()))          # StopIteration


class MyArray(np.ndarray):
    """an ndarray subclass of the usual kind (constructed from array data)"""

    def __new__(cls, data):
        return np.asarray(data).view(cls)


class GetstateAttributeError:
    """__getstate__ reads an attribute that is gone -> AttributeError (the exception hasattr/getattr fallbacks swallow)"""

    def __init__(self):
        self.kept = 1

    def __getstate__(self):
        return {"kept": self.kept, "handle": self.handle}


class GetstateKeyError:
    def __init__(self):
        self.kept = 1

    def __getstate__(self):
        return {"kept": self.__dict__["missing"]}


class Outer:
    """a class nested in another class; also reachable as a module attribute (the name dumps record is `Inner`)"""

    class Inner:
        def __init__(self, v=1):
            self.v = v


Inner = Outer.Inner


class Modèle:
    """an untrusted class whose name is not ASCII"""

    def __init__(self, v=1):
        self.v = v


class 模型:
    def __init__(self, v=2):
        self.v = v
