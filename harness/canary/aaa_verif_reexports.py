"""A user helper module that re-exports a few ufuncs under its own namespace (its name sorts before numpy/scipy)."""
from numpy import sqrt, add  # noqa: F401
from scipy.special import binom, expit, logit  # noqa: F401
