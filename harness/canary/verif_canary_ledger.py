"""Ledger written by harness-owned canary code when it is imported / instantiated / called."""
import importlib.abc
import importlib.machinery
import sys

LEDGER = []
PREFIX = "verif_canary_dyn_"


def reset():
    del LEDGER[:]
    # forget dynamic canaries so that a later import is observable again
    for k in [k for k in sys.modules if k.startswith(PREFIX)]:
        del sys.modules[k]


def record(what):
    LEDGER.append(what)


SOURCE = '''
import verif_canary_ledger as _L
_L.record(("import", __name__))

class Boom:
    def __init__(self, *a, **k):
        _L.record(("instantiate", __name__ + ".Boom"))
    def __call__(self, *a, **k):
        _L.record(("call", __name__ + ".Boom.__call__"))
    def __setstate__(self, s):
        _L.record(("setstate", __name__ + ".Boom"))
    def method(self, *a, **k):
        _L.record(("call", __name__ + ".Boom.method"))

def boom(*a, **k):
    _L.record(("call", __name__ + ".boom"))

# attributes with names that look like default-trusted ones
def intx(*a, **k):
    _L.record(("call", __name__ + ".intx"))
list = boom
absolute = boom
'''


class _Finder(importlib.abc.MetaPathFinder, importlib.abc.Loader):
    def find_spec(self, fullname, path, target=None):
        if fullname.startswith(PREFIX):
            return importlib.machinery.ModuleSpec(fullname, self)
        return None

    def create_module(self, spec):
        return None

    def exec_module(self, module):
        exec(compile(SOURCE, module.__name__, "exec"), module.__dict__)


if not any(isinstance(f, _Finder) for f in sys.meta_path):
    sys.meta_path.insert(0, _Finder())


# ---- a package that is already imported and resolves unknown attributes lazily (scipy / numpy style) ----------------
import types as _types

if "verif_canary_lazy" not in sys.modules:
    _lazy = _types.ModuleType("verif_canary_lazy")
    _lazy.__path__ = []          # a package

    def _lazy_getattr(name):
        if name.startswith("__"):
            raise AttributeError(name)
        LEDGER.append(("lazy-import", "verif_canary_lazy." + name))
        raise AttributeError(name)

    _lazy.__getattr__ = _lazy_getattr
    sys.modules["verif_canary_lazy"] = _lazy
