"""Adversarial archive generator, driven by the per-kind facts the translator extracted (generated/facts.json):
every registered (kind, protocol) x every slot x {trusted leaf, untrusted leaf, misleading name, wrong JSON type,
missing key} x nesting x id wiring (fresh, shared with a finished node, shared with an ancestor, falsy, string,
1 / 1.0 / true) x protocol value.  Plus real dumps of generated objects and mutations of those."""
from __future__ import annotations

import io
import json

import numpy as np

from .translate.registry import FACTS

CANARY = "verif_canary_dyn_%d"
PROTOCOLS = [2, 2, 2, 2, 1, 0, 3, -1, "2", 2.0, True, None, 1.0]
# real, importable names that are not default-trusted.  The instrumented runner refuses to hand out the objects
# behind the general-purpose ones (see ioarch.Recorder.block), so nothing of this list is ever called.
UNTRUSTED_REAL = [("os", "system"), ("builtins", "eval"), ("builtins", "exec"), ("subprocess", "Popen"),
                  ("collections", "OrderedDict"), ("operator", "methodcaller"), ("operator", "attrgetter"),
                  ("functools", "partial"), ("numpy", "save"), ("numpy.random", "seed"), ("pathlib", "Path"),
                  ("builtins", "getattr"), ("importlib", "import_module"), ("colorsys", "rgb_to_hsv"), ("fractions", "Fraction"),
                  # spellings of other library versions, and module paths that do not resolve although a parent has the attribute
                  ("numpy.core._multiarray_umath", "sqrt"), ("numpy.core.multiarray", "array"), ("numpy.core.numeric", "ones"),
                  ("collections.nosuchmod", "OrderedDict"), ("numpy.nosuch", "ndarray"), ("sklearn.preprocessing.nosuch", "StandardScaler"),
                  ("functools.nosuch.deeper", "partial")]


BASELINE = FACTS.parent.parent / "harness" / "facts_baseline.json"


def facts():
    """facts of the current tree; where the translator could not understand a slot (shape `unknown`) the layout
    recorded when the model was written (facts_baseline.json, committed) is used for *generation*, so that a
    change that confuses the translator does not also blind the generator"""
    cur = json.loads(FACTS.read_text())
    if BASELINE.exists():
        base = {(k["loader"], k["protocol"]): k for k in json.loads(BASELINE.read_text())["kinds"]}
        for k in cur["kinds"]:
            bad = any(s.get("shape") == "unknown" for v in (k.get("variants") or []) for s in (v.get("slots") or [])) \
                or any(v.get("slots") is None for v in (k.get("variants") or []))
            b = base.get((k["loader"], k["protocol"]))
            if bad and b:
                k["variants"] = b["variants"]
    return cur


class Gen:
    def __init__(self, rng, fx=None):
        self.rng = rng
        self.fx = fx or facts()
        self.kinds = [k for k in self.fx["kinds"]]
        self.cur = [k for k in self.kinds if k["protocol"] == self.fx["protocol"]]
        self.next_id = 100
        self.used_ids = []
        self.members = {}
        self.ncanary = 0

    # -- names --------------------------------------------------------------------------------
    def split(self, name):
        m, _, c = name.rpartition(".")
        return m, c

    def name_for(self, k, prefer_trusted):
        rng = self.rng
        d = k["trust"].get("defaults") or []
        r = rng.random()
        if d and r < prefer_trusted:
            return self.split(rng.choice(d))
        if r < prefer_trusted + 0.12 and d:
            # misleading variant of a default-trusted name
            n = rng.choice(d)
            m, c = self.split(n)
            v = rng.choice(["x", "prefix", "dot", "case", "othermod", "resplit"])
            if v == "x":
                return m, c + "x"
            if v == "prefix":
                return m, c[:-1] or "x"
            if v == "dot":
                return m, c + ".x"
            if v == "case":
                return m, c.swapcase()
            if v == "othermod":
                self.ncanary += 1
                return CANARY % self.ncanary, c
            parts = n.split(".")
            if len(parts) > 2:
                return parts[0], ".".join(parts[1:])
            return m, c
        if r < prefer_trusted + 0.03:
            # a package that is already imported and loads its sub-modules lazily (module-level __getattr__, like scipy/numpy):
            # even a getattr on it runs code
            self.ncanary += 1
            return "verif_canary_lazy", "sub%d" % self.ncanary
        if r < prefer_trusted + 0.25:
            self.ncanary += 1
            mod = CANARY % self.ncanary
            if rng.random() < 0.3:
                mod += rng.choice([".sub", ".a.b"])       # dotted: looking the name up imports the parent package
            return mod, rng.choice(["Boom", "boom", "intx", "list", "absolute"])
        if r < prefer_trusted + 0.36:
            return rng.choice(UNTRUSTED_REAL)
        if r < prefer_trusted + 0.39:
            return rng.choice([(None, None), ("builtins", None), (None, "list"), (5, "x"), ("", ""), ("builtins", "")])
        return rng.choice([("builtins", "list"), ("builtins", "dict"), ("builtins", "tuple"), ("builtins", "int"),
                           ("numpy", "ndarray"), ("collections", "defaultdict"), ("builtins", "str")])

    # -- ids ----------------------------------------------------------------------------------
    def gen_id(self, ancestors):
        rng = self.rng
        r = rng.random()
        if r < 0.55:
            self.next_id += 1
            i = self.next_id
        elif r < 0.7 and self.used_ids:
            i = rng.choice(self.used_ids)                  # shared with an earlier node
        elif r < 0.78 and ancestors:
            i = rng.choice(ancestors)                      # cycle
        elif r < 0.86:
            return rng.choice([None, 0, False, "", "MISSING"])
        elif r < 0.92:
            i = rng.choice(["a", "b", 1, 1.0, True, 2.5])
        else:
            return rng.choice([[1], {"a": 1}])            # unhashable
        if isinstance(i, (int, float, str)) and not isinstance(i, bool):
            self.used_ids.append(i)
        return i

    # -- leaves -------------------------------------------------------------------------------
    def json_leaf(self):
        v = self.rng.choice([1, "x", None, True, 2.5, [1, 2], {"a": 1}, "PCG64"])
        return {"__class__": "str", "__module__": "builtins", "__loader__": "JsonNode", "content": json.dumps(v),
                "is_json": True}

    def blob_member(self, ext):
        rng = self.rng
        r = rng.random()
        name = f"{rng.randint(1000, 9999)}.{ext}"
        if r < 0.1:
            return name                                      # referenced but missing
        buf = io.BytesIO()
        if ext == "npy" and r < 0.8:
            np.save(buf, np.arange(rng.randint(0, 4)), allow_pickle=False)
        elif ext == "npz" and r < 0.8:
            import scipy.sparse as sp

            sp.save_npz(buf, sp.csr_matrix(np.eye(2)))
        else:
            buf.write(b"garbage")
        self.members[name] = buf.getvalue()
        return name

    def set_path(self, state, path, value):
        cur = state
        for p in path[:-1]:
            cur = cur.setdefault(p, {})
            if not isinstance(cur, dict):
                return
        cur[path[-1]] = value

    # -- states -------------------------------------------------------------------------------
    def state(self, depth=0, ancestors=(), force_kind=None, trusted_bias=0.6):
        rng = self.rng
        if depth > 4 or (depth > 1 and rng.random() < 0.35):
            return self.json_leaf() if rng.random() < 0.6 else self.simple_leaf(trusted_bias)
        k = force_kind or rng.choice(self.cur if rng.random() < 0.85 else self.kinds)
        m, c = self.name_for(k, trusted_bias)
        st = {"__class__": c, "__module__": m, "__loader__": k["loader"]}
        if rng.random() < 0.06:
            st["__loader__"] = rng.choice(["NoSuchNode", "", 5, None, "ListNode ", "NoSuchNode"])
        i = self.gen_id(list(ancestors))
        if not (isinstance(i, str) and i == "MISSING"):
            st["__id__"] = i
        anc = list(ancestors) + ([i] if isinstance(i, (int, str, float)) and i else [])
        variants = k.get("variants") or []
        if variants:
            v = rng.choice(variants)
            if v.get("when"):
                self.set_path(st, v["when"]["path"], v["when"]["equals"] if rng.random() < 0.92 else rng.choice(["other", None, 3]))
            for s in v.get("slots") or []:
                self.fill_slot(st, k, s, depth, anc, trusted_bias)
        if k["loader"] in ("TreeNode", "LossNode", "QuantileForestNode") and "__reduce__" not in st and rng.random() < 0.9:
            st.setdefault("__reduce__", {})
        if k["loader"] == "JsonNode":
            st["content"] = rng.choice(['1', '"x"', 'null', '[1, 2]', 'oops', 5])
        # structural damage
        r = rng.random()
        if r < 0.03 and len(st) > 3:
            del st[rng.choice([x for x in st if x not in ("__loader__",)])]
        elif r < 0.05:
            st[rng.choice(list(st))] = rng.choice([None, 5, [], {}, "x"])
        return st

    def simple_leaf(self, trusted_bias):
        rng = self.rng
        loader = rng.choice(["TypeNode", "FunctionNode", "TypeNode", "ListNode"])
        k = next(x for x in self.cur if x["loader"] == loader)
        m, c = self.name_for(k, trusted_bias)
        st = {"__class__": c, "__module__": m, "__loader__": loader, "__id__": self.gen_id([])}
        if loader == "ListNode":
            st["content"] = []
        return st

    def fill_slot(self, st, k, s, depth, anc, tb):
        rng = self.rng
        shape, path = s["shape"], s.get("path") or []
        if shape == "synth":
            return
        if rng.random() < 0.03:
            return                                            # missing key
        if shape == "node":
            if s.get("optional") and rng.random() < 0.25:
                if rng.random() < 0.5:
                    self.set_path(st, path, None)
                return
            self.set_path(st, path, self.child_for(k, s, depth, anc, tb))
        elif shape == "nodes":
            n = rng.choice([0, 1, 2, 3])
            val = [self.child_for(k, s, depth, anc, tb) for _ in range(n)]
            if rng.random() < 0.04:
                val = rng.choice(["", "ab", {}, {"a": 1}, None, 5])
            self.set_path(st, path, val)
        elif shape == "dict":
            n = rng.choice([0, 1, 2])
            val = {rng.choice(["a", "b", "1", "key_types", "x y"]): self.child_for(k, s, depth, anc, tb) for _ in range(n)}
            if rng.random() < 0.04:
                val = rng.choice([[], "x", None])
            self.set_path(st, path, val)
        elif shape == "raw":
            self.set_path(st, path, self.raw_for(k, s))
        elif shape == "blob":
            ext = "npz" if k["loader"] == "SparseMatrixNode" else ("npy" if k["loader"] == "NdArrayNode" else "bin")
            v = self.blob_member(ext)
            if rng.random() < 0.03:
                v = rng.choice([None, 5, "../x", "/etc/passwd"])
            self.set_path(st, path, v)

    def child_for(self, k, s, depth, anc, tb):
        rng = self.rng
        loader, key = k["loader"], s["key"]
        r = rng.random()
        # coherent children so that construct gets somewhere
        if loader == "DictNode" and key == "key_types" and r < 0.8:
            return self.list_of_types(["builtins.str", "builtins.int"], anc)
        if key in ("args",) and r < 0.7:
            return self.tuple_of([self.json_leaf() for _ in range(rng.randint(0, 2))], anc)
        if key in ("kwds", "namespace", "attrs", "main", "seed_seq_state", "bit_generator_state") and r < 0.6:
            return self.dict_of({"a": self.json_leaf()} if rng.random() < 0.5 else {"bit_generator": self.json_str(
                rng.choice(["PCG64", "MT19937", "seed", "Generator", "default_rng", "SeedSequence", "x.y"]))}, anc)
        return self.state(depth + 1, anc, trusted_bias=tb)

    def json_str(self, s):
        return {"__class__": "str", "__module__": "builtins", "__loader__": "JsonNode", "content": json.dumps(s), "is_json": True}

    def list_of_types(self, names, anc):
        items = []
        for n in names:
            m, _, c = n.rpartition(".")
            items.append({"__class__": c, "__module__": m, "__loader__": "TypeNode", "__id__": self.gen_id(anc)})
        return {"__class__": "list", "__module__": "builtins", "__loader__": "ListNode", "content": items, "__id__": self.gen_id(anc)}

    def tuple_of(self, items, anc):
        return {"__class__": "tuple", "__module__": "builtins", "__loader__": "TupleNode", "content": items, "__id__": self.gen_id(anc)}

    def dict_of(self, d, anc):
        return {"__class__": "dict", "__module__": "builtins", "__loader__": "DictNode", "__id__": self.gen_id(anc),
                "key_types": self.list_of_types(["builtins.str"] * len(d), anc), "content": d}

    def raw_for(self, k, s):
        rng = self.rng
        loader = k["loader"]
        if loader != "MethodNode" and rng.random() < 0.15:
            # a full node state where the loader expects plain data: inert today (kept as a dict), but a loader
            # that starts to build such values must also audit them
            return self.state(3, (), trusted_bias=0.0)
        if loader == "SliceNode":
            return rng.choice([None, 0, 1, 5, -1, "x"])
        if loader == "MethodNode":
            return rng.choice(["method", "fit", "__class__", "boom", "append", "__reduce__", 5, None, True])
        if loader == "FunctionNode":        # v0 content
            self.ncanary += 1
            return rng.choice([{"module_path": "numpy", "function": "sqrt"},
                               {"module_path": "scipy.special", "function": "exp10"},
                               {"module_path": "os", "function": "system"},
                               {"module_path": CANARY % self.ncanary, "function": "boom"},
                               {"module_path": None, "function": "x"}, {"function": "x"}, "numpy.sqrt", None])
        if loader == "RandomGeneratorNode":  # v0 raw state
            return rng.choice([{"bit_generator": "PCG64", "state": {"state": 1, "inc": 1}, "has_uint32": 0, "uinteger": 0},
                               {"bit_generator": "seed"}, {"bit_generator": "Generator"}, {}, None, "PCG64"])
        return rng.choice([None, "x", 1, [], {}])

    # -- whole archives -----------------------------------------------------------------------
    def archive(self, trusted_bias=0.6):
        self.members = {}
        self.used_ids = []
        root = self.state(0, (), trusted_bias=trusted_bias)
        root["protocol"] = self.rng.choice(PROTOCOLS)
        if self.rng.random() < 0.03:
            del root["protocol"]
        root["_skops_version"] = "0.12.dev0"
        return root, dict(self.members)


def slot_matrix(fx):
    """deterministic coverage: every kind x every node-bearing slot x {trusted leaf, untrusted leaf}"""
    out = []
    for k in fx["kinds"]:
        for vi, v in enumerate(k.get("variants") or [{}]):
            for s in (v.get("slots") or [None]):
                for leaf in ("trusted", "untrusted", "canary"):
                    out.append((k["loader"], k["protocol"], vi, s["key"] if s else None, leaf))
    return out
