"""T1 control-flow facts: small explicit pattern checks over the source, emitted as Generated/Facts.lean."""
from __future__ import annotations

import ast

from ..common import LEAN, REPO, write_if_changed


# the statements of the base `Node` methods that Io/Audit.lean, Io/Trace.lean and Io/GetTree.lean were written against
# (normalised source, docstrings dropped).  `baseNodeMethodsAsModelled` says the current source still has exactly these.
BASE_NODE_BODIES = {
    "__init__": [
        "self.class_name, self.module_name = (state['__class__'], state['__module__'])",
        "self._is_safe = None",
        "self._constructed = UNINITIALIZED",
        "saved_id = state.get('__id__')",
        "if saved_id and memoize:\n    load_context.memoize(self, saved_id)",
        "self.trusted = self._get_trusted(trusted, [])",
        "self.children: dict[str, VALID_NODE_CHILD_TYPES] = {}"
    ],
    "construct": [
        "if self._constructed is not UNINITIALIZED:\n    return self._constructed",
        "self._constructed = self._construct()",
        "return self._constructed"
    ],
    "is_self_safe": [
        "return check_type(self.module_name, self.class_name, self.trusted)"
    ],
    "is_safe": [
        "if self.trusted is True:\n    return True",
        "return len(self.get_unsafe_set()) == 0"
    ],
    "get_unsafe_set": [
        "if hasattr(self, '_computing_unsafe_set'):\n    return set()",
        "with temp_setattr(self, _computing_unsafe_set=True):\n    res = set()\n    if not self.is_self_safe():\n        res.add(self.module_name + '.' + self.class_name)\n    for child in self.children.values():\n        if child is None:\n            continue\n        if isinstance(child, list):\n            for value in child:\n                res.update(value.get_unsafe_set())\n        elif isinstance(child, dict):\n            for value in child.values():\n                res.update(value.get_unsafe_set())\n        elif isinstance(child, Node):\n            res.update(child.get_unsafe_set())\n        elif type(child) is type:\n            if not check_type(get_module(child), child.__name__, self.trusted):\n                res.add(get_module(child) + '.' + child.__name__)\n        elif isinstance(child, (io.BytesIO, str)):\n            continue\n        else:\n            raise ValueError(f'Cannot determine the safety of type {type(child)}. Please open an issue at https://github.com/skops-dev/skops/issues for us to fix the issue.')",
        "return res"
    ]
}


def fn(tree, name):
    for n in ast.walk(tree):
        if isinstance(n, (ast.FunctionDef,)) and n.name == name:
            return n
    return None


def calls_in_order(f):
    """names of called functions in source order (ast.walk is BFS, so sort by position)"""
    out = []
    for n in ast.walk(f):
        if isinstance(n, ast.Call):
            out.append((n.lineno, n.col_offset, ast.unparse(n.func)))
    return [c for _, _, c in sorted(out)]


def before(seq, a, b):
    return a in seq and b in seq and seq.index(a) < seq.index(b) and all(
        i > seq.index(a) for i, x in enumerate(seq) if x == b)


def rejects_true(f):
    first = [s for s in f.body if not (isinstance(s, ast.Expr) and isinstance(s.value, ast.Constant))]
    for s in first[:2]:
        if isinstance(s, ast.If) and ast.unparse(s.test) == "trusted is True" and s.body and isinstance(s.body[0], ast.Raise) \
                and ast.unparse(s.body[0].exc).startswith("TypeError("):
            return True
    return False


def collect():
    persist = ast.parse((REPO / "skops/io/_persist.py").read_text())
    audit = ast.parse((REPO / "skops/io/_audit.py").read_text())
    vis = ast.parse((REPO / "skops/io/_visualize.py").read_text())
    exc = (REPO / "skops/io/exceptions.py").read_text()
    numpy_src = (REPO / "skops/io/_numpy.py").read_text()
    utils = ast.parse((REPO / "skops/io/_utils.py").read_text())
    f = {}
    for name in ("load", "loads"):
        fd = fn(persist, name)
        seq = calls_in_order(fd)
        f[f"{name}RejectsTrue"] = rejects_true(fd)
        f[f"{name}Order"] = before(seq, "get_tree", "audit_tree") and before(seq, "audit_tree", "tree.construct") \
            and seq.count("tree.construct") == 1 and seq.count("audit_tree") == 1
        # the loads `isinstance(data, str)` guard may precede the trusted check
    gut = fn(persist, "get_untrusted_types")
    seq = calls_in_order(gut)
    f["untrustedNoConstruct"] = not any(c.endswith("construct") for c in seq) and "tree.get_unsafe_set" in seq
    f["untrustedTreeWithNone"] = any(
        isinstance(n, ast.Call) and ast.unparse(n.func) == "get_tree" and any(
            k.arg == "trusted" and isinstance(k.value, ast.Constant) and k.value.value is None for k in n.keywords)
        for n in ast.walk(gut))
    f["untrustedSorted"] = isinstance(gut.body[-1], ast.Return) and ast.unparse(gut.body[-1].value) == "sorted(untrusted_types)"
    f["visualizeNoConstruct"] = not any(
        isinstance(n, ast.Call) and ast.unparse(n.func).endswith("construct") for n in ast.walk(vis))
    def stmts(fd):
        """the statements of a function, docstring dropped, as normalised source: facts about security-relevant functions
        are exact statement lists, not substring tests (a seeded change once slipped an extra early return past one)"""
        return [ast.unparse(b) for b in fd.body if not (isinstance(b, ast.Expr) and isinstance(b.value, ast.Constant))]

    at = fn(audit, "audit_tree")
    f["auditRaisesOnUnsafe"] = stmts(at) == ["unsafe = tree.get_unsafe_set()", "if unsafe:\n    raise UntrustedTypesFoundException(unsafe)"]
    f["exceptionNamesSorted"] = "sorted(unsafe)" in exc
    f["npLoadNoPickle"] = "np.load(" in numpy_src and all(
        "allow_pickle=False" in numpy_src[i:i + 120] for i in range(len(numpy_src)) if numpy_src.startswith("np.load(", i))
    ct = fn(audit, "check_type")
    f["checkTypeIsMembership"] = stmts(ct) == ["return module_name + '.' + type_name in trusted"]
    gt = fn(audit, "_get_trusted")
    f["getTrustedIsCallerPlusDefault"] = stmts(gt) == ["if trusted is None:\n    return get_type_paths(default)",
                                                       "return get_type_paths(trusted) + get_type_paths(default)"]
    node_cls = next(n for n in audit.body if isinstance(n, ast.ClassDef) and n.name == "Node")
    f["baseNodeMethodsAsModelled"] = all(
        stmts(next(m for m in node_cls.body if isinstance(m, ast.FunctionDef) and m.name == name)) == body
        for name, body in BASE_NODE_BODIES.items())
    # the conversion of the caller's list: strings as they are, types as "<module>.<__name__>"
    f["typePathsKeepStrings"] = stmts(fn(utils, "get_type_paths")) == [
        "if not types:\n    return []", "if not isinstance(types, (list, tuple)):\n    types = [types]",
        "return [get_type_name(t) if not isinstance(t, str) else t for t in types]"]
    f["typeNameIsModuleDotName"] = stmts(fn(utils, "get_type_name")) == ["return f'{get_module(t)}.{t.__name__}'"]
    f["gettypeIsImportObj"] = stmts(fn(utils, "gettype")) == [
        "if module_name and cls_or_func:\n    return _import_obj(module_name, cls_or_func)",
        "raise ValueError(f'Object {cls_or_func} of module {module_name} is unknown')"]
    # ---- the default lists (C11): what is taken from registries other packages can write to (the scikit-learn modules that
    # all_estimators() walks, numpy.sctypeDict) is filtered by the library's own module prefix
    tt = ast.parse((REPO / "skops/io/_trusted_types.py").read_text())

    def assigned(name):
        for n in tt.body:
            if isinstance(n, ast.Assign) and len(n.targets) == 1 and ast.unparse(n.targets[0]) == name:
                return ast.unparse(n.value)
        return None

    f["estimatorNamesFilteredByPrefix"] = assigned("SKLEARN_ESTIMATOR_TYPE_NAMES") == \
        "[get_type_name(estimator_class) for _, estimator_class in all_estimators() if get_type_name(estimator_class).startswith('sklearn.')]"
    f["scalarNamesFilteredByPrefix"] = assigned("NUMPY_DTYPE_TYPE_NAMES") == \
        "sorted({type_name for dtype in np.sctypeDict.values() if (type_name := get_type_name(dtype)).startswith('numpy')})"
    # ---- dump side (C06, C12, C18) --------------------------------------------------------------------
    gs = fn(utils, "get_state")
    body = [ast.unparse(b) for b in gs.body if not (isinstance(b, ast.Expr) and isinstance(b.value, ast.Constant))]
    f["getStateMemoizesFirst"] = body[:1] == ["__id__ = save_context.memoize(obj=value)"] and \
        "res = _get_state(value, save_context)" in body and body.index("res = _get_state(value, save_context)") > 0
    f["idFromMemoize"] = "res['__id__'] = __id__" in body and body[-1] == "return res"
    # exact bodies (the seeds C05_e / C12_e added an early `return obj_id` for "immutable" values, which a substring test accepts)
    sc_mem = lc_mem = lc_get = None
    for n in ast.walk(utils):
        if isinstance(n, ast.ClassDef) and n.name == "SaveContext":
            sc_mem = stmts(fn(n, "memoize"))
        if isinstance(n, ast.ClassDef) and n.name == "LoadContext":
            lc_mem, lc_get = stmts(fn(n, "memoize")), stmts(fn(n, "get_object"))
    f["memoizeKeepsReference"] = sc_mem == ["obj_id = id(obj)", "if obj_id not in self.memo:\n    self.memo[obj_id] = obj", "return obj_id"]
    f["loadMemoIsPlainDict"] = lc_mem == ["self.memo[id] = obj"] and lc_get == ["return self.memo.get(id)"]
    scipy_src = ast.unparse(ast.parse((REPO / "skops/io/_scipy.py").read_text()))
    numpy_u = ast.unparse(ast.parse(numpy_src))
    f["memberNameFromMemoize"] = "obj_id = save_context.memoize(obj)\n            f_name = f'{obj_id}.npy'" in numpy_u \
        and "obj_id = save_context.memoize(obj)\n    f_name = f'{obj_id}.npz'" in scipy_src
    f["memberWrittenOnce"] = numpy_u.count("if f_name not in save_context.zip_file.namelist():") == 1 \
        and scipy_src.count("if f_name not in save_context.zip_file.namelist():") == 1 \
        and numpy_u.count("writestr(") == 1 and scipy_src.count("writestr(") == 1
    sv = fn(persist, "_save")
    seq = calls_in_order(sv)
    all_io = "".join((REPO / "skops/io" / n).read_text() for n in ("_persist.py", "_general.py", "_numpy.py", "_scipy.py", "_sklearn.py", "_utils.py", "_quantile_forest.py"))
    f["clearMemoAfterGetState"] = before(seq, "get_state", "save_context.clear_memo") and all_io.count("clear_memo()") == 1
    f["saveWritesOnlyBuffer"] = before(seq, "io.BytesIO", "ZipFile") and "open" not in seq and \
        ast.unparse(sv.body[-1]) == "return buffer"
    for name in ("dump", "dumps"):
        fd = fn(persist, name)
        seq = calls_in_order(fd)
        f[f"{name}SavesFirst"] = seq[0] == "_save" and seq.count("_save") == 1
    dseq = calls_in_order(fn(persist, "dump"))
    f["dumpOpensAfterSave"] = before(dseq, "_save", "open") and before(dseq, "_save", "file.write")
    f["schemaCarriesProtocolAndVersion"] = "state['protocol'] = save_context.protocol" in ast.unparse(sv) \
        and "state['_skops_version'] = skops.__version__" in ast.unparse(sv) \
        and "zip_file.writestr('schema.json', json.dumps(state, indent=2))" in ast.unparse(sv)
    # every registered *_get_state returns a dict carrying __class__, __module__, __loader__ (get_state adds __id__)
    import re as _re
    header_ok, member_names = True, []
    funcs = {}
    for fname in ("_general.py", "_numpy.py", "_scipy.py", "_sklearn.py", "_quantile_forest.py"):
        tree = ast.parse((REPO / "skops/io" / fname).read_text())
        for n in ast.walk(tree):
            if isinstance(n, ast.FunctionDef) and n.name.endswith("_get_state") and n.name != "unsupported_get_state":
                funcs[n.name] = n
    partial_fns = set()
    for name, n in funcs.items():
        src = ast.unparse(n)
        if all(f"'{k}'" in src for k in ("__class__", "__module__")) and "'__loader__'" not in src:
            partial_fns.add(name)          # builds the header without the loader: its callers must add it
    for name, n in funcs.items():
        src = ast.unparse(n)
        callees = {c.func.id for c in ast.walk(n) if isinstance(c, ast.Call) and isinstance(c.func, ast.Name)
                   and c.func.id.endswith("_get_state") and c.func.id != name and c.func.id != "get_state"}
        has = all(f"'{k}'" in src for k in ("__class__", "__module__", "__loader__"))
        if name in partial_fns:
            continue
        if callees & partial_fns and "['__loader__'] =" not in src:
            header_ok = False
        if not (has or callees):
            header_ok = False
        for c in ast.walk(n):
            if isinstance(c, ast.Assign) and len(c.targets) == 1 and ast.unparse(c.targets[0]) == "f_name":
                member_names.append(ast.unparse(c.value))
    f["allGetStateHaveHeader"] = header_ok
    f["memberNamesFlat"] = sorted(member_names) == sorted(["f'{obj_id}.npy'", "f'{obj_id}.npz'", "f'{uuid.uuid4()}.bin'"])
    imp = fn(utils, "_import_obj")
    f["importObjIsGetattrOfImport"] = ast.unparse(imp.body[-1]) == \
        "return getattr(importlib.import_module(module, package=package), cls_or_func)"
    return f


def generate():
    f = collect()
    lines = ["/-! GENERATED by harness/translate/flow.py from the working tree of /repo — do not edit. -/",
             "namespace Skops.Generated", "", "structure Facts where"]
    for k in f:
        lines.append(f"  {k} : Bool")
    lines.append("")
    lines.append("def facts : Facts :=")
    lines.append("  { " + ",\n    ".join(f"{k} := {str(bool(v)).lower()}" for k, v in f.items()) + " }")
    lines.append("")
    lines.append("end Skops.Generated\n")
    write_if_changed(LEAN / "SkopsModel" / "Generated" / "Facts.lean", "\n".join(lines))
    return f
