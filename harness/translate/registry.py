def generate():
    pass
