"""Emit lean/SkopsModel/Generated/Specs.lean (+ generated/facts.json) from the live node classes."""
from __future__ import annotations

import json
import subprocess
import sys

from ..common import LEAN, REPO, VERIF, write_if_changed

FACTS = VERIF / "generated" / "facts.json"


def lstr(s):
    if s is None:
        return '""'
    out = ['"']
    for ch in str(s):
        o = ord(ch)
        if ch == '"':
            out.append('\\"')
        elif ch == "\\":
            out.append("\\\\")
        elif ch == "\n":
            out.append("\\n")
        elif ch == "\t":
            out.append("\\t")
        elif o < 32 or o > 126:
            out.append("\\u{%x}" % o)
        else:
            out.append(ch)
    out.append('"')
    return "".join(out)


def llist(items):
    return "[" + ", ".join(items) + "]"


def lname_expr(e):
    src = e.get("src")
    if src == "state":
        return f".state {llist(map(lstr, e['path']))}"
    if src == "child":
        ctor = ".childMod" if e["which"] == "module_name" else ".childCls"
        return f"{ctor} {llist(map(lstr, e['path']))}"
    if src == "concat":
        parts = []
        for p in e["parts"]:
            parts.append(f".lit {lstr(p['lit'])}" if "lit" in p else lname_expr(p))
        return f".concat {llist(parts)}"
    return ".unknown"


def luse(u):
    t = u["u"]
    if t == "resolve":
        s = u["src"]
        if s == "self":
            return ".resolve .self"
        if s == "const":
            return f".resolve (.const {lstr(u['m'])} {lstr(u['c'])})"
        if s == "child":
            return f".resolve (.child {lstr(u['key'])})"
        if s == "rawpaths":
            return f".resolve (.rawPaths {lstr(u['key'])} {lstr(u['m'])} {lstr(u['c'])})"
        if s == "raw" and u.get("m"):
            return f".resolve (.rawIn {lstr(u['m'])})"
        return f".resolve (.unknown {lstr(u.get('desc', '?'))})"
    if t == "kid":
        return f".kid {lstr(u['key'])}"
    if t == "call":
        if u["target"] == "resolved":
            return f".callResolved {u['of']}"
        if u["target"] == "instance":
            return f".callInstance {u['of'] if u['of'] >= 0 else 0}"
        if u["target"] == "childvalue":
            return f".callChildValue {lstr(u['key'])}"
    if t == "getattr":
        attr = u["attr"]
        slot = attr.split("'")[3] if attr.startswith("('childnode'") else "?"
        return f".getattrChild {lstr(u['on'])} {lstr(slot)}"
    if t == "guard":
        return f".guardSubclass {u['of']} {lstr(u['kind'])}"
    if t == "lib":
        return None
    return f".unknown {lstr(u.get('src', json.dumps(u)))}"


def renumber_uses(uses):
    """drop `lib` entries, remap indices that refer to resolve uses"""
    keep, remap = [], {}
    for i, u in enumerate(uses):
        if u["u"] == "lib":
            continue
        remap[i] = len(keep)
        keep.append(dict(u))
    for u in keep:
        if "of" in u and isinstance(u["of"], int) and u["of"] >= 0:
            u["of"] = remap.get(u["of"], 9999)
    return keep


def lkind(k):
    sc = k["self_check"]
    mode = sc["mode"]
    if mode == "fnContent":
        lsc = f".fnContent {llist(map(lstr, sc['m']))} {llist(map(lstr, sc['c']))}"
    elif mode in ("standard", "always", "fnSelf"):
        lsc = "." + mode
    else:
        lsc = ".unknown"
    variants = []
    for v in k["variants"]:
        slots = []
        for s in v["slots"] or []:
            shape = s["shape"]
            if shape == "unknown":
                slots.append(f'{{ key := {lstr(s["key"])}, path := [], shape := .raw, childExtra := ["<unknown slot>"] }}')
                continue
            extra = s.get("child_trust")
            if extra == "unknown":
                extra = ["<unknown child trust>"]
            extra = extra or []
            synth = ""
            if shape == "synth":
                synth = ", synth := .fromState" if k["loader"] == "LossNode" or True else ""
            slots.append(
                f'{{ key := {lstr(s["key"])}, path := {llist(map(lstr, s.get("path", [])))}, optional := {str(bool(s.get("optional"))).lower()}, '
                f'shape := .{shape}, childExtra := {llist(map(lstr, sorted(extra)))}{s.get("_synth_lean", synth)} }}')
        when = v.get("when")
        if when:
            variants.append(f'{{ whenPath := {llist(map(lstr, when["path"]))}, whenEq := {lstr(when["equals"])}, slots := {llist(slots)} }}')
        else:
            variants.append(f"{{ slots := {llist(slots)} }}")
    uses = [x for x in (luse(u) for u in renumber_uses(k["uses"])) if x]
    trust = k["trust"]
    fields = [
        f"loader := {lstr(k['loader'])}", f"protocol := {k['protocol']}", f"cls := {lstr(k['cls'])}",
        f"memoize := {str(bool(k['memoize'])).lower()}", f"alwaysRaises := {str(bool(k.get('always_raises'))).lower()}",
        f"callerPlus := {str(trust['mode'] == 'callerPlus').lower()}",
        f"defaults := {llist(map(lstr, sorted(set(trust.get('defaults', [])))))}",
        f"selfCheck := {lsc}", f"walksKids := {str(bool(sc.get('walks'))).lower()}",
        f"moduleName := {lname_expr(k['names'].get('module_name', {}))}",
        f"className := {lname_expr(k['names'].get('class_name', {}))}",
        f"variants := {llist(variants)}", f"elseRaises := {str(bool(k['else_raises'])).lower()}",
        f"memoRef := {str('memo_ref' in k).lower()}",
        f"initEffects := {llist(map(lstr, k['init_effects']))}",
        f"reads := {llist(llist(map(lstr, p)) for p in k.get('reads', []))}",
        f"uses := {llist(uses)}",
        f"fmt := .{k['view']['format'] if k['view']['format'] in ('name', 'json', 'bytes', 'bytearray') else 'unknown'}",
        f"selfSafeAlways := {str(k['view']['self_safe'] == 'always').lower()}",
        f"isSafeAlways := {str(k['view']['is_safe'] == 'always').lower()}",
        f"viewKnown := {str(k['view']['self_safe'] != 'unknown' and k['view']['is_safe'] != 'unknown' and k['view']['format'] != 'unknown').lower()}",
        f"skipped := {str(bool(k['view']['skipped'])).lower()}",
        f"isListNode := {str(bool(k['view']['is_list_node'])).lower()}",
    ]
    return "{ " + ",\n    ".join(fields) + " }"


def synth_fixup(facts):
    """names of ReduceNode's synthetic constructor node: evaluate which class each ReduceNode subclass passes"""
    import skops.io  # noqa
    from skops.io._audit import NODE_TYPE_MAPPING
    from skops.io._utils import get_module
    import ast, inspect, textwrap

    for k in facts["kinds"]:
        cls = NODE_TYPE_MAPPING[(k["loader"], k["protocol"])]
        for v in k["variants"]:
            for s in v["slots"] or []:
                if s["shape"] != "synth":
                    continue
                # find `constructor=<expr>` in the class' own __init__
                src = textwrap.dedent(inspect.getsource(cls.__init__))
                tree = ast.parse(src)
                expr = None
                for n in ast.walk(tree):
                    if isinstance(n, ast.keyword) and n.arg == "constructor":
                        expr = n.value
                if expr is None:
                    s["_synth_lean"] = ', synth := .const "<unknown>" "<unknown>"'
                elif isinstance(expr, ast.Constant) and expr.value is None:
                    s["_synth_lean"] = ", synth := .fromState"
                elif isinstance(expr, ast.Name):
                    obj = sys.modules[cls.__module__].__dict__.get(expr.id)
                    if obj is None:
                        s["_synth_lean"] = ', synth := .const "<unknown>" "<unknown>"'
                    else:
                        s["_synth_lean"] = f", synth := .const {lstr(get_module(obj))} {lstr(obj.__name__)}"
                else:
                    s["_synth_lean"] = ', synth := .const "<unknown>" "<unknown>"'


def collect_in_subprocess():
    """run the collector in a fresh interpreter importing the working tree"""
    code = (
        "import sys, json; sys.path.insert(0, %r); sys.path.insert(0, %r);"
        "from harness.translate import nodes, registry;"
        "f = nodes.collect(); registry.synth_fixup(f); print(json.dumps(f, default=str))" % (str(REPO), str(VERIF))
    )
    p = subprocess.run([sys.executable, "-W", "ignore", "-c", code], capture_output=True, text=True, cwd=str(VERIF))
    if p.returncode != 0:
        raise RuntimeError("translator failed: " + p.stderr[-2000:])
    return json.loads(p.stdout)


def generate():
    facts = collect_in_subprocess()
    FACTS.parent.mkdir(exist_ok=True)
    write_if_changed(FACTS, json.dumps(facts, indent=1, sort_keys=True))
    lines = ["import SkopsModel.Io.Spec",
             "/-! GENERATED by harness/translate/registry.py from the working tree of /repo — do not edit. -/",
             "namespace Skops.Generated", "open Skops.Io", ""]
    names = []
    for k in facts["kinds"]:
        nm = f"kind_{k['loader'].strip('_')}_{k['protocol']}"
        names.append(nm)
        lines.append(f"def {nm} : KindSpec :=\n  {lkind(k)}\n")
    lines.append(f"def table : Table :=\n  {{ protocol := {facts['protocol']}, kinds := {llist(names)} }}\n")
    lines.append("end Skops.Generated\n")
    write_if_changed(LEAN / "SkopsModel" / "Generated" / "Specs.lean", "\n".join(lines))
    return facts
