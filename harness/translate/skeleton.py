"""T1 for C16/C17/C18: statement-by-statement translation of `_update_file`, `_convert_file`, the two CLI `main`s,
`dump` and `dumps` into the `Stmt` language of lean/SkopsModel/Fs/Prog.lean.

Every statement is matched against an explicit table; anything else becomes `.unknown "<source>"`, which the Lean
interpreter turns into an `unmodelled` exception -- the theorems about `Generated.*` skeletons then no longer hold by
`rfl`/`decide` and the harness goes looking for a failing input."""
from __future__ import annotations

import ast

from ..common import LEAN, REPO, write_if_changed

SKIP = object()

# simple statements: unparse(source) -> Lean term (or SKIP for statements without effect on files/outcome)
SIMPLE = {
    # ---- _update_file
    "output_file = input_file": ".outputGetsInput",
    "input_model = load(input_file, trusted=get_untrusted_types(file=input_file))": ".loadInput",
    "destination = Path(output_file)": ".destGetsOutput",
    "tmp_output_file = Path(tmp_dir) / f'{destination.name}.tmp'": ".tmpGets true",
    "tmp_output_file = Path(tmp_dir) / f'{output_file}.tmp'": ".tmpGets false",
    "dump(input_model, tmp_output_file)": ".dumpTmp",
    "os.replace(tmp_output_file, destination)": ".replaceTmpDest",
    "shutil.move(str(tmp_output_file), str(output_file))": ".moveTmpDest",
    "shutil.move(tmp_output_file, output_file)": ".moveTmpDest",
    "return None": ".ret",
    "return": ".ret",
    # ---- update main (argument wiring)
    "output_file = Path(parsed_args.output_file) if parsed_args.output_file else None": SKIP,
    "input_file = Path(parsed_args.input)": SKIP,
    "inplace = parsed_args.inplace": SKIP,
    "logging.basicConfig(format='%(levelname)-8s: %(message)s')": SKIP,
    "logger.setLevel(level=get_log_level(parsed_args.loglevel))": SKIP,
    # ---- _convert_file
    "model_name = pathlib.Path(input_file).stem": SKIP,
    "skops_dump = dumps(obj)": ".dumpsObj",
    "untrusted_types = get_untrusted_types(data=skops_dump)": ".inspectDump",
    "untrusted_str = ', '.join(untrusted_types)": SKIP,
    # ---- convert main
    "output_file = parsed_args.output_file": SKIP,
    "input_file = parsed_args.input": SKIP,
    "logging.basicConfig(format='%(levelname)-8s: %(message)s', level=get_log_level(parsed_args.loglevel))": SKIP,
    # ---- dump / dumps
    "buffer = _save(obj, compression=compression, compresslevel=compresslevel)": ".saveBuffer",
    "file.write(buffer.getbuffer())": ".writeSinkFile",
    "return buffer.getbuffer().tobytes()": ".returnBytes",
}
CONDS = {
    "inplace": ".inplace",
    "output_file is None": ".outputNone",
    "not output_file": ".outputNone",
    "input_file_schema['protocol'] == PROTOCOL": ".protoEq",
    "input_file_schema['protocol'] > PROTOCOL": ".protoGt",
    "not untrusted_types": ".untrustedEmpty",
    "isinstance(file, (str, Path))": ".sinkIsPath",
}
CALLS = {
    "update": "_update_file(input_file=input_file, output_file=output_file, inplace=inplace, logger=logger)",
    "convert": "_convert_file(input_file=input_file, output_file=output_file)",
}


def lean_str(s):
    return '"' + s.replace("\\", "\\\\").replace('"', '\\"').replace("\n", "\\n") + '"'


def is_doc(s):
    return isinstance(s, ast.Expr) and isinstance(s.value, ast.Constant) and isinstance(s.value.value, str)


def tr_block(stmts):
    out = []
    for s in stmts:
        t = tr_stmt(s)
        if t is SKIP:
            continue
        if isinstance(t, list):
            out += t
        else:
            out.append(t)
    return out


def block(stmts):
    return "[" + ", ".join(tr_block(stmts)) + "]"


def unknown(s):
    src = ast.unparse(s)
    return f".unknown {lean_str(src[:120])}"


def tr_stmt(s):
    if is_doc(s):
        return SKIP
    src = ast.unparse(s)
    if src in SIMPLE:
        return SIMPLE[src]
    if isinstance(s, ast.Expr) and isinstance(s.value, ast.Call):
        f = ast.unparse(s.value.func)
        if f in ("logger.debug", "logger.info", "logger.warning", "logger.error"):
            return f".log {lean_str(f.split('.')[1])}"
    if isinstance(s, ast.Raise) and s.exc is not None:
        exc = s.exc.func if isinstance(s.exc, ast.Call) else s.exc
        return f".raise {lean_str(ast.unparse(exc))}"
    if isinstance(s, ast.If):
        c = CONDS.get(ast.unparse(s.test))
        if c is None:
            return unknown(s)
        return f".ite {c} {block(s.body)} {block(s.orelse)}"
    if isinstance(s, ast.With) and len(s.items) == 1:
        item = ast.unparse(s.items[0])
        body = [ast.unparse(b) for b in s.body]
        if item == "zipfile.ZipFile(input_file, 'r') as zip_file" and body == ["input_file_schema = json.loads(zip_file.read('schema.json'))"]:
            return ".readProtocol"
        if item == "tempfile.TemporaryDirectory(dir=destination.parent) as tmp_dir":
            return f".withTmpDir true {block(s.body)}"
        if item == "tempfile.TemporaryDirectory() as tmp_dir":
            return f".withTmpDir false {block(s.body)}"
        if item == "open(input_file, 'rb') as f" and body == ["obj = pickle.load(f)"]:
            return ".unpickle"
        if item == "open(output_file, 'wb') as out_file":
            rest = [b for b in s.body if not (isinstance(tr_stmt(b), str) and tr_stmt(b).startswith(".log"))]
            if [ast.unparse(b) for b in rest] == ["out_file.write(skops_dump)"]:
                # the records emitted inside the block follow the open: a failing open emits none of them
                return [".writeOutput"] + [t for t in tr_block([b for b in s.body if b not in rest])]
        if item == "open(file, 'wb') as f" and body == ["f.write(buffer.getbuffer())"]:
            return ".writeSinkPath"
    return unknown(s)


def fn(tree, name):
    for n in tree.body:
        if isinstance(n, ast.FunctionDef) and n.name == name:
            return n
    raise KeyError(name)


def tr_main(f, which):
    """the CLI main: its last statement must be the call of the inner function with the arguments in place"""
    body = [s for s in f.body if not is_doc(s)]
    if not body or ast.unparse(body[-1]) != CALLS[which]:
        return "[" + ", ".join(tr_block(body) + [f".unknown {lean_str('inner call not last / arguments differ')}"]) + "]"
    main = []
    for s in body[:-1]:
        if which == "convert" and isinstance(s, ast.If) and ast.unparse(s.test) == "not output_file":
            b = [ast.unparse(x) for x in s.body]
            if b == ["file_name = pathlib.Path(input_file).stem", "output_file = pathlib.Path.cwd() / f'{file_name}.skops'"] and not s.orelse:
                main.append(".ite .outputNone [.defaultOutput] []")
                continue
        t = tr_stmt(s)
        if t is SKIP:
            continue
        main += t if isinstance(t, list) else [t]
    return "[" + ", ".join(main) + "]"


def collect():
    upd = ast.parse((REPO / "skops/cli/_update.py").read_text())
    conv = ast.parse((REPO / "skops/cli/_convert.py").read_text())
    pers = ast.parse((REPO / "skops/io/_persist.py").read_text())
    sk = {
        "updateMain": tr_main(fn(upd, "main"), "update"),
        "updateInner": block(fn(upd, "_update_file").body),
        "convertMain": tr_main(fn(conv, "main"), "convert"),
        "convertInner": block(fn(conv, "_convert_file").body),
        "dumpBody": block(fn(pers, "dump").body),
        "dumpsBody": block(fn(pers, "dumps").body),
    }
    # signature defaults that the model's Cfg relies on
    sig = ast.unparse(fn(upd, "_update_file").args)
    sk["_updateSignature"] = sig
    return sk


def generate():
    sk = collect()
    lines = ["import SkopsModel.Fs.Prog",
             "/-! GENERATED by harness/translate/skeleton.py from the working tree of /repo — do not edit. -/",
             "namespace Skops.Generated", "open Skops.Fs", ""]
    for k, v in sk.items():
        if k.startswith("_"):
            continue
        lines.append(f"def {k} : List Stmt :=\n  {v}")
        lines.append("")
    lines.append(f"def updateSignature : String := {lean_str(sk['_updateSignature'])}")
    lines.append("")
    lines.append("end Skops.Generated\n")
    write_if_changed(LEAN / "SkopsModel" / "Generated" / "Skeletons.lean", "\n".join(lines))
    return sk
