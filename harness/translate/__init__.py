"""Translators (T1): regenerate lean/SkopsModel/Generated/*.lean from the working tree of /repo."""
from __future__ import annotations

import fcntl

from ..common import LEAN, Lock

_done = False


def run_all():
    """Idempotent within a process; serialised across processes by the build lock."""
    global _done
    if _done:
        return
    from . import registry, flow, emitted, trust, skeleton, frame  # noqa: F401  (each module exposes generate())

    with Lock(LEAN / ".lock"):
        for mod in (registry, flow, emitted, trust, skeleton, frame):
            mod.generate()
    _done = True
