"""T1 trust tables for C11: every default-trusted name is resolved in the pinned environment and tagged with the
documented family it belongs to (or OTHER); the 'dangerous' namespaces are enumerated against the installed
versions; names are interned to Nat ids (sorted by string) so that the set algebra is decided in the Lean kernel."""
from __future__ import annotations

import json
import subprocess
import sys

from ..common import LEAN, REPO, VERIF, write_if_changed

DANGEROUS_MODULES = ["builtins", "os", "posix", "sys", "subprocess", "shutil", "importlib", "pickle", "marshal", "ctypes",
                     "socket", "io", "pathlib", "tempfile", "operator", "functools", "types", "code", "runpy"]
NUMERIC_NAMESPACES = ["numpy", "numpy.random", "numpy.linalg", "numpy.fft", "numpy.ma", "numpy.lib", "numpy.testing",
                      "numpy.ctypeslib", "numpy.f2py", "scipy", "scipy.special", "scipy.sparse", "scipy.linalg", "scipy.optimize",
                      "scipy.stats", "scipy.io", "scipy.ndimage", "joblib", "sklearn", "sklearn.utils", "sklearn.base",
                      "sklearn.datasets", "sklearn.model_selection", "sklearn.metrics", "sklearn.pipeline", "sklearn.inspection",
                      "sklearn.utils.validation", "sklearn.externals"]
FIXED = ["numpy.random.bit_generator.SeedSequence"]


def family_of(obj):
    import collections
    import functools

    import numpy as np
    import scipy.sparse as sp
    from sklearn.tree._tree import Tree
    from sklearn.utils import all_estimators

    global _EST
    try:
        _EST
    except NameError:
        _EST = {c for _, c in all_estimators()}
    if isinstance(obj, np.ufunc):
        return "ufunc"
    if isinstance(obj, type):
        if obj in (int, float, str, bool):
            return "builtin-primitive"
        if obj in (list, set, map, tuple, dict, bytes, bytearray, slice, collections.OrderedDict, collections.defaultdict,
                   functools.partial):
            return "builtin-container"
        if issubclass(obj, np.generic):
            return "numpy-scalar-type"
        if obj in (np.ndarray, np.ma.MaskedArray, np.dtype):
            return "numpy-array-type"
        if obj in (np.random.RandomState, np.random.Generator, np.random.SeedSequence) or issubclass(obj, np.random.BitGenerator):
            return "numpy-rng"
        if issubclass(obj, sp.spmatrix) or (hasattr(sp, "sparray") and issubclass(obj, sp.sparray)):
            return "scipy-sparse"
        if obj in _EST:
            return "sklearn-estimator"
        if obj is Tree:
            return "sklearn-tree"
        mod = getattr(obj, "__module__", "") or ""
        # scikit-learn's Cython loss classes (`sklearn._loss._loss.Cy*`, `sklearn.linear_model._sgd_fast.*Loss/Hinge/...`)
        if mod in ("sklearn._loss._loss", "_loss") and obj.__name__.startswith("Cy"):
            return "sklearn-loss"
        if mod in ("sklearn.linear_model._sgd_fast", "_sgd_fast"):
            return "sklearn-loss"
    return "OTHER"


def resolve(name):
    import importlib

    m, _, c = name.rpartition(".")
    return getattr(importlib.import_module(m), c)


def collect():
    import importlib
    import warnings

    sys.path.insert(0, str(VERIF))
    from harness.translate import nodes

    warnings.simplefilter("ignore")
    facts = nodes.collect()
    per_kind = {}
    defaults = set(FIXED)
    for k in facts["kinds"]:
        names = set(k["trust"].get("defaults") or [])
        for v in k.get("variants") or []:
            for s in v.get("slots") or []:
                if isinstance(s.get("child_trust"), list):
                    names |= set(s["child_trust"])
        per_kind[f"{k['loader']}@{k['protocol']}"] = sorted(names)
        defaults |= names
    tags = {}
    for n in sorted(defaults):
        try:
            tags[n] = family_of(resolve(n))
        except Exception as ex:
            tags[n] = "UNRESOLVED"
    family_members = {n for n, t in tags.items() if t not in ("OTHER", "UNRESOLVED")}
    dangerous = set()
    for modname in DANGEROUS_MODULES + NUMERIC_NAMESPACES:
        try:
            mod = importlib.import_module(modname)
        except Exception:
            continue
        for attr in dir(mod):
            if attr.startswith("__"):
                continue
            try:
                obj = getattr(mod, attr)
            except Exception:
                continue
            if not (callable(obj) or isinstance(obj, type)):
                continue
            if family_of(obj) != "OTHER":
                continue                                # a member of a documented family is not 'dangerous'
            dangerous.add(f"{modname}.{attr}")
            # also under the name skops itself would report for it
            try:
                from skops.io._utils import get_type_name

                if hasattr(obj, "__name__"):
                    dangerous.add(get_type_name(obj))
            except Exception:
                pass
    # callables that share their leaf name with a default-trusted one but live in another (private) module of the same
    # libraries: what a loader would reach if it compared names after "normalising" the module part
    leafs = {n.rsplit(".", 1)[1] for n in defaults if "." in n}
    lookalikes = set()
    for modname, mod in sorted(sys.modules.items()):
        if mod is None or not modname.startswith(("numpy", "scipy", "sklearn")):
            continue
        d = getattr(mod, "__dict__", {})
        for leaf in leafs & set(d):
            obj = d[leaf]
            if (callable(obj) or isinstance(obj, type)) and f"{modname}.{leaf}" not in defaults:
                try:
                    if family_of(obj) == "OTHER":
                        dangerous.add(f"{modname}.{leaf}")
                        lookalikes.add(f"{modname}.{leaf}")
                except Exception:
                    pass
    dangerous -= family_members
    return dict(defaults=sorted(defaults), tags=tags, dangerous=sorted(dangerous), per_kind=per_kind,
                lookalikes=sorted(lookalikes - family_members))


def generate():
    code = ("import sys, json; sys.path.insert(0, %r); sys.path.insert(0, %r);"
            "from harness.translate import trust; print(json.dumps(trust.collect()))" % (str(REPO), str(VERIF)))
    p = subprocess.run([sys.executable, "-W", "ignore", "-c", code], capture_output=True, text=True, cwd=str(VERIF))
    if p.returncode != 0:
        raise RuntimeError("trust translator failed: " + p.stderr[-1500:])
    t = json.loads(p.stdout.strip().splitlines()[-1])
    names = sorted(set(t["defaults"]) | set(t["dangerous"]))
    ident = {n: i for i, n in enumerate(names)}
    default_ids = sorted(ident[n] for n in t["defaults"])
    family_ids = sorted(ident[n] for n in t["defaults"] if t["tags"][n] not in ("OTHER", "UNRESOLVED"))
    dangerous_ids = sorted(ident[n] for n in t["dangerous"])
    t["ids"] = dict(n_names=len(names))
    (VERIF / "generated").mkdir(exist_ok=True)
    write_if_changed(VERIF / "generated" / "trust.json", json.dumps(t, indent=0, sort_keys=True))

    def big_list(name, doc, xs):
        # one definition per chunk: a single literal with thousands of elements exceeds the elaborator's recursion depth
        chunks = [xs[i:i + 100] for i in range(0, len(xs), 100)] or [[]]
        out = []
        for ci, c in enumerate(chunks):
            out.append(f"def {name}_{ci} : List Nat := [" + ", ".join(map(str, c)) + "]")
        out.append(f"/-- {doc} -/")
        out.append(f"def {name} : List Nat := " + " ++ ".join(f"{name}_{ci}" for ci in range(len(chunks))))
        out.append("")
        return out

    lines = [
        "/-! GENERATED by harness/translate/trust.py from the working tree of /repo and the installed libraries — do not edit.",
        "Names are interned to their rank in the sorted list of all names that occur (defaults ∪ dangerous). -/",
        "namespace Skops.Generated", ""]
    lines += big_list("defaultIds", f"{len(default_ids)} names that some loader trusts by default (or resolves as a fixed constructor)", default_ids)
    lines += big_list("familyIds", "those of them whose resolved object passed a documented-family predicate", family_ids)
    lines += big_list("dangerousIds", f"{len(dangerous_ids)} public callables of the general-purpose and numeric namespaces that are in no family", dangerous_ids)
    lines += ["end Skops.Generated", ""]
    src = "\n".join(lines)
    write_if_changed(LEAN / "SkopsModel" / "Generated" / "Trust.lean", src)
    return t
