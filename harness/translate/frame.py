"""T1 for C20: the frame facts -- after import, no skops function writes state that another call could read.

A purely syntactic scan of every non-test module under skops/ (io, card, cli, utils, hub_utils excluded: not part
of the property).  Each fact is a Bool in Generated/Frame.lean; the offending sites (if any) go to
generated/frame.json so that a failing fact names its call site."""
from __future__ import annotations

import ast
import json

from ..common import LEAN, REPO, VERIF, write_if_changed

PACKAGES = ["skops/io", "skops/card", "skops/cli", "skops/utils"]
MUTATORS = {"append", "extend", "insert", "add", "update", "pop", "popitem", "clear", "setdefault", "remove", "discard", "sort",
            "reverse", "appendleft", "__setitem__", "__delitem__"}
PROCESS_WRITES = {"os.chdir", "os.putenv", "os.unsetenv", "os.umask", "sys.path.append", "sys.path.insert", "sys.path.extend",
                  "np.random.seed", "numpy.random.seed", "random.seed", "warnings.filterwarnings", "warnings.simplefilter",
                  "os.environ.update", "os.environ.setdefault", "os.environ.pop", "sys.setrecursionlimit", "locale.setlocale",
                  "importlib.reload", "sys.modules.pop", "sys.modules.update", "np.seterr", "numpy.seterr", "np.set_printoptions"}


def is_container_expr(e):
    if isinstance(e, (ast.List, ast.Dict, ast.Set, ast.ListComp, ast.DictComp, ast.SetComp)):
        return True
    if isinstance(e, ast.Call):
        f = ast.unparse(e.func)
        return f in ("list", "dict", "set", "defaultdict", "collections.defaultdict", "OrderedDict", "collections.OrderedDict",
                     "deque", "collections.deque", "Counter", "collections.Counter", "bytearray")
    return False


def modules():
    out = []
    for pkg in PACKAGES:
        for p in sorted((REPO / pkg).rglob("*.py")):
            if "tests" in p.parts or p.name.startswith("test_") or p.name == "conftest.py":
                continue
            out.append(p)
    return out


def functions(tree):
    """(qualified name, node) of every function/method/lambda-free body in the module"""
    out = []

    def rec(body, prefix):
        for n in body:
            if isinstance(n, (ast.FunctionDef, ast.AsyncFunctionDef)):
                out.append((prefix + n.name, n))
                rec(n.body, prefix + n.name + ".")
            elif isinstance(n, ast.ClassDef):
                rec(n.body, prefix + n.name + ".")
            elif isinstance(n, (ast.If, ast.Try, ast.With, ast.For, ast.While)):
                rec(getattr(n, "body", []), prefix)
                rec(getattr(n, "orelse", []), prefix)
                rec(getattr(n, "finalbody", []), prefix)
                for h in getattr(n, "handlers", []):
                    rec(h.body, prefix)
    rec(tree.body, "")
    return out


def collect():
    trees = {p: ast.parse(p.read_text()) for p in modules()}
    sites = {k: [] for k in ("global_statements", "mutable_defaults", "module_container_writes", "class_attr_writes",
                             "class_mutable_attrs_written", "process_state_writes", "context_outside_call", "card_state_shared",
                             "function_attr_caches", "scoped_warning_filters")}
    # ---- module-level containers (by name) and class-level mutable attributes
    containers, class_attrs = {}, {}
    for p, t in trees.items():
        for n in t.body:
            targets = []
            if isinstance(n, ast.Assign) and is_container_expr(n.value):
                targets = [x.id for x in n.targets if isinstance(x, ast.Name)]
            elif isinstance(n, ast.AnnAssign) and n.value is not None and is_container_expr(n.value) and isinstance(n.target, ast.Name):
                targets = [n.target.id]
            for name in targets:
                containers.setdefault(name, []).append(str(p.relative_to(REPO)))
            if isinstance(n, ast.ClassDef):
                for m in n.body:
                    if isinstance(m, ast.Assign) and is_container_expr(m.value):
                        for x in m.targets:
                            if isinstance(x, ast.Name):
                                class_attrs.setdefault(x.id, []).append(f"{p.relative_to(REPO)}:{n.name}")
    for p, t in trees.items():
        rel = str(p.relative_to(REPO))
        for qual, f in functions(t):
            where = f"{rel}:{qual}"
            # locals that shadow a module-level container name
            local_names = {a.arg for a in f.args.args + f.args.kwonlyargs} | \
                {x.id for n in ast.walk(f) if isinstance(n, ast.Assign) for x in n.targets if isinstance(x, ast.Name)}
            for d in f.args.defaults + [d for d in f.args.kw_defaults if d is not None]:
                if is_container_expr(d):
                    sites["mutable_defaults"].append(f"{where}: default {ast.unparse(d)[:40]}")
            for n in ast.walk(f):
                if isinstance(n, ast.Global):
                    sites["global_statements"].append(f"{where}: global {', '.join(n.names)}")
                # writes through a name
                tgt = None
                if isinstance(n, (ast.Assign, ast.AugAssign, ast.Delete)):
                    ts = n.targets if isinstance(n, (ast.Assign, ast.Delete)) else [n.target]
                    for x in ts:
                        if isinstance(x, ast.Subscript):
                            base = x.value
                            if isinstance(base, ast.Name) and base.id in containers and base.id not in local_names:
                                sites["module_container_writes"].append(f"{where}: {ast.unparse(n)[:60]}")
                            if isinstance(base, ast.Attribute) and base.attr in containers and isinstance(base.value, ast.Name) \
                                    and base.value.id not in ("self",) and base.value.id not in local_names:
                                sites["module_container_writes"].append(f"{where}: {ast.unparse(n)[:60]}")
                        if isinstance(x, ast.Attribute):
                            owner = ast.unparse(x.value)
                            if owner in ("cls", "type(self)", "self.__class__") or (owner[:1].isupper() and owner.isidentifier()):
                                sites["class_attr_writes"].append(f"{where}: {ast.unparse(n)[:60]}")
                            elif isinstance(x.value, ast.Name) and x.value.id not in local_names and x.value.id not in ("self", "cls") \
                                    and not owner[:1].isupper():
                                # attribute of a module-level function/object (`f.cache = ...`) or of an imported module
                                if x.value.id in {q.split(".")[0] for q, _ in functions(t)} or x.value.id in ("os", "sys", "np", "numpy", "warnings"):
                                    sites["function_attr_caches"].append(f"{where}: {ast.unparse(n)[:60]}")
                        if isinstance(x, ast.Subscript) and ast.unparse(x.value) in ("os.environ", "sys.modules"):
                            sites["process_state_writes"].append(f"{where}: {ast.unparse(n)[:60]}")
                if isinstance(n, ast.Call):
                    fn_ = ast.unparse(n.func)
                    if isinstance(n.func, ast.Attribute) and n.func.attr in MUTATORS:
                        base = n.func.value
                        if isinstance(base, ast.Name) and base.id in containers and base.id not in local_names:
                            sites["module_container_writes"].append(f"{where}: {ast.unparse(n)[:60]}")
                        if isinstance(base, ast.Attribute) and isinstance(base.value, ast.Name) and base.value.id in ("self", "cls") \
                                and base.attr in class_attrs:
                            # self.X.append where X is a class-level container and never rebound per instance
                            cls_name = qual.split(".")[0]
                            rebound = any(isinstance(m, ast.Assign) and any(ast.unparse(tg) == f"self.{base.attr}" for tg in m.targets)
                                          for q2, f2 in functions(t) if q2.startswith(cls_name + ".") for m in ast.walk(f2))
                            if not rebound:
                                sites["class_mutable_attrs_written"].append(f"{where}: {ast.unparse(n)[:60]}")
                    if fn_ in PROCESS_WRITES:
                        scoped = fn_ in ("warnings.simplefilter", "warnings.filterwarnings") and any(
                            isinstance(w, ast.With) and any(ast.unparse(i.context_expr).startswith("warnings.catch_warnings(") for i in w.items)
                            and any(n is c for c in ast.walk(w)) for w in ast.walk(f))
                        sites["scoped_warning_filters" if scoped else "process_state_writes"].append(f"{where}: {fn_}")
                    if fn_ in ("lru_cache", "functools.lru_cache", "cache", "functools.cache"):
                        sites["function_attr_caches"].append(f"{where}: {fn_}")
            for dec in f.decorator_list:
                d = ast.unparse(dec)
                if d.split("(")[0] in ("lru_cache", "functools.lru_cache", "cache", "functools.cache", "cached_property", "functools.cached_property"):
                    if "cached_property" not in d:
                        sites["function_attr_caches"].append(f"{where}: @{d}")
    # ---- contexts are created per call
    persist = trees[REPO / "skops/io/_persist.py"]
    vis = trees[REPO / "skops/io/_visualize.py"]
    allowed = {"SaveContext": {"skops/io/_persist.py:_save"},
               "LoadContext": {"skops/io/_persist.py:load", "skops/io/_persist.py:loads", "skops/io/_persist.py:get_untrusted_types",
                               "skops/io/_visualize.py:visualize"}}
    for p, t in trees.items():
        rel = str(p.relative_to(REPO))
        inside = set()
        for qual, f in functions(t):
            for n in ast.walk(f):
                if isinstance(n, ast.Call) and ast.unparse(n.func) in allowed:
                    inside.add(id(n))
                    if f"{rel}:{qual}" not in allowed[ast.unparse(n.func)]:
                        sites["context_outside_call"].append(f"{rel}:{qual}: {ast.unparse(n.func)}(...)")
        for n in ast.walk(t):
            if isinstance(n, ast.Call) and ast.unparse(n.func) in allowed and id(n) not in inside:
                sites["context_outside_call"].append(f"{rel}: module-level {ast.unparse(n.func)}(...)")
    # ---- Card / Markdown state is created per instance from fresh literals
    card = trees[REPO / "skops/card/_model_card.py"]
    markup = trees[REPO / "skops/card/_markup.py"]
    for t, cls, fields in ((card, "Card", {"_data", "_metrics"}), (markup, "Markdown", None)):
        for n in t.body:
            if isinstance(n, ast.ClassDef) and n.name == cls:
                init = next((m for m in n.body if isinstance(m, ast.FunctionDef) and m.name == "__init__"), None)
                if init is None:
                    sites["card_state_shared"].append(f"{cls}: no __init__")
                    continue
                assigned = {}
                for m in ast.walk(init):
                    if isinstance(m, (ast.Assign, ast.AnnAssign)):
                        ts = m.targets if isinstance(m, ast.Assign) else [m.target]
                        for x in ts:
                            if isinstance(x, ast.Attribute) and ast.unparse(x.value) == "self" and m.value is not None:
                                assigned[x.attr] = m.value
                for fld in fields or []:
                    v = assigned.get(fld)
                    if v is None or not is_container_expr(v) or (isinstance(v, ast.Call) and v.args):
                        sites["card_state_shared"].append(f"{cls}.__init__: self.{fld} is not bound to a fresh empty container "
                                                          f"({ast.unparse(v)[:40] if v is not None else 'unassigned'})")
                # no instance field is bound directly to a default argument that is a container
                defaults = {a.arg for a, d in zip(init.args.args[-len(init.args.defaults):] if init.args.defaults else [], init.args.defaults)
                            if is_container_expr(d)}
                for fld, v in assigned.items():
                    if isinstance(v, ast.Name) and v.id in defaults:
                        sites["card_state_shared"].append(f"{cls}.__init__: self.{fld} aliases the mutable default of {v.id}")
    facts = dict(
        noGlobalStatements=not sites["global_statements"],
        noMutableDefaults=not sites["mutable_defaults"],
        moduleContainersWrittenOnlyAtImport=not sites["module_container_writes"],
        noClassAttributeWrites=not sites["class_attr_writes"] and not sites["class_mutable_attrs_written"],
        noProcessStateWrites=not sites["process_state_writes"],
        contextsCreatedPerCall=not sites["context_outside_call"],
        cardStatePerInstance=not sites["card_state_shared"],
        noFunctionLevelCaches=not sites["function_attr_caches"],
    )
    return facts, sites, dict(module_containers=containers, class_mutable_attrs=class_attrs, modules=len(trees))


def generate():
    facts, sites, info = collect()
    (VERIF / "generated").mkdir(exist_ok=True)
    write_if_changed(VERIF / "generated" / "frame.json", json.dumps(dict(facts=facts, sites=sites, info=info), indent=1, sort_keys=True))
    lines = ["/-! GENERATED by harness/translate/frame.py from the working tree of /repo — do not edit. -/",
             "namespace Skops.Generated", "", "structure FrameFacts where"]
    for k in facts:
        lines.append(f"  {k} : Bool")
    lines += ["", "def frameFacts : FrameFacts :=",
              "  { " + ",\n    ".join(f"{k} := {str(bool(v)).lower()}" for k, v in facts.items()) + " }", "",
              "def FrameFacts.all (f : FrameFacts) : Bool :=",
              "  " + " && ".join(f"f.{k}" for k in facts), "", "end Skops.Generated", ""]
    write_if_changed(LEAN / "SkopsModel" / "Generated" / "Frame.lean", "\n".join(lines))
    return facts, sites
