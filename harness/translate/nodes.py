"""T1 translator: per-node-kind facts, re-extracted from the working tree on every run.

For every `(loader, protocol) -> cls` in the live NODE_TYPE_MAPPING an abstract interpreter executes the
`__init__` chain (inlining `super().__init__`) over symbolic values and records
  * the trust expression (`self.trusted`),
  * the children dictionary: key -> slot (state path, shape node / nodes / dict / raw / blob / synth / memo),
    per variant of a `state[...] == "const"` switch,
  * everything else `__init__` does (must be inert),
and a second pass classifies, in evaluation order, everything the MRO-resolved `_construct` does
(name resolutions by provenance, child constructions, calls by provenance of the callee, library calls).
Which class provides `get_unsafe_set` / `is_self_safe` decides the self-check mode.
Anything not understood becomes an `unknown` entry, which no Lean obligation accepts.
"""
from __future__ import annotations

import ast
import builtins
import inspect
import json
import sys
import textwrap

# library / builtin callables that `_construct` may call without it being an archive-controlled event
LIB_OK = {
    "np.load", "load_npz", "json.loads", "np.ndarray", "np.array", "np.ma.MaskedArray", "partial", "slice",
    "defaultdict", "bytearray", "list", "tuple", "enumerate", "zip", "isinstance", "issubclass", "hasattr", "len",
    "type", "get_module", "TypeError", "ValueError", "UnsupportedTypeException", "dict", "set", "str",
    "np.empty", "np.ndindex", "range",
}
INIT_OK = {"get_module", "id", "isinstance", "len", "io.BytesIO", "get_type_paths"}
RESOLVERS = {"gettype", "_import_obj"}


def S(tag, **kw):
    return {"tag": tag, **kw}


def src_of(fn):
    return ast.parse(textwrap.dedent(inspect.getsource(fn))).body[0]


class InitExec:
    def __init__(self, cls):
        self.cls = cls
        self.effects = []
        self.attrs = {}
        self.raises = []
        self.memoize = True
        self.reads = []             # state paths subscripted in __init__ (KeyError when missing)
        self.switch = None          # (path, {const: attrs}, else_raises)

    # -- driver --------------------------------------------------------------------------------
    def run(self):
        env = dict(state=S("state", path=[]), load_context=S("ctx"), trusted=S("T", extra=[]), self=S("self"))
        owner = self.find_init(self.cls)
        self.always_raises = self.exec_fn(owner, env) == "stop"
        return self

    @staticmethod
    def find_init(cls):
        for k in cls.__mro__:
            if "__init__" in k.__dict__ and k is not object:
                return k

    def exec_fn(self, owner, env):
        fn = src_of(owner.__dict__["__init__"])
        self.owner = owner
        self.glob = sys.modules[owner.__module__].__dict__
        a = fn.args
        names = [x.arg for x in a.args]
        for n, dv in zip(names[len(names) - len(a.defaults):], a.defaults):
            if n not in env:
                env[n] = self.ev(dv, env)
        return self.block(fn.body, env)

    def block(self, stmts, env):
        for st in stmts:
            if self.stmt(st, env) == "stop":
                return "stop"

    def concrete(self, e):
        """evaluate an expression that only depends on module globals (e.g. `QuantileForest is None`)"""
        names = {n.id for n in ast.walk(e) if isinstance(n, ast.Name)}
        if names and all(n in self.glob for n in names):
            try:
                return True, bool(eval(compile(ast.Expression(e), "<cond>", "eval"), dict(self.glob)))
            except Exception:
                return False, None
        return False, None

    def stmt(self, st, env):
        if isinstance(st, ast.Expr):
            if isinstance(st.value, ast.Constant):
                return
            self.ev(st.value, env)
        elif isinstance(st, (ast.Assign, ast.AnnAssign)):
            if st.value is None:
                return
            val = self.ev(st.value, env)
            targets = st.targets if isinstance(st, ast.Assign) else [st.target]
            for t in targets:
                self.assign(t, val, env)
        elif isinstance(st, ast.If):
            ok, val = self.concrete(st.test)
            if ok:
                return self.block(st.body if val else st.orelse, env)
            sw = self.switch_on_state(st, env)
            if sw:
                return
            cond = self.ev(st.test, env)
            # generic fork: both branches, merge symbolically
            a0 = dict(self.attrs)
            e1, e2 = dict(env), dict(env)
            self.attrs = dict(a0)
            r1 = self.block(st.body, e1)
            a1 = self.attrs
            self.attrs = dict(a0)
            r2 = self.block(st.orelse, e2)
            a2 = self.attrs
            if r1 == "stop" and r2 != "stop":      # `if bad: raise` guard
                self.attrs = a2
                env.update(e2)
                self.raises.append(dict(when=ast.unparse(st.test)))
                return
            merged = {}
            for k in set(a1) | set(a2):
                merged[k] = a1.get(k) if a1.get(k) == a2.get(k) else S("cond", test=cond, then=a1.get(k), orelse=a2.get(k))
            self.attrs = merged
            for k in set(e1) | set(e2):
                env[k] = e1.get(k) if e1.get(k) == e2.get(k) else S("cond", test=cond, then=e1.get(k), orelse=e2.get(k))
        elif isinstance(st, ast.Raise):
            return "stop"
        else:
            self.effects.append("stmt " + type(st).__name__)

    def switch_on_state(self, st, env):
        """`if self.type == "a": ... elif self.type == "b": ... else: raise` on a value read from state"""
        branches, cur = [], st
        while isinstance(cur, ast.If):
            t = cur.test
            if not (isinstance(t, ast.Compare) and len(t.ops) == 1 and isinstance(t.ops[0], (ast.Eq, ast.NotEq))
                    and isinstance(t.comparators[0], ast.Constant)):
                return False
            subj = self.ev(t.left, env)
            if subj.get("tag") != "state":
                return False
            branches.append((subj["path"], t.comparators[0].value, isinstance(t.ops[0], ast.NotEq), cur.body))
            nxt = cur.orelse
            if len(nxt) == 1 and isinstance(nxt[0], ast.If):
                cur = nxt[0]
            else:
                tail = nxt
                break
        path = branches[0][0]
        if any(b[0] != path for b in branches):
            return False
        variants = {}
        base = dict(self.attrs)
        if len(branches) == 1 and branches[0][2]:
            # `if state[..] != "c": raise` guard: the rest of the function is the "c" variant
            self.attrs = dict(base)
            if self.block(branches[0][3], dict(env)) != "stop":
                return False
            self.attrs = base
            self.switch = dict(path=path, guard_equals=branches[0][1])
            return True
        for p, const, neg, body in branches:
            if neg:
                return False
            self.attrs = dict(base)
            if self.block(body, dict(env)) == "stop":
                continue
            variants[const] = {k: v for k, v in self.attrs.items() if base.get(k) != v}
        self.attrs = dict(base)
        else_raises = self.block(tail, dict(env)) == "stop" if tail else False
        self.attrs = base
        self.switch = dict(path=path, variants=variants, else_raises=else_raises)
        return True

    def assign(self, t, val, env):
        if isinstance(t, ast.Name):
            env[t.id] = val
        elif isinstance(t, ast.Attribute) and isinstance(t.value, ast.Name) and t.value.id == "self":
            self.attrs[t.attr] = val
        elif isinstance(t, ast.Tuple) and val.get("tag") == "tuple" and len(val["items"]) == len(t.elts):
            for tt, vv in zip(t.elts, val["items"]):
                self.assign(tt, vv, env)
        elif isinstance(t, ast.Subscript) and ast.unparse(t.value) == "self.children":
            ch = self.attrs.get("children", S("dict", items=[]))
            key = self.ev(t.slice, env)
            self.attrs["children"] = S("dict", items=ch.get("items", []) + [[key, val]])
        else:
            self.effects.append("assign " + ast.unparse(t))

    # -- expressions ---------------------------------------------------------------------------
    def ev(self, e, env):
        if isinstance(e, ast.Constant):
            return S("const", value=e.value)
        if isinstance(e, ast.Name):
            if e.id in env:
                return env[e.id]
            if e.id in self.glob or hasattr(builtins, e.id):
                return S("global", name=e.id, module=self.owner.__module__)
            return S("unknown", why="name " + e.id)
        if isinstance(e, ast.Attribute):
            base = self.ev(e.value, env)
            if base.get("tag") == "self":
                return self.attrs.get(e.attr, S("selfattr", name=e.attr))
            if base.get("tag") == "tree" and e.attr in ("module_name", "class_name"):
                return S("childname", child=base, which=e.attr)
            return S("attr", base=base, name=e.attr)
        if isinstance(e, ast.Subscript):
            base = self.ev(e.value, env)
            key = self.ev(e.slice, env)
            if base.get("tag") == "state" and key.get("tag") == "const" and not base.get("optional"):
                p = base["path"] + [key["value"]]
                if p not in self.reads:
                    self.reads.append(p)
                return S("state", path=p)
            return S("index", base=base, key=key)
        if isinstance(e, ast.Dict):
            return S("dict", items=[[self.ev(k, env), self.ev(v, env)] for k, v in zip(e.keys, e.values)])
        if isinstance(e, (ast.List, ast.Tuple)):
            return S("tuple" if isinstance(e, ast.Tuple) else "list", items=[self.ev(x, env) for x in e.elts])
        if isinstance(e, ast.BinOp) and isinstance(e.op, ast.Add):
            return S("add", left=self.ev(e.left, env), right=self.ev(e.right, env))
        if isinstance(e, ast.JoinedStr):
            parts = []
            for v in e.values:
                parts.append(S("const", value=v.value) if isinstance(v, ast.Constant) else self.ev(v.value, env))
            return S("fstring", parts=parts)
        if isinstance(e, ast.Compare):
            if len(e.ops) == 1 and isinstance(e.ops[0], ast.IsNot) and isinstance(e.comparators[0], ast.Constant) \
                    and e.comparators[0].value is None:
                return S("isnotnone", of=self.ev(e.left, env))
            return S("compare", src=ast.unparse(e))
        if isinstance(e, ast.BoolOp):
            return S("boolop", src=ast.unparse(e))
        if isinstance(e, (ast.ListComp, ast.DictComp, ast.GeneratorExp)):
            gen = e.generators[0]
            it = self.ev(gen.iter, env)
            env2 = dict(env)
            if isinstance(gen.target, ast.Name):
                env2[gen.target.id] = S("elem", of=it)
            elif isinstance(gen.target, ast.Tuple):
                for i, t in enumerate(gen.target.elts):
                    env2[t.id] = S("elem", of=it, part=i)
            if gen.ifs or len(e.generators) > 1:
                return S("unknown", why="comprehension with filter")
            if isinstance(e, ast.DictComp):
                return S("dictcomp", key=self.ev(e.key, env2), value=self.ev(e.value, env2), over=it)
            return S("listcomp", elt=self.ev(e.elt, env2), over=it)
        if isinstance(e, ast.Call):
            return self.call(e, env)
        return S("unknown", why="expr " + type(e).__name__)

    def call(self, e, env):
        fsrc = ast.unparse(e.func)
        args = [self.ev(a, env) for a in e.args]
        kw = {k.arg: self.ev(k.value, env) for k in e.keywords}
        if fsrc == "super().__init__":
            parent = [k for k in self.owner.__mro__[1:] if "__init__" in k.__dict__][0]
            pfn = src_of(parent.__dict__["__init__"])
            names = [x.arg for x in pfn.args.args][1:]
            env2 = dict(self=S("self"))
            for n, v in zip(names, args):
                env2[n] = v
            env2.update(kw)
            saved = (self.owner, self.glob)
            self.owner, self.glob = parent, sys.modules[parent.__module__].__dict__
            for n, dv in zip(names[len(names) - len(pfn.args.defaults):], pfn.args.defaults):
                if n not in env2:
                    env2[n] = self.ev(dv, env2)
            mz = env2.get("memoize", S("const", value=True))
            if mz == S("const", value=False):
                self.memoize = False
            elif mz != S("const", value=True):
                # `memoize=<expression>`: whether the node is shared would depend on the archive; not a kind of the model
                self.memoize = False
                self.effects.append("memoize argument is not a constant: " + str(mz.get("tag")))
            self.block(pfn.body, env2)
            self.owner, self.glob = saved
            return S("none")
        if fsrc == "self._get_trusted":
            t = args[0] if args else kw.get("trusted")
            d = args[1] if len(args) > 1 else kw.get("default")
            if t.get("tag") == "T":
                return S("T", extra=t["extra"] + [d])
            return S("unknown", why="trusted expression not derived from the caller's list")
        if fsrc == "get_tree":
            tr = kw.get("trusted", args[2] if len(args) > 2 else None)
            return S("tree", state=args[0], trusted=tr)
        if fsrc == "state.get" and args and args[0].get("tag") == "const":
            return S("state", path=[args[0]["value"]], optional=True)
        if fsrc == "load_context.memoize":
            return S("memoize")
        if fsrc == "load_context.get_object":
            return S("memo_lookup", key=args[0])
        if fsrc == "load_context.src.read":
            return S("zipread", name=args[0])
        if fsrc == "io.BytesIO" and args and args[0].get("tag") == "zipread":
            return S("blob", name=args[0]["name"])
        if fsrc == "TypeNode":
            return S("synth", cls="TypeNode", state=args[0], trusted=kw.get("trusted"))
        if fsrc in INIT_OK:
            return S("pure", fn=fsrc, args=args)
        if fsrc.endswith(".items") or fsrc.endswith(".values"):
            return S("iter", of=self.ev(e.func.value, env), how=fsrc.rsplit(".", 1)[1])
        self.effects.append("call " + fsrc + "(" + ", ".join(ast.unparse(a) for a in e.args) + ")")
        return S("callresult", fn=fsrc)


# ------------------------------------------------------------------------------------------------------
# evaluation of default-list expressions in the real module namespace


def default_names(expr, owner_module):
    """concrete list of names for a `default` expression node captured symbolically"""
    from skops.io._utils import get_type_paths

    glob = sys.modules[owner_module].__dict__

    def conc(s):
        t = s.get("tag")
        if t == "const":
            return s["value"]
        if t == "global":
            g = sys.modules[s["module"]].__dict__
            return g[s["name"]] if s["name"] in g else getattr(builtins, s["name"])
        if t in ("list", "tuple"):
            return [conc(x) for x in s["items"]]
        if t == "add":
            return conc(s["left"]) + conc(s["right"])
        if t == "attr":
            return getattr(conc(s["base"]), s["name"])
        if t == "listcomp":
            # [get_module(x) + "." + x.__name__ for x in ALLOWED_LOSSES]
            over = conc(s["over"])
            out = []
            for x in over:
                out.append(conc_elem(s["elt"], x))
            return out
        if t == "pure" and s["fn"] == "get_module":
            from skops.io._utils import get_module

            return get_module(conc(s["args"][0]))
        raise ValueError("cannot evaluate default expression: " + json.dumps(s, default=str)[:200])

    def conc_elem(s, x):
        t = s.get("tag")
        if t == "elem":
            return x
        if t == "add":
            return conc_elem(s["left"], x) + conc_elem(s["right"], x)
        if t == "const":
            return s["value"]
        if t == "attr":
            return getattr(conc_elem(s["base"], x), s["name"])
        if t == "pure" and s["fn"] == "get_module":
            from skops.io._utils import get_module

            return get_module(conc_elem(s["args"][0], x))
        return conc(s)

    return get_type_paths(conc(expr))


def slot_of(key, val):
    """children[key] = val  ->  slot description"""
    t = val.get("tag")
    if t == "tree":
        st = val["state"]
        if st.get("tag") == "state":
            return dict(key=key, path=st["path"], optional=bool(st.get("optional")), shape="node", trusted=val["trusted"])
        return None
    if t == "listcomp" and val["elt"].get("tag") == "tree" and val["elt"]["state"].get("tag") == "elem" \
            and val["over"].get("tag") == "state":
        return dict(key=key, path=val["over"]["path"], optional=False, shape="nodes", trusted=val["elt"]["trusted"])
    if t == "dictcomp" and val["value"].get("tag") == "tree" and val["over"].get("tag") == "iter" \
            and val["over"]["how"] == "items" and val["over"]["of"].get("tag") == "state":
        return dict(key=key, path=val["over"]["of"]["path"], optional=False, shape="dict", trusted=val["value"]["trusted"])
    if t == "state":
        return dict(key=key, path=val["path"], optional=bool(val.get("optional")), shape="raw", trusted=None)
    if t == "blob" and val["name"].get("tag") == "state":
        return dict(key=key, path=val["name"]["path"], optional=False, shape="blob", trusted=None)
    if t == "synth":
        return dict(key=key, path=[], optional=False, shape="synth", trusted=val["trusted"], synth_state=val["state"])
    if t == "cond" and val["test"].get("tag") == "isnotnone" and val["test"]["of"].get("tag") == "state" \
            and val["orelse"] in (S("const", value=None),) and val["then"].get("tag") == "tree":
        s = slot_of(key, val["then"])
        if s and val["then"]["state"] == val["test"]["of"]:
            s["optional"] = True
            return s
    return None


def trust_mode(T):
    """'caller' when the expression is the caller's list (plus recorded extras)"""
    if T is None:
        return None
    if T.get("tag") == "T":
        return T["extra"]
    return None


def summarize_init(cls):
    x = InitExec(cls).run()
    out = dict(cls=f"{cls.__module__}.{cls.__qualname__}", memoize=x.memoize, init_effects=list(x.effects),
               raises=x.raises, always_raises=bool(x.always_raises), reads=list(x.reads))
    if x.always_raises:
        out.update(trust=dict(mode="callerPlus", defaults=[]), variants=[], else_raises=True, other_attrs=[],
                   names=dict(module_name=dict(src="state", path=["__module__"]), class_name=dict(src="state", path=["__class__"])))
        return out
    tr = x.attrs.get("trusted")
    owner_mod = cls.__module__
    if tr is not None and tr.get("tag") in ("list", "tuple") and all(x.get("tag") in ("const", "add", "global", "pure") for x in tr["items"]):
        # a literal list: the loader ignores the caller's trusted list
        try:
            out["trust"] = dict(mode="fixed", defaults=default_names(tr, owner_mod))
        except Exception as ex:
            out["trust"] = dict(mode="unknown", src=str(ex))
    elif tr is None or tr.get("tag") != "T":
        out["trust"] = dict(mode="unknown", src=json.dumps(tr, default=str)[:200])
        defaults = []
    else:
        try:
            defaults = []
            for d in tr["extra"]:
                defaults += default_names(d, owner_mod)
            out["trust"] = dict(mode="callerPlus", defaults=defaults)
        except Exception as ex:
            out["trust"] = dict(mode="unknown", src=str(ex))

    def variants_from(attrs):
        ch = attrs.get("children")
        if ch is None or ch.get("tag") != "dict":
            return None
        slots = []
        for k, v in ch["items"]:
            if k.get("tag") != "const":
                return None
            s = slot_of(k["value"], v)
            if s is None:
                slots.append(dict(key=k["value"], shape="unknown", src=json.dumps(v, default=str)[:160]))
            else:
                slots.append(s)
        return slots

    variants = []
    base_slots = variants_from(x.attrs)
    if x.switch and "variants" in x.switch:
        for const, delta in x.switch["variants"].items():
            a = dict(x.attrs)
            a.update(delta)
            variants.append(dict(when=dict(path=x.switch["path"], equals=const), slots=variants_from(a)))
        out["else_raises"] = x.switch["else_raises"]
    elif x.switch and "guard_equals" in x.switch:
        variants.append(dict(when=dict(path=x.switch["path"], equals=x.switch["guard_equals"]), slots=base_slots))
        out["else_raises"] = True
    else:
        variants.append(dict(when=None, slots=base_slots))
        out["else_raises"] = False
    # child trust: what is handed to get_tree/TypeNode as `trusted`
    child_extra = None
    for v in variants:
        for s in v["slots"] or []:
            if s.get("trusted") is not None:
                e = trust_mode(s["trusted"])
                if e is None:
                    s["child_trust"] = "unknown"
                else:
                    names = []
                    try:
                        for d in e:
                            names += default_names(d, owner_mod)
                        s["child_trust"] = names
                    except Exception as ex:
                        s["child_trust"] = "unknown"
                s.pop("trusted")
            else:
                s.pop("trusted", None)
            if "synth_state" in s:
                st = s.pop("synth_state")
                s["synth"] = synth_names(st, owner_mod)
    out["variants"] = variants
    other = sorted(set(x.attrs) - {"trusted", "children", "class_name", "module_name", "_is_safe", "_constructed"})
    out["other_attrs"] = other
    # memo reference (CachedNode)
    for k, v in x.attrs.items():
        if v.get("tag") == "memo_lookup":
            out["memo_ref"] = dict(attr=k, key=v["key"].get("path"))
    # names possibly overridden in __init__ (MethodNode)
    nm = {}
    for which in ("module_name", "class_name"):
        v = x.attrs.get(which)
        nm[which] = name_expr(v)
    out["names"] = nm
    return out


def name_expr(v):
    if v is None:
        return dict(src="unknown")
    if v.get("tag") == "state":
        return dict(src="state", path=v["path"])
    if v.get("tag") == "childname" and v["child"]["state"].get("tag") == "state":
        return dict(src="child", path=v["child"]["state"]["path"], which=v["which"])
    if v.get("tag") == "fstring":
        parts = []
        for p in v["parts"]:
            if p.get("tag") == "const":
                parts.append(dict(lit=p["value"]))
            else:
                parts.append(name_expr(p))
        return dict(src="concat", parts=parts)
    return dict(src="unknown", dump=json.dumps(v, default=str)[:120])


def synth_names(st, owner_mod):
    """names of the synthetic TypeNode built by ReduceNode: either constants or read from the state"""
    if st.get("tag") != "dict":
        return dict(kind="unknown")
    d = {}
    for k, v in st["items"]:
        d[k.get("value")] = v
    if "__id__" in d:
        return dict(kind="unknown", why="synthetic node carries an __id__")

    def one(v):
        if v.get("tag") == "index" and v["base"].get("tag") == "cond":
            # constructor_name[i] with constructor_name = (state[...], state[...]) if constructor is None else (get_module(c), c.__name__)
            return None
        return None

    return dict(kind="by-constructor")


# ------------------------------------------------------------------------------------------------------
# _construct: ordered uses


class ConstructUses:
    def __init__(self, cls):
        self.cls = cls
        self.uses = []
        self.env = {}

    def run(self, owner=None):
        for k in self.cls.__mro__:
            if "_construct" in k.__dict__:
                owner = k
                break
        self.owner = owner
        fn = src_of(owner.__dict__["_construct"])
        self.block(fn.body)
        return self.uses

    # provenance of values
    def sym(self, e):
        if isinstance(e, ast.Constant):
            return ("const", e.value)
        if isinstance(e, ast.Name):
            return self.env.get(e.id, ("global", e.id))
        if isinstance(e, ast.Attribute):
            s = ast.unparse(e)
            if s in ("self.module_name", "self.class_name"):
                return ("selfname", s.split(".")[1])
            b = self.sym(e.value)
            if b[0] == "childnode" and e.attr in ("module_name", "class_name"):
                return ("childname", b[1], e.attr)
            return ("attr", b, e.attr)
        if isinstance(e, ast.Subscript):
            if ast.unparse(e.value) == "self.children" and isinstance(e.slice, ast.Constant):
                return ("childnode", e.slice.value)
            return ("index", self.sym(e.value), self.sym(e.slice))
        if isinstance(e, ast.JoinedStr):
            return ("fstring",)
        if isinstance(e, ast.Call):
            return self.call(e)
        if isinstance(e, ast.Starred):
            return self.sym(e.value)
        if isinstance(e, (ast.Tuple, ast.List)):
            return ("seq", [self.sym(x) for x in e.elts])
        if isinstance(e, (ast.ListComp, ast.GeneratorExp)):
            g = e.generators[0]
            it = self.sym(g.iter)
            for n in ast.walk(g.target):
                if isinstance(n, ast.Name):
                    self.env[n.id] = ("elem", it)
            return ("comp", self.sym(e.elt))
        if isinstance(e, (ast.Compare, ast.BoolOp, ast.UnaryOp, ast.BinOp)):
            for ch in ast.iter_child_nodes(e):
                if isinstance(ch, ast.expr):
                    self.sym(ch)
            return ("expr",)
        if isinstance(e, ast.keyword):
            return self.sym(e.value)
        return ("other", type(e).__name__)

    def origin(self, v):
        """reduce a provenance term to one of: resolved(i) | instance(i) | childvalue(key) | lib | raw | other"""
        t = v[0]
        if t in ("resolved", "instance", "childvalue", "lib", "guarded"):
            return v
        if t == "attr":
            b = self.origin(v[1])
            if b[0] in ("resolved", "instance", "guarded"):
                return ("instance", b[1])      # attribute / method of a vouched object or of its instance
            if b[0] == "childvalue":
                return ("childvalue", b[1])
            return ("other", str(v)[:80])
        if t == "elem":
            if v[1][0] == "zip" and len(v) > 2:
                return self.origin(("elem", v[1][1][v[2]]))
            return self.origin(v[1])
        if t == "lib":
            return v
        if t in ("index",):
            return self.origin(v[1])
        if t == "comp":
            return self.origin(v[1])
        if t == "childnode":
            return ("childnode", v[1])
        return ("other", str(v)[:80])

    def call(self, e):
        f = ast.unparse(e.func)
        # evaluate callee expression first (Python order), then arguments
        if f in RESOLVERS:
            args = [self.sym(a) for a in e.args]
            src = self.name_src(args)
            idx = len(self.uses)
            self.uses.append(dict(u="resolve", **src))
            return ("resolved", idx)
        if isinstance(e.func, ast.Attribute) and e.func.attr == "construct":
            b = self.sym(e.func.value)
            o = self.origin(b)
            if o[0] == "childnode":
                self.uses.append(dict(u="kid", key=o[1]))
                return ("childvalue", o[1])
            if b[0] == "attr" and b[2] == "cached":
                self.uses.append(dict(u="kid", key="@memo"))
                return ("childvalue", "@memo")
            self.uses.append(dict(u="unknown", src="construct on " + str(b)[:80]))
            return ("other", "construct")
        if f == "super()._construct":
            parent = [k for k in self.owner.__mro__[1:] if "_construct" in k.__dict__][0]
            saved_owner, saved_env = self.owner, self.env
            self.owner, self.env = parent, {}
            self.block(src_of(parent.__dict__["_construct"]).body)
            self.owner, self.env = saved_owner, saved_env
            return ("lib", "super")
        if f == "getattr":
            args = [self.sym(a) for a in e.args]
            o = self.origin(args[0])
            what = args[1]
            if o[0] == "childvalue" and what[0] in ("childnode", "index", "global", "other", "const") or o[0] == "childvalue":
                self.uses.append(dict(u="getattr", on=o[1], attr=str(what)[:60]))
                return ("instance", -1)
            self.uses.append(dict(u="unknown", src="getattr " + ast.unparse(e)[:80]))
            return ("other", "getattr")
        # methods that only read: .items(), .getvalue(), .values()
        if isinstance(e.func, ast.Attribute) and e.func.attr in ("items", "values", "getvalue", "keys"):
            b = self.sym(e.func.value)
            return b
        if f in ("zip", "enumerate"):
            return ("zip", [self.sym(a) for a in e.args])
        if f.startswith("self.") and isinstance(e.func.value, ast.Name) and hasattr(self.cls, e.func.attr):
            args = [self.sym(a) for a in e.args]
            helper = getattr(self.cls, e.func.attr)
            bad = self.scan_helper(helper)
            if not bad:
                self.uses.append(dict(u="lib", name=f))
                return ("lib", f)
            # a helper that calls something else: execute it symbolically with the arguments bound to the
            # caller's symbolic values (one level only; a helper that calls further helpers stays unknown)
            try:
                tree = src_of(helper)
                params = [a.arg for a in tree.args.args]
                if params and params[0] in ("self", "cls") and not isinstance(inspect.getattr_static(self.cls, e.func.attr), staticmethod):
                    params = params[1:]
                if len(params) != len(args) or getattr(self, "_inlining", False):
                    raise ValueError("arity / nested helper")
                saved_env = self.env
                self.env = dict(zip(params, args))
                self._inlining = True
                try:
                    self.block(tree.body)
                finally:
                    self.env = saved_env
                    self._inlining = False
                return ("other", "helper result")
            except Exception:
                self.uses.append(dict(u="unknown", src=f"helper {f}: {bad}"))
                return ("lib", f)
        callee = self.sym(e.func)
        for a in e.args:
            self.sym(a)
        for k in e.keywords:
            self.sym(k.value)
        if f in LIB_OK:
            self.uses.append(dict(u="lib", name=f))
            return ("lib", f)
        o = self.origin(callee)
        if o[0] == "resolved":
            self.uses.append(dict(u="call", target="resolved", of=o[1]))
            return ("instance", o[1])
        if o[0] == "instance":
            self.uses.append(dict(u="call", target="instance", of=o[1]))
            return ("instance", o[1])
        if o[0] == "childvalue":
            self.uses.append(dict(u="call", target="childvalue", key=o[1]))
            return ("other", "result of child value call")
        if o[0] == "lib" or (callee[0] == "attr" and self.origin(callee[1])[0] == "lib"):
            return ("lib", "method")
        self.uses.append(dict(u="unknown", src="call " + ast.unparse(e)[:100]))
        return ("other", "call")

    @staticmethod
    def scan_helper(fn):
        """a helper method of the node class may only use pure builtins"""
        tree = src_of(fn)
        for n in ast.walk(tree):
            if isinstance(n, ast.Call):
                f = ast.unparse(n.func)
                if f not in LIB_OK and f not in ("getattr", "all", "any"):
                    return "calls " + f
            if isinstance(n, (ast.Import, ast.ImportFrom)):
                return "imports"
        return None

    def name_src(self, args):
        if len(args) >= 2 and args[0] == ("selfname", "module_name") and args[1] == ("selfname", "class_name"):
            return dict(src="self")
        if len(args) >= 2 and args[0][0] == "const" and args[1][0] == "const":
            return dict(src="const", m=args[0][1], c=args[1][1])
        if len(args) >= 2 and args[0][0] == "childname" and args[1][0] == "childname" and args[0][1] == args[1][1] \
                and (args[0][2], args[1][2]) == ("module_name", "class_name"):
            return dict(src="child", key=args[0][1])
        if len(args) >= 2 and all(a[0] == "index" and a[1][0] == "childnode" and a[2][0] == "const" for a in args[:2]) \
                and args[0][1][1] == args[1][1][1]:
            return dict(src="rawpaths", key=args[0][1][1], m=args[0][2][1], c=args[1][2][1])
        if len(args) >= 2 and args[0][0] == "const":
            return dict(src="raw", m=args[0][1], desc=str(args[1])[:120])
        return dict(src="raw", m=None, desc=str(args)[:160])

    def block(self, stmts):
        for st in stmts:
            self.stmt(st)

    def stmt(self, st):
        if isinstance(st, ast.Expr):
            if not isinstance(st.value, ast.Constant):
                self.sym(st.value)
        elif isinstance(st, ast.Assign):
            v = self.sym(st.value)
            for t in st.targets:
                if isinstance(t, ast.Name):
                    self.env[t.id] = v
                elif isinstance(t, (ast.Subscript, ast.Attribute)):
                    self.sym(t.value)       # container / instance being written to
                    if isinstance(t, ast.Subscript):
                        self.sym(t.slice)
        elif isinstance(st, ast.Return):
            if st.value is not None:
                self.sym(st.value)
        elif isinstance(st, ast.If):
            guard = self.guard_of(st)
            self.sym(st.test)
            self.block(st.body)
            self.block(st.orelse)
            if guard:
                self.uses.append(dict(u="guard", of=guard[0], kind=guard[1]))
        elif isinstance(st, ast.For):
            it = self.sym(st.iter)
            if it[0] == "zip" and isinstance(st.target, ast.Tuple) and len(st.target.elts) == len(it[1]):
                for i, sub in enumerate(st.target.elts):
                    for x in ast.walk(sub):
                        if isinstance(x, ast.Name):
                            self.env[x.id] = ("elem", it, i)
            else:
                for x in ast.walk(st.target):
                    if isinstance(x, ast.Name):
                        self.env[x.id] = ("elem", it)
            self.block(st.body)
        elif isinstance(st, ast.Raise):
            pass
        else:
            self.uses.append(dict(u="unknown", src="stmt " + type(st).__name__))

    def guard_of(self, st):
        """`if not (isinstance(X, type) and issubclass(X, np.random.BitGenerator)): raise` where X was resolved"""
        t = st.test
        if isinstance(t, ast.UnaryOp) and isinstance(t.op, ast.Not) and st.body and isinstance(st.body[0], ast.Raise):
            src = ast.unparse(t.operand)
            for name, v in self.env.items():
                # the whole condition, not a substring of it (`... or True` must not count as a guard); the guard must be
                # the only thing in the `if` and have no else branch
                if v[0] == "resolved" and src == f"isinstance({name}, type) and issubclass({name}, np.random.BitGenerator)" \
                        and len(st.body) == 1 and not st.orelse:
                    return (v[1], "numpy.random.BitGenerator")
        return None


def which_defines(cls, meth):
    for k in cls.__mro__:
        if meth in k.__dict__:
            return k
    return None


def self_check_mode(cls):
    from skops.io._audit import Node

    gus = which_defines(cls, "get_unsafe_set")
    iss = which_defines(cls, "is_self_safe")
    if gus is Node and iss is Node:
        return dict(mode="standard", walks=True)
    try:
        src = textwrap.dedent(inspect.getsource(gus.get_unsafe_set))
        body = src_of(gus.get_unsafe_set).body
    except Exception as ex:
        return dict(mode="unknown", walks=False, src=repr(ex)[:200])
    body = [b for b in body if not (isinstance(b, ast.Expr) and isinstance(b.value, ast.Constant))]
    if len(body) == 1 and isinstance(body[0], ast.Return) and ast.unparse(body[0].value) == "set()":
        return dict(mode="always", walks=False)
    if len(body) == 2 and isinstance(body[0], ast.If) and ast.unparse(body[0].test) == "self.is_self_safe()" \
            and ast.unparse(body[0].body[0]) == "return set()" and not body[0].orelse \
            and ast.unparse(body[1]) == "return {f'{self.module_name}.{self.class_name}'}" and iss is Node:
        # only the node's own name is checked (by the standard check); children are plain data
        return dict(mode="standard", walks=False)
    FN_BODIES = (
        ["fn_name = self._get_function_name()", "if self.trusted is True or fn_name in self.trusted:\n    return set()", "return {fn_name}"],
        ["if self.trusted is True or self._get_function_name() in self.trusted:\n    return set()", "return {self._get_function_name()}"],
    )
    if [ast.unparse(b) for b in body] in [list(x) for x in FN_BODIES]:
        # exactly: "the function's name is in the trusted list, or the name is reported" -- nothing else lets a name through
        fn = which_defines(cls, "_get_function_name")
        fsrc = ast.unparse(src_of(fn._get_function_name).body[-1].value)
        if fsrc == "f'{self.module_name}.{self.class_name}'":
            return dict(mode="fnSelf", walks=False)
        if fsrc == "self.children['content']['module_path'] + '.' + self.children['content']['function']":
            return dict(mode="fnContent", walks=False, m=["content", "module_path"], c=["content", "function"])
    return dict(mode="unknown", walks=False, src=src[:200])


def view_facts(cls):
    """what visualize needs to know about a node class"""
    from skops.io._audit import Node
    from skops.io._general import ListNode
    from skops.io._visualize import SKIPPED_TYPES

    fmt_owner = which_defines(cls, "format")
    if fmt_owner is Node:
        fmt = "name"
    else:
        src = ast.unparse(src_of(fmt_owner.format).body[-1])
        if "json-type(" in src:
            fmt = "json"
        elif "bytearray(" in src:
            fmt = "bytearray"
        elif "byte_repr" in src or "arepr.repr" in ast.unparse(src_of(fmt_owner.format)):
            fmt = "bytes"
        else:
            fmt = "unknown"
    iss = which_defines(cls, "is_self_safe")
    if iss is Node:
        self_safe = "check"
    else:
        body = [b for b in src_of(iss.is_self_safe).body if not (isinstance(b, ast.Expr) and isinstance(b.value, ast.Constant))]
        self_safe = "always" if len(body) == 1 and ast.unparse(body[0]) == "return True" else "unknown"
    isf = which_defines(cls, "is_safe")
    if isf is Node:
        is_safe = "audit"
    else:
        body = [b for b in src_of(isf.is_safe).body if not (isinstance(b, ast.Expr) and isinstance(b.value, ast.Constant))]
        is_safe = "always" if len(body) == 1 and ast.unparse(body[0]) == "return True" else "unknown"
    return dict(format=fmt, self_safe=self_safe, is_safe=is_safe, skipped=issubclass(cls, SKIPPED_TYPES),
                is_list_node=issubclass(cls, ListNode))


def collect():
    import skops.io  # noqa: F401  (fills the registry)
    from skops.io._audit import NODE_TYPE_MAPPING
    from skops.io._protocol import PROTOCOL

    kinds = []
    for (loader, proto), cls in sorted(NODE_TYPE_MAPPING.items(), key=lambda kv: (kv[0][0], kv[0][1])):
        try:
            k = summarize_init(cls)
        except Exception as ex:                                  # the executor itself failed: nothing is vouched
            k = dict(cls=f"{cls.__module__}.{cls.__qualname__}", memoize=True, init_effects=["translator error: " + repr(ex)[:200]],
                     trust=dict(mode="unknown"), variants=[], else_raises=False, raises=[], other_attrs=[], names={})
        k["loader"], k["protocol"] = loader, proto
        try:
            k["uses"] = ConstructUses(cls).run()
        except Exception as ex:
            k["uses"] = [dict(u="unknown", src="translator error: " + repr(ex)[:200])]
        k["self_check"] = self_check_mode(cls)
        k["view"] = view_facts(cls)
        kinds.append(k)
    return dict(protocol=PROTOCOL, kinds=kinds)


if __name__ == "__main__":
    sys.path.insert(0, "/repo")
    print(json.dumps(collect(), indent=1, default=str))
