"""C13 — visualize is total and agrees with the audit."""
from __future__ import annotations

import contextlib
import io
import json
import time
import zipfile

from .. import ioarch, iocheck, iogen
from .c08 import zoo

REQUIRED = ["node_walk_steps", "kids_walk_steps", "walk_wellformed", "traverse_steps", "traverse_wellformed",
            "unsafe_marked", "safe_iff_audit_empty", "no_safe_row_hides_unsafe_descendant"]
SHOWS = ("all", "untrusted", "trusted")


def impl_rows(data, T):
    from skops.io import visualize
    from skops.io._visualize import _traverse_tree

    got = {}

    def sink(nodes, show_, **kw):
        rows = list(nodes)
        got["walk"] = rows
        for s in SHOWS:
            got[s] = [n for n, _, _, _ in _traverse_tree(iter(rows), s)]

    visualize(data, trusted=T, sink=sink)
    return got


def rj(n):
    v = n.val
    if v.startswith("json-type("):
        v = "json-type(…)"
    elif v.startswith("bytearray("):
        v = "bytearray(…)"
    elif v.startswith(("b'", 'b"')):
        v = "bytes(…)"
    return dict(level=n.level, key=n.key, val=v, self_safe=bool(n.is_self_safe), safe=bool(n.is_safe))


def unsafe_under(data, T):
    from skops.io._audit import get_tree
    from skops.io._utils import LoadContext

    with zipfile.ZipFile(io.BytesIO(data)) as z:
        schema = json.loads(z.read("schema.json"))
        tree = get_tree(schema, LoadContext(src=z, protocol=schema["protocol"]), trusted=T)
        return set(tree.get_unsafe_set())


_ALLD = None


def all_defaults():
    global _ALLD
    if _ALLD is None:
        _ALLD = set()
        for k in iogen.facts()["kinds"]:
            _ALLD |= set(k["trust"].get("defaults") or [])
            for v in k.get("variants") or []:
                for s in v.get("slots") or []:
                    if isinstance(s.get("child_trust"), list):
                        _ALLD |= set(s["child_trust"])
    return _ALLD


def cycle_family(protocol):
    """archives in which a container A (several kinds, trusted and untrusted names) holds a list B that refers back to A by id,
    and B is referred to again from outside A: shared nodes inside reference cycles"""
    import itertools

    def js(v, i):
        return {"__class__": "str", "__module__": "builtins", "__loader__": "JsonNode", "content": json.dumps(v), "is_json": True, "__id__": i}

    def lst(items, i):
        return {"__class__": "list", "__module__": "builtins", "__loader__": "ListNode", "content": items, "__id__": i}

    def container(kind, names, cells, i, ids):
        m, c = names
        if kind == "objarray":
            return {"__class__": c, "__module__": m, "__loader__": "NdArrayNode", "type": "json", "content": cells, "__id__": i,
                    "shape": {"__class__": "tuple", "__module__": "builtins", "__loader__": "TupleNode", "content": [js(len(cells), next(ids))], "__id__": next(ids)}}
        if kind == "list":
            return {"__class__": c, "__module__": m, "__loader__": "ListNode", "content": cells, "__id__": i}
        if kind == "tuple":
            return {"__class__": c, "__module__": m, "__loader__": "TupleNode", "content": cells, "__id__": i}
        if kind == "set":
            return {"__class__": c, "__module__": m, "__loader__": "SetNode", "content": cells, "__id__": i}
        if kind == "dict":
            return {"__class__": c, "__module__": m, "__loader__": "DictNode", "__id__": i, "content": {f"k{j}": x for j, x in enumerate(cells)},
                    "key_types": lst([], next(ids))}
        return {"__class__": c, "__module__": m, "__loader__": "ObjectNode", "__id__": i,
                "content": {"__class__": "dict", "__module__": "builtins", "__loader__": "DictNode", "__id__": next(ids),
                            "content": {f"a{j}": x for j, x in enumerate(cells)}, "key_types": lst([], next(ids))}}

    out = []
    for kind in ("objarray", "list", "tuple", "set", "dict", "object"):
        for names in (("mylib.arrays", "Frame"), ("numpy", "matrix"), ("builtins", "list"), ("verif_userclasses", "Plain")):
            for order in (0, 1):
                ids = itertools.count(100)
                a_id, b_id = 1, 2
                back = container(kind, names, [], a_id, ids)                 # same id as A: the memoized node, from inside itself
                b = lst([js(7, next(ids)), back] if order == 0 else [back, js("x", next(ids))], b_id)
                a = container(kind, names, [b], a_id, ids)
                b_again = lst([], b_id)
                for root in (lst([a, b_again], 3), lst([lst([a], 4), lst([b_again, js(1, next(ids))], 5)], 6)):
                    schema = dict(root, protocol=protocol, _skops_version="x")
                    out.append((f"{kind}/{names[0]}.{names[1]}/{order}", schema))
    return out


def sentences(got, data, T):
    """the property's sentences on the NodeInfo streams of the implementation"""
    fails = []
    for k in ("walk",) + SHOWS:
        rows = got[k]
        if not rows:
            fails.append(f"empty: the {k} stream has no root row")
            continue
        if rows[0].level != 0:
            fails.append(f"root-level: first row of the {k} stream is at level {rows[0].level}")
        for a, b in zip(rows, rows[1:]):
            if b.level > a.level + 1:
                fails.append(f"level-jump: in the {k} stream a row at level {b.level} follows a row at level {a.level}")
                break
    try:
        bad = unsafe_under(data, T)
    except Exception:
        return fails
    root_bad = bad
    # a name can be default-trusted for one node kind and untrusted for another; rows do not say which kind they are,
    # so the per-row sentences only use names that no kind trusts by default
    bad = {b for b in bad if b not in all_defaults()}
    # a protocol-0 FunctionNode shows (and self-checks) its header name but audits and resolves the name in its content: its row
    # says nothing about the header name, and its own mark may be "unsafe" while the audit has nothing against it (over-warning,
    # which C13 does not forbid)
    shown_not_audited = set()
    try:
        with zipfile.ZipFile(io.BytesIO(data)) as z:
            sch = json.loads(z.read("schema.json"))

        def scan(st):
            if isinstance(st, dict):
                if st.get("__loader__") == "FunctionNode" and isinstance(st.get("content"), dict) and "module_path" in st["content"]:
                    shown_not_audited.add(f"{st.get('__module__')}.{st.get('__class__')}")
                for v in st.values():
                    scan(v)
            elif isinstance(st, list):
                for v in st:
                    scan(v)

        scan(sch)
        bad -= shown_not_audited
    except Exception:
        pass
    rows = got["walk"]
    for i, r in enumerate(rows):
        named = not r.val.startswith(("json-type(", "b'", 'b"', "bytearray("))
        if named and r.val in bad and r.is_self_safe:
            fails.append(f"untrusted-not-marked: row {r.key}: {r.val} displays an untrusted name but is not marked unsafe")
            break
        if r.is_safe:
            j = i + 1
            sub = [r]
            while j < len(rows) and rows[j].level > r.level:
                sub.append(rows[j])
                j += 1
            off = [x for x in sub if (not x.is_self_safe and x.val not in shown_not_audited)
                   or (not x.val.startswith(("json-type(", "b'", 'b"', "bytearray(")) and x.val in bad)]
            if off:
                fails.append(f"false-safe: row {r.key}: {r.val} is marked fully safe but {off[0].key}: {off[0].val} beneath it is untrusted")
                break
    if rows and rows[0].is_safe != (len(root_bad) == 0):
        fails.append(f"root-safe-mismatch: root is_safe={rows[0].is_safe} but the untrusted set under this trust is {sorted(root_bad)[:3]}")
    return fails


def run(ctx):
    t0 = time.time()
    lean_ok = ctx.build(required_theorems=REQUIRED)
    ioarch.install_canaries()
    from skops.io import dumps, get_untrusted_types, visualize

    fx = iogen.facts()
    ofails, mism = [], []
    stats = dict(dump_runs=0, compared=0, cyclic=0, model_err=0)
    samples = []

    # ---- totality on dumps: every object x trusted subsets x show x colours x both sinks -----------------------
    from .. import objgen

    g = objgen.G(ctx.rng)
    generated = [(f"gen{i}", g.value(0, supported=True)[0]) for i in range(ctx.budget(60, 2500))]
    for name, obj in list(zoo()) + generated:
        try:
            data = dumps(obj)
        except Exception:
            continue
        rep = get_untrusted_types(data=data)
        for T in ([], rep, rep[1:], None):
            for show in SHOWS:
                for colors in (True, False):
                    stats["dump_runs"] += 1
                    buf = io.StringIO()
                    try:
                        with contextlib.redirect_stdout(buf):
                            visualize(data, show=show, trusted=T, use_colors=colors)
                    except Exception as ex:
                        ofails.append((f"not-total: visualize(dump of {name}, show={show!r}, trusted={T!r}) raised {type(ex).__name__}: {str(ex)[:80]}",
                                       dict(kind="dump", object=name, repr=repr(obj)[:600], show=show, trusted=T)))
                        break
            try:
                got = impl_rows(data, T)
                for f in sentences(got, data, T):
                    ofails.append((f, dict(kind="dump", object=name, trusted=T)))
            except Exception as ex:
                ofails.append((f"not-total: visualize(dump of {name}) with a custom sink raised {type(ex).__name__}",
                               dict(kind="dump", object=name, trusted=T)))
        if len(ofails) > 6:
            break

    # ---- generated archives: model vs implementation, and the sentences on whatever completes ---------------------
    cases = iocheck.build_cases(ctx, ctx.budget(300, 12000), fx)
    reqs, items = [], []
    for c in cases:
        for T in c.Ts[:3]:
            reqs.append(dict(op="io.visualize", schema=ioarch.enc(c.schema), members=list(c.members), trusted=T or [], fuel=400))
            items.append((c, T))
    mo = ctx.driver.run(reqs)
    # ---- shared nodes inside reference cycles: only the property's sentences apply
    from skops.io._protocol import PROTOCOL as _P

    for label, schema in cycle_family(_P):
        data = ioarch.make_zip(schema, {})
        for T in (None, [], ["mylib.arrays.Frame"], ["numpy.matrix", "verif_userclasses.Plain"]):
            try:
                got = impl_rows(data, T)
            except RecursionError:
                continue
            except Exception:
                continue
            stats["cycle_family"] = stats.get("cycle_family", 0) + 1
            for f in sentences(got, data, T):
                ofails.append((f, dict(kind="archive", schema=schema, members=[], trusted=T, family=label)))
        if len(ofails) > 6:
            break
    # ---- node states in the slots a loader reads as plain JSON (the bounds of a slice): whatever the loader makes of them, the
    # rows must obey the sentences
    def _obj(i, mod="verif_userclasses", cls="Plain"):
        return {"__class__": cls, "__module__": mod, "__loader__": "ObjectNode", "__id__": i,
                "content": {"__class__": "dict", "__module__": "builtins", "__loader__": "DictNode", "__id__": i + 1, "content": {},
                            "key_types": {"__class__": "list", "__module__": "builtins", "__loader__": "ListNode", "__id__": i + 2, "content": []}}}

    def _lst(i, items):
        return {"__class__": "list", "__module__": "builtins", "__loader__": "ListNode", "__id__": i, "content": items}

    bound_values = [_obj(50), _lst(60, [_obj(70)]), {"__class__": "Frame", "__module__": "mylib.arrays", "__loader__": "NdArrayNode", "__id__": 80,
                                                      "type": "json", "content": [], "shape": {"__class__": "tuple", "__module__": "builtins",
                                                                                               "__loader__": "TupleNode", "__id__": 81, "content": []}}]
    for slot in ("start", "stop", "step"):
        for bi, bv in enumerate(bound_values):
            sl = {"__class__": "slice", "__module__": "builtins", "__loader__": "SliceNode", "__id__": 10,
                  "content": dict({"start": None, "stop": 3, "step": None}, **{slot: bv})}
            for label, root in ((f"slice-bound:{slot}:{bi}", sl), (f"slice-bound-in-list:{slot}:{bi}", _lst(11, [sl, _obj(90, cls="WithGetstate")]))):
                schema = dict(root, protocol=_P, _skops_version="0")
                data = ioarch.make_zip(schema, {})
                for T in (None, [], ["verif_userclasses.Plain"], ["verif_userclasses.WithGetstate"]):
                    try:
                        got = impl_rows(data, T)
                    except Exception:
                        continue
                    stats["raw_slot_family"] = stats.get("raw_slot_family", 0) + 1
                    for f in sentences(got, data, T):
                        ofails.append((f, dict(kind="archive", schema=schema, members=[], trusted=T, family=label)))
        if len(ofails) > 6:
            break
    for (c, T), m in zip(items, mo):
        try:
            got, err = impl_rows(c.data, T), None
        except RecursionError:
            got, err = None, "RecursionError"
        except Exception as ex:
            got, err = None, type(ex).__name__
        if got is not None:
            for f in sentences(got, c.data, T):
                ofails.append((f, dict(kind="archive", schema=c.schema, members=sorted(c.members), trusted=T)))
            if len(samples) < 2:
                samples.append([rj(n) for n in got["walk"][:6]])
        if m.get("cyclic"):
            stats["cyclic"] += 1
            continue
        if m["r"] == "err":
            stats["model_err"] += 1
            if err is None:
                mism.append(dict(what="model says visualize raises, the implementation completed", schema=c.schema, T=T, model=m))
            continue
        if err is not None:
            mism.append(dict(what=f"implementation raised {err}, model completed", schema=c.schema, T=T))
            continue
        stats["compared"] += 1
        for k in ("walk",) + SHOWS:
            a = [rj(n) for n in got[k]]
            if a != m[k]:
                i = next((i for i, (x, y) in enumerate(zip(a, m[k])) if x != y), min(len(a), len(m[k])))
                mism.append(dict(what=f"{k} stream differs at row {i}: implementation {a[i] if i < len(a) else None}, model {m[k][i] if i < len(m[k]) else None}",
                                 schema=c.schema, T=T))
                break
        if len(ofails) > 8:
            break

    iocheck.conclude(ctx, lean_ok, mism, ofails, "io.visualize/C13")
    ctx.coverage.update(
        evaluations=stats["dump_runs"] + len(items), distinct_nontrivial=stats["compared"] + stats["dump_runs"] // 6,
        rule="zoo dumps x 4 trusted lists x 3 show modes x colours on/off through the default sink (must complete) and a custom sink; "
             "generated adversarial archives x 3 trusted lists compared row by row with the model (cyclic trees only checked against the sentences)",
        samples=samples, traces_validated_against_impl=stats["compared"], **stats,
        correspondence_mismatches=len(mism), wall=round(time.time() - t0, 1))
    ctx.assumptions += ["the `is_last` flag of NodeInfo (drawing of the fallback printer) and payload-dependent labels (json / bytes) are not compared",
                        "rich is not installed: the default sink runs its fallback printer"]


def replay(rep):
    ioarch.install_canaries()
    print(json.dumps({k: v for k, v in rep.items() if k != "schema"}, indent=1, default=str)[:1500])
    if "schema" in rep:
        data = ioarch.make_zip(rep["schema"], {m: b"garbage" for m in rep.get("members", [])})
        try:
            got = impl_rows(data, rep.get("trusted"))
        except Exception as ex:
            print("visualize raised", type(ex).__name__, ex)
            return 1
        fails = sentences(got, data, rep.get("trusted"))
        for f in fails:
            print("ORACLE FAILURE:", f)
        return 1 if fails else 0
    return 1
