"""C16 — `skops update` upgrades old archives without ever endangering the original."""
from __future__ import annotations

import io
import json
import os
import time
import zipfile
from pathlib import Path

from .. import fscheck, ioarch, objgen, valuecheck
from ..common import load_findings
from ..compare import same
from .c08 import downgrade, zoo

REQUIRED = ["skeleton_inner", "skeleton_main", "decision_untouched", "both_flags_error", "rewritten", "input_untouched", "failed_dump_untouched", "crash_safe",
            "updateF_none", "io_fault_safe"]
# raw trace event -> operation number of the model's run with one chunk (mkdir, create, append, replace, rmtree)
FAULT_OP = {"os.mkdir": 0, "open-w": 1, "midwrite": 2, "os.rename": 3, "shutil.rmtree": 4}

OUTPUTS = ["none", "bare", "nested", "missingdir", "absolute", "same-as-input", "dotdot"]
OLD, BYSTANDER = b"previous content of the destination", b"bystander"


def archive_for(obj, proto, cur):
    from skops.io import dumps

    data = dumps(obj)
    if proto == cur:
        return data
    schema, members, _ = valuecheck.archive_parts(data)
    if proto < cur:
        schema, _ = downgrade(schema, proto)
    else:
        schema = dict(schema, protocol=proto)
    return ioarch.make_zip(schema, members)


def input_name(cfg):
    return cfg.get("input_name", "in.skops")


def output_arg(kind, sb, inp="in.skops"):
    """(CLI value or None, real destination path or None)"""
    w = sb.root / "w"
    return {
        "none": (None, None),
        "bare": ("out.skops", w / "out.skops"),
        "nested": ("sub/out.skops", w / "sub" / "out.skops"),
        "missingdir": ("nodir/out.skops", w / "nodir" / "out.skops"),
        "absolute": (str(sb.root / "abs" / "out.skops"), sb.root / "abs" / "out.skops"),
        "same-as-input": (inp, w / inp),
        "dotdot": ("sub/../out2.skops", w / "out2.skops"),
    }[kind]


def setup(sb, data, cfg):
    w = sb.root / "w"
    inp = input_name(cfg)
    (w / inp).write_bytes(data)
    (w / "bystander.txt").write_bytes(BYSTANDER)
    (w / "sub" / "bystander.bin").write_bytes(BYSTANDER)
    arg, dest = output_arg(cfg["output"], sb, inp)
    if cfg["inplace"] and arg is None:
        dest = w / inp
    if cfg["dest_exists"] and dest is not None and dest != w / inp and dest.parent.is_dir():
        dest.write_bytes(OLD)
    # a destination that has a second name (hard link): the other name is either the input itself or a bystander
    hl = cfg.get("hardlink")
    if hl and dest is not None and dest.parent.is_dir() and dest != w / inp:
        try:
            if dest.exists():
                dest.unlink()
            if hl == "to-input":
                os.link(w / inp, dest)
            else:
                (w / "alias-of-destination.skops").write_bytes(OLD)
                os.link(w / "alias-of-destination.skops", dest)
        except OSError:
            pass
    # files whose names look like somebody's temporary files next to the destination are bystanders too
    if dest is not None and dest.parent.is_dir():
        for suffix in (".tmp", ".bak", "~"):
            p = dest.parent / (dest.name + suffix)
            if not p.exists():
                p.write_bytes(BYSTANDER)
    return arg, dest


def cli_call(arg, inplace, verbose=0, inp="in.skops"):
    def call():
        from skops.cli.entrypoint import main_cli

        argv = ["update", inp]
        if arg is not None:
            argv += ["-o", arg]
        if inplace:
            argv += ["--inplace"]
        argv += ["-v"] * verbose
        main_cli(argv)

    return call


def classify(content, old, reference, cur):
    """what a file holds: 'absent' | 'old' | 'new' (a complete current-protocol archive equal to the reference) | other"""
    from skops.io import get_untrusted_types, loads

    if content is None:
        return "absent"
    if content == old:
        return "old"
    try:
        with zipfile.ZipFile(io.BytesIO(content)) as z:
            bad = z.testzip()
            schema = json.loads(z.read("schema.json"))
        if bad is not None:
            return "corrupt-member"
        if schema.get("protocol") != cur:
            return f"archive-protocol-{schema.get('protocol')}"
        obj = loads(content, trusted=get_untrusted_types(data=content))
    except Exception as ex:
        return f"partial-or-invalid({type(ex).__name__}, {len(content)} bytes)"
    d = same(reference, obj)
    return "new" if d is None else f"different-object({d})"


def model_request(sb, cfg, arg, fresh, before, prog="update", crash=False):
    def path_json(a):
        if a is None:
            return None
        p = Path(a)
        return dict(abs=p.is_absolute(), parts=[x for x in p.parts if x != "/"] if not p.is_absolute() else sb.rel(str(p)))

    files = []
    for p, c in before["files"].items():
        files.append([list(p), [1] if c == OLD else [3] if p[-1] == input_name(cfg) else [4]])
    return dict(op="fs.run", prog=prog, cwd=["w"], input=dict(abs=False, parts=[input_name(cfg)]), output=path_json(arg),
                inplace=cfg["inplace"], proto=cfg["proto"], cur=cfg["cur"], loadable=cfg.get("loadable", True), dumpable=True,
                chunks=[[2]], fresh=fresh or "tmpdir", sysTmp=sb.rel(str(sb.systmp)), sysTmpSameFs=sb.other is None,
                dirs=[list(d) for d in before["dirs"]], files=files, crashStates=crash)


def evaluate(sb, cfg, before, after, res, code, dest, reference, in_bytes):
    """the sentences of C16 for a complete run -> list of failure messages"""
    fails = []
    cur = cfg["cur"]
    w_in = tuple(sb.rel(str(sb.root / "w" / input_name(cfg))))
    dkey = tuple(sb.rel(str(dest))) if dest is not None else None
    both = cfg["inplace"] and cfg["output"] != "none"
    # an input that cannot be loaded at all (e.g. the recorded C08 finding: protocol-0 Generator archives) is outside "an archive
    # older than the current protocol is rewritten": the CLI must fail and leave everything untouched
    writes = cfg["proto"] < cur and dest is not None and not both and cfg.get("loadable", True)
    outcome = (res or {}).get("outcome")
    if res is None or "child_error" in (res or {}):
        return [f"harness: child failed ({code}): {(res or {}).get('child_error', '')[-300:]}"]
    if both and outcome[0] != "raised":
        fails.append(f"both-flags-no-error: output and --inplace together ended with {outcome}")
    changed = {k for k in set(before["files"]) | set(after["files"]) if before["files"].get(k) != after["files"].get(k)}
    new_dirs = set(after["dirs"]) ^ set(before["dirs"])
    if not writes:
        if changed or new_dirs:
            fails.append(f"untouched-violated: no update was due (proto {cfg['proto']} vs {cur}, output={cfg['output']}, "
                         f"inplace={cfg['inplace']}) but these paths changed: {sorted(changed)[:3]} {sorted(new_dirs)[:3]}")
        return fails
    dest_ok_dir = dest.parent.is_dir()
    if not dest_ok_dir:
        # the destination directory does not exist: nothing can be written; nothing else may change either
        if changed or new_dirs:
            fails.append(f"failed-update-leaves-traces: destination directory missing, yet changed: {sorted(changed)[:3]} {sorted(new_dirs)[:3]}")
        return fails
    if outcome[0] != "ok":
        fails.append(f"update-fails: an older archive (protocol {cfg['proto']}) with destination {cfg['output']!r} "
                     f"(inplace={cfg['inplace']}) was not rewritten: {outcome}")
        if changed - {dkey} or new_dirs:
            fails.append(f"failed-update-leaves-traces: {sorted(changed)[:3]} {sorted(new_dirs)[:3]}")
        return fails
    cls = classify(after["files"].get(dkey), before["files"].get(dkey) if dkey != w_in else None, reference, cur)
    if cls != "new":
        fails.append(f"destination-not-updated: after a successful run the destination holds: {cls}")
    if dkey != w_in and after["files"].get(w_in) != in_bytes:
        fails.append("input-altered: the input file changed although it is not the destination")
    residue = (changed - {dkey}) | new_dirs
    if residue:
        fails.append(f"residue: paths other than the destination changed or remained: {sorted(residue)[:4]}")
    return fails


def run_case(ctx, obj, cfg, crash_points=True):
    """one configuration: a complete run (oracle + model trace), then a kill at every crash point"""
    from skops.io import get_untrusted_types, loads

    out = dict(fails=[], mism=[], evaluations=0, crash_evals=0, ordinals=0)
    data = archive_for(obj, cfg["proto"], cfg["cur"])
    try:
        reference = loads(data, trusted=get_untrusted_types(data=data))
        loadable = True
    except Exception:
        reference, loadable = None, False
    cfg = dict(cfg, loadable=loadable)
    sb = fscheck.Sandbox(other_fs=cfg["other_fs"])
    try:
        arg, dest = setup(sb, data, cfg)
        before = sb.snapshot()
        code, res = fscheck.traced_call(sb, cli_call(arg, cfg["inplace"], inp=input_name(cfg)), sb.root / "w", sb.systmp, capture_logs=True)
        after = sb.snapshot()
        out["evaluations"] += 1
        rep = dict(kind="update", object=cfg["object"], config={k: v for k, v in cfg.items() if k != "object"}, argv_output=arg)
        for f in evaluate(sb, cfg, before, after, res, code, dest, reference, data):
            out["fails"].append((f, rep))
        events = fscheck.norm_events((res or {}).get("events", []))
        # ---- T2: the model's trace and final state for the same configuration
        fresh = next((e[1][-1] for e in events if e[0] == "mkdir"), None)
        if cfg["output"] != "dotdot":
            m = ctx.driver.run([model_request(sb, cfg, arg, fresh, before)])[0]
            mt = fscheck.model_trace(m["trace"])
            failed_attempt = (res or {}).get("outcome", ["?"])[0] == "raised" and mt == events[:-1]   # the audit event precedes the failing call
            if mt != events and not failed_attempt:
                out["mism"].append(dict(what="file-operation trace differs from the model's", config=rep["config"], impl=events, model=mt))
            else:
                real_sig = (res or {}).get("outcome", ["?"])[0]
                msig = m["sig"]
                agree = (real_sig == "ok") == (msig in ("next", "ret"))
                if not agree:
                    out["mism"].append(dict(what=f"outcome differs from the model's: {real_sig} vs {msig}", config=rep["config"]))
                mfiles = {tuple(p) for p, _ in m["fs"]["files"]}
                if mfiles != set(after["files"]):
                    out["mism"].append(dict(what="final set of files differs from the model's", config=rep["config"],
                                            impl=sorted(set(after["files"]) - mfiles)[:3], model=sorted(mfiles - set(after["files"]))[:3]))
        # ---- crash points
        n_points = len((res or {}).get("events", []))
        out["ordinals"] = n_points
        if crash_points and n_points and dest is not None:
            dkey = tuple(sb.rel(str(dest)))
            w_in = tuple(sb.rel(str(sb.root / "w" / input_name(cfg))))
            for n in range(1, n_points + 1):
                sb2 = fscheck.Sandbox(other_fs=cfg["other_fs"])
                try:
                    arg2, dest2 = setup(sb2, data, cfg)
                    b2 = sb2.snapshot()
                    code2, _ = fscheck.traced_call(sb2, cli_call(arg2, cfg["inplace"], inp=input_name(cfg)), sb2.root / "w", sb2.systmp, crash_at=n, capture_logs=True)
                    a2 = sb2.snapshot()
                    out["crash_evals"] += 1
                    if code2 != fscheck.CRASH_EXIT:
                        continue
                    old = b2["files"].get(dkey)
                    cls = classify(a2["files"].get(dkey), old, reference, cfg["cur"])
                    okay = {"new", "old"} if old is not None else {"new", "absent"}
                    if dkey == w_in:
                        okay = {"new", "old"}
                    if cls not in okay:
                        out["fails"].append((f"crash-partial-destination: killed at file operation {n} of {n_points} "
                                             f"({(res['events'][n - 1])[0]}): the destination holds {cls}",
                                             dict(rep, crash_at=n, event=res["events"][n - 1])))
                        break
                    if dkey != w_in and a2["files"].get(w_in) != data:
                        out["fails"].append((f"crash-input-altered: killed at operation {n}: the input changed", dict(rep, crash_at=n)))
                        break
                finally:
                    sb2.cleanup()
            # ---- the same operations failing with an I/O error (disk full) instead of the process dying: the error unwinds
            # through whatever publishes the result, so the destination must still be complete (old or new)
            for n in range(1, n_points + 1):
                ev = res["events"][n - 1]
                if ev[0] == "preclose":
                    continue
                sb2 = fscheck.Sandbox(other_fs=cfg["other_fs"])
                try:
                    arg2, dest2 = setup(sb2, data, cfg)
                    b2 = sb2.snapshot()
                    code2, res2 = fscheck.traced_call(sb2, cli_call(arg2, cfg["inplace"], inp=input_name(cfg)), sb2.root / "w", sb2.systmp, fail_at=n, capture_logs=True)
                    a2 = sb2.snapshot()
                    out["fault_evals"] = out.get("fault_evals", 0) + 1
                    if code2 != 0 or res2 is None:
                        continue
                    old = b2["files"].get(dkey)
                    cls = classify(a2["files"].get(dkey), old, reference, cfg["cur"])
                    okay = {"new", "old"} if old is not None else {"new", "absent"}
                    if dkey == w_in:
                        okay = {"new", "old"}
                    frep = dict(rep, fail_at=n, event=ev, outcome=res2.get("outcome"))
                    # ---- T2 for the fault interpreter (Fs/Fault.lean, theorem io_fault_safe): same fault, same final tree
                    k = FAULT_OP.get(ev[0])
                    if k is not None and cfg["output"] != "dotdot" and not out["mism"]:
                        ev2 = fscheck.norm_events(res2.get("events", []))
                        fresh2 = next((e[1][-1] for e in ev2 if e[0] == "mkdir"), None)
                        m2 = ctx.driver.run([dict(model_request(sb2, cfg, arg2, fresh2, b2), fault=k)])[0]
                        out["fault_model_evals"] = out.get("fault_model_evals", 0) + 1
                        mfiles2 = {tuple(p_) for p_, _ in m2["fs"]["files"]}
                        mdirs2 = {tuple(d_) for d_ in m2["fs"]["dirs"]}
                        raised_m, raised_i = m2["sig"].startswith("raised"), res2.get("outcome", ["?"])[0] == "raised"
                        if mfiles2 != set(a2["files"]) or mdirs2 != set(a2["dirs"]) or raised_m != raised_i:
                            out["mism"].append(dict(what=f"with file operation {n} ({ev[0]}; model operation {k}) failing, the final tree or outcome "
                                                         f"differs from the fault model's", config=rep["config"],
                                                    impl=dict(outcome=res2.get("outcome"), only_impl=sorted(set(a2["files"]) - mfiles2)[:3],
                                                              dirs_only_impl=sorted(set(a2["dirs"]) - mdirs2)[:3]),
                                                    model=dict(sig=m2["sig"], only_model=sorted(mfiles2 - set(a2["files"]))[:3],
                                                               dirs_only_model=sorted(mdirs2 - set(a2["dirs"]))[:3])))
                    if cls not in okay:
                        out["fails"].append((f"fault-partial-destination: file operation {n} of {n_points} ({ev[0]}) failed with ENOSPC: "
                                             f"afterwards the destination holds {cls}", frep))
                        break
                    if dkey != w_in and a2["files"].get(w_in) != data:
                        out["fails"].append((f"fault-input-altered: operation {n} ({ev[0]}) failed with ENOSPC: the input changed", frep))
                        break
                    if ev[0] in ("open-w", "midwrite", "os.rename", "os.mkdir"):
                        residue = {k for k in set(a2["files"]) | set(b2["files"]) if a2["files"].get(k) != b2["files"].get(k)} - {dkey}
                        residue |= set(a2["dirs"]) - set(b2["dirs"])
                        if residue:
                            out["fails"].append((f"fault-residue: operation {n} ({ev[0]}) failed with ENOSPC: paths other than the destination "
                                                 f"changed or remained: {sorted(residue)[:4]}", frep))
                            break
                finally:
                    sb2.cleanup()
    finally:
        sb.cleanup()
    return out


def configs(ctx, cur, n_random):
    base = []
    # the full cross product over the small axes for one object, then random draws
    for proto in (0, 1, cur, cur + 1):
        for output in OUTPUTS:
            for inplace in (False, True):
                base.append(dict(proto=proto, output=output, inplace=inplace, dest_exists=True, other_fs=False))
    r = ctx.rng
    extra = []
    for _ in range(n_random):
        extra.append(dict(proto=r.choice([0, 1, 0, 1, cur, cur + 1]), output=r.choice(OUTPUTS), inplace=r.random() < 0.3,
                          dest_exists=r.random() < 0.6, other_fs=r.random() < 0.5))
    return base, extra


def run(ctx):
    t0 = time.time()
    lean_ok = ctx.build(required_theorems=REQUIRED)
    import skops.cli.entrypoint  # noqa: F401  (imported before any child changes directory)
    import skops.cli._update  # noqa: F401
    from skops.io._protocol import PROTOCOL as cur

    g = objgen.G(ctx.rng)
    objects = list(zoo())
    from skops.io import dumps as _dumps

    for i in range(ctx.budget(6, 200)):
        v, _ = g.value(0, supported=True)
        try:
            _dumps(v)                      # only objects that can be dumped make an input archive
        except Exception:
            continue
        objects.append((f"gen{i}", v))
    base, extra = configs(ctx, cur, ctx.budget(24, 1500))
    ofails, mism = [], []
    stats = dict(evaluations=0, crash_evals=0, fault_evals=0, configs=0, max_ordinals=0)
    hist = {}
    plan = []
    for c in base:
        plan.append((("dict", objects[0][1]), c, c["proto"] < cur))          # every combination once, crash sweep where it writes
    for i, c in enumerate(extra):
        plan.append((objects[(i + 1) % len(objects)], c, True))
    # each of the cross-file-system configurations at least once
    for output in ("bare", "nested", "absolute"):
        plan.append((objects[1], dict(proto=0, output=output, inplace=False, dest_exists=True, other_fs=True), True))
    plan.append((objects[2], dict(proto=1, output="none", inplace=True, dest_exists=False, other_fs=True), True))
    # destinations that are hard links (of the input / of a bystander)
    for hl in ("to-input", "to-other"):
        for output in ("bare", "nested"):
            plan.append((objects[0], dict(proto=0, output=output, inplace=False, dest_exists=True, other_fs=False, hardlink=hl), True))
    # inputs whose own name looks like a temporary name of the destination
    for nm, output in (("out.skops.tmp", "bare"), ("out.skops.bak", "bare"), ("tmpdir", "bare"), ("out.skops~", "bare")):
        plan.append((objects[0], dict(proto=0, output=output, inplace=False, dest_exists=True, other_fs=False, input_name=nm), True))
    for (name, obj), c, sweep in plan:
        cfg = dict(c, cur=cur, object=name)
        try:
            r = run_case(ctx, obj, cfg, crash_points=sweep)
        except Exception as ex:
            ofails.append((f"harness: {type(ex).__name__}: {ex}", dict(kind="update", config=str(cfg))))
            break
        stats["configs"] += 1
        stats["evaluations"] += r["evaluations"]
        stats["crash_evals"] += r["crash_evals"]
        stats["fault_evals"] += r.get("fault_evals", 0)
        stats["fault_model_evals"] = stats.get("fault_model_evals", 0) + r.get("fault_model_evals", 0)
        stats["max_ordinals"] = max(stats["max_ordinals"], r["ordinals"])
        key = f"proto{'<' if c['proto'] < cur else '>='}cur/{c['output']}/{'inplace' if c['inplace'] else 'copy'}/{'otherfs' if c['other_fs'] else 'samefs'}"
        hist[key] = hist.get(key, 0) + 1
        ofails += r["fails"]
        mism += r["mism"]
        if len(ofails) > 4:
            break
    from ..iocheck import conclude

    conclude(ctx, lean_ok, mism, ofails, "update/C16")
    ctx.coverage.update(
        evaluations=stats["evaluations"] + stats["crash_evals"], distinct_nontrivial=len(hist),
        rule="real CLI (`main_cli(['update', ...])`) in a forked child inside a scratch tree: archive protocol {0,1,cur,cur+1} x output "
             "{none, bare, nested relative, missing directory, absolute, same as input, with ..} x inplace x destination pre-exists x "
             "TMPDIR on the same / another file system; complete run: tree before/after, destination loads equal, residue; "
             "then one killed run (os._exit before the operation; for writes also after the first half of the data) per crash point; "
             "model: op trace, outcome class and final file set of `fs.run update` for the same configuration",
        samples=[dict(config=k, runs=v) for k, v in sorted(hist.items())[:4]], config_histogram=hist,
        complete_runs=stats["evaluations"], killed_runs=stats["crash_evals"], runs_with_injected_io_error=stats["fault_evals"], fault_runs_compared_with_model=stats.get("fault_model_evals", 0), max_crash_points_per_run=stats["max_ordinals"],
        other_filesystem=fscheck.other_fs_dir(), correspondence_mismatches=len(mism), wall=round(time.time() - t0, 1))
    ctx.assumptions += [
        "paths with `.`/`..` components and symlinks are exercised on the implementation only (the model resolves paths literally)",
        "a kill is os._exit from an audit hook just before a file operation, or between the two halves of a write; durability across power loss is out of scope",
        "os.replace within one directory tree is atomic (POSIX rename contract)",
        "mkdtemp picks a name different from the destination's (model hypothesis hfreshName)",
    ]


def replay(rep):
    print(json.dumps(rep, indent=1, default=str)[:3000])
    return 1
