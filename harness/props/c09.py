"""C09 — The model card is an ordered section tree with stable addressing."""
from __future__ import annotations

from .. import card, cardcheck
from ..cardcheck import spec_split

REQUIRED = ["split_spec", "add_refines", "select_add_same", "add_kids", "delete_fails_iff", "delete_refines",
            "errors_change_nothing", "empty_name_keyError", "select_exact", "chained_select", "wf_history",
            "history_refines", "step_add_is_edits", "step_delete_is_edit"]

WEIGHTS = dict(add=34, add_plot=4, add_table=4, add_metrics=3, add_hyperparams=1, select=18, select_chain=8,
               delete=12, delete_list=5, set_visible=2, set_folded=2, render=1, toc=6, save=0)


def toc_struct(s):
    out = []
    for line in s.split("\n") if s else []:
        body = line.lstrip(" ")
        out.append(((len(line) - len(body)) // 2, body[2:] if body.startswith("- ") else body))
    return out


def view(op, o):
    """what C09 compares between model and implementation: tree structure and addressing"""
    name = op["op"]
    if name in ("card.render", "card.save"):
        return None                                    # exact text is C10's business
    if o.get("r") == "sec":
        return ("sec", o["title"], o["content"], tuple(o["keys"]), o["kind"])
    if name == "card.toc" and o.get("r") == "text":
        return ("toc", tuple(toc_struct(o["s"])))
    return (o.get("r"), o.get("e"))


def by_path(snap):
    return {p: tuple(rest) for p, *rest in snap}


def oracle(c, op, out, before, after, metrics_before):
    """C09's sentences evaluated on the implementation (before/after are DFS snapshots)"""
    name = op["op"][5:]
    fails = []
    b, a = by_path(before), by_path(after)
    order_b, order_a = [p for p, *_ in before], [p for p, *_ in after]

    def unchanged_except(paths_changed):
        for p, v in b.items():
            if p in paths_changed:
                continue
            if a.get(p) != v:
                fails.append(f"frame: section {p!r} changed or vanished by {name}")
                return
        # relative order of surviving sections is kept
        keep = [p for p in order_b if p in a]
        if [p for p in order_a if p in b] != keep:
            fails.append(f"order: existing sections were reordered by {name}")

    if name in ("select", "select_chain", "toc", "render", "save") or out.get("r") == "err" and name in (
            "delete", "delete_list", "set_visible", "set_folded"):
        if before != after:
            fails.append(f"readonly: {name} (outcome {out.get('r')}/{out.get('e')}) modified the card")

    if name == "add" and out.get("r") == "ok":
        touched = set()
        for key, content in op["items"]:
            parts = tuple(spec_split(key))
            for i in range(1, len(parts) + 1):
                touched.add(parts[:i])
        for key, content in op["items"]:
            parts = tuple(spec_split(key))
            # later items of the same call may overwrite/extend; check the last writer of each path
            last = [k for k, _ in op["items"] if tuple(spec_split(k)) == parts][-1]
            if last != key:
                continue
            got = a.get(parts)
            if got is None:
                fails.append(f"add-missing: add({key!r}) did not create {parts!r}")
                continue
            want_content = dict(op["items"])[key]
            if got[0] != parts[-1] or got[1] != want_content:
                fails.append(f"add-content: add({key!r}) stored title/content {got[0]!r}/{got[1]!r}")
            elif got[2] != "text":
                fails.append(f"add-replaces: add({key!r}, <text>) left a {got[2]} section in place: what select returns is not what was last added")
            # new ancestors have empty content, existing ones are kept
            for i in range(1, len(parts)):
                anc = parts[:i]
                if any(tuple(spec_split(k)) == anc for k, _ in op["items"]):
                    continue
                if anc in b:
                    if a[anc][:2] != b[anc][:2]:
                        fails.append(f"add-ancestor: existing ancestor {anc!r} changed")
                elif a.get(anc, (None, None))[:2] != (anc[-1], ""):
                    fails.append(f"add-ancestor: created ancestor {anc!r} is not empty")
            # subsections of an overwritten section are kept
            for p in b:
                if len(p) > len(parts) and p[: len(parts)] == parts and p not in a:
                    fails.append(f"add-children: overwriting {parts!r} dropped subsection {p!r}")
        unchanged_except(touched)
        # position: every path that existed keeps its rank among previously existing siblings;
        # new paths come after all previously existing siblings
        sib_b = {}
        for p in order_b:
            sib_b.setdefault(p[:-1], []).append(p[-1])
        sib_a = {}
        for p in order_a:
            sib_a.setdefault(p[:-1], []).append(p[-1])
        for parent, olds in sib_b.items():
            news = sib_a.get(parent)
            if news is None:
                continue
            if news[: len(olds)] != olds:
                fails.append(f"position: keys under {parent!r} were {olds!r}, now {news!r}")

    if name in ("delete", "delete_list"):
        if name == "delete":
            parts = tuple(spec_split(op["key"])) if op["key"] else ()
            empty = (not op["key"]) or parts[-1] == ""
        else:
            parts = tuple(op["names"])
            empty = (not parts) or parts[-1] == ""
        exists = parts in b
        if out.get("r") == "ok":
            if not exists:
                fails.append(f"delete-missing-ok: delete of missing {parts!r} did not raise")
            for p in a:
                if p[: len(parts)] == parts:
                    fails.append(f"delete-subtree: {p!r} survived delete of {parts!r}")
                    break
            for p, v in b.items():
                if p[: len(parts)] != parts and a.get(p) != v:
                    fails.append(f"delete-frame: unrelated section {p!r} changed")
                    break
        else:
            if out.get("e") != "KeyError":
                fails.append(f"delete-exc: delete raised {out.get('e')} instead of KeyError")
            if exists and not empty and all(parts):
                fails.append(f"delete-existing-raises: delete of existing {parts!r} raised")
        if name == "delete" and op["key"] and any(p == "" for p in parts) and out.get("r") == "ok":
            fails.append(f"empty-part-accepted: delete({op['key']!r}) has an empty name part and did not raise")

    if name == "select":
        key = op["key"]
        parts = tuple(spec_split(key)) if key else ()
        if out.get("r") == "sec":
            if parts not in b:
                fails.append(f"select-missing-ok: select({key!r}) returned a section that does not exist")
            else:
                want = b[parts]
                kids = [p[-1] for p in order_b if p[:-1] == parts]
                if (out["title"], out["content"]) != (want[0], want[1]) or out["keys"] != kids:
                    fails.append(f"select-wrong: select({key!r}) returned {out['title']!r}/{out['content']!r}")
            if any(p == "" for p in parts):
                fails.append(f"empty-part-accepted: select({key!r}) has an empty name part and did not raise")
        else:
            if out.get("e") != "KeyError":
                fails.append(f"select-exc: select raised {out.get('e')} instead of KeyError")
            if parts in b and all(parts):
                fails.append(f"select-existing-raises: select({key!r}) raised although the section exists")

    if name == "select_chain":
        parts = []
        bad = False
        for k in op["keys"]:
            ps = spec_split(k) if k else [""]
            if not k or any(p == "" for p in ps):
                bad = True
            parts += ps
        parts = tuple(parts)
        if out.get("r") == "sec":
            if parts not in b:
                fails.append(f"chain-missing-ok: chained select {op['keys']!r} returned a non-existing section")
            elif (out["title"], out["content"]) != (b[parts][0], b[parts][1]):
                fails.append(f"chain-wrong: chained select {op['keys']!r} returned the wrong section")
        elif parts in b and not bad:
            fails.append(f"chain-existing-raises: chained select {op['keys']!r} raised although the section exists")

    if name in ("add_plot", "add_table", "add_metrics", "add_hyperparams") and out.get("r") == "ok":
        if name in ("add_metrics", "add_hyperparams"):
            keys = [op["section"]]
        else:
            keys = [k for k, _ in op["items"]]
        touched = set()
        for key in keys:
            parts = tuple(spec_split(key))
            for i in range(1, len(parts) + 1):
                touched.add(parts[:i])
            if parts not in a:
                fails.append(f"builder-missing: {name}({key!r}) did not create {parts!r}")
            elif a[parts][0] != parts[-1]:
                fails.append(f"builder-title: {name}({key!r}) placed a section titled {a[parts][0]!r} at {parts!r} "
                             f"(the title of a section is the last component of its path)")
        unchanged_except(touched)
    return fails


def split_stream(ctx):
    """`split_subsection_names` vs the Lean `split` vs the property's sentence, and the whitespace set"""
    from skops.card._model_card import split_subsection_names

    rng = ctx.rng
    n = ctx.budget(3000, 100000)
    alphabet = ["a", "b", " ", "/", "\\", "\t", "\x1f", "é", "\n", " ", "x", "\\/", "/ ", " /"]
    keys = ["", "/", "\\/", "\\/a", "a\\/", " \\/ ", "a/\tb", "a\x1fb", "\\\\/", "\\//", "//", " / / "]
    for _ in range(n):
        keys.append("".join(rng.choice(alphabet) for _ in range(rng.randint(0, 9))))
    outs = ctx.driver.run([dict(op="split", key=k) for k in keys])
    mism, ofails = [], []
    for k, o in zip(keys, outs):
        impl = split_subsection_names(k)
        if impl != o["v"]:
            mism.append(dict(history=[dict(op="split", key=k)], index=0, impl=impl, model=o["v"]))
        if impl != spec_split(k):
            ofails.append(([dict(op="split", key=k)], 0,
                           f"split-spec: split_subsection_names({k!r}) = {impl!r}, the property says {spec_split(k)!r}"))
    ws_model = set(ctx.driver.run([dict(op="ws")])[0]["v"])
    ws_impl = {i for i in range(0x110000) if not (0xD800 <= i <= 0xDFFF) and chr(i).isspace()}
    if ws_model != ws_impl:
        mism.append(dict(history=[dict(op="ws")], index=0, impl=sorted(ws_impl ^ ws_model), model="whitespace set differs"))
    return dict(evaluations=len(keys) + 0x110000, mismatches=mism[:3], oracle_fails=ofails[:3],
                whitespace_codepoints=len(ws_impl))


def split_oracle_in_runner(runner_run):
    return runner_run


def _add(key, text="t"):
    return dict(op="card.add", folded=False, items=[[key, text]])


_NEW, _RENDER, _TOC = dict(op="card.new"), dict(op="card.render"), dict(op="card.toc")
# an ancestor is deleted and a path below it is used again: everything on the way has to be created afresh
SCENARIOS = [
    [_NEW, _add("Data/Splits/Train"), dict(op="card.delete", key="Data"), _add("Data/Splits/Test"), dict(op="card.select", key="Data/Splits/Test"),
     dict(op="card.select", key="Data"), _RENDER, _TOC],
    [_NEW, _add("Data/Splits/Train"), dict(op="card.delete_list", names=["Data"]), _add("Data/Splits/Test"),
     dict(op="card.select_chain", keys=["Data", "Splits", "Test"]), _TOC],
    [_NEW, _add("P/Q/R/S"), dict(op="card.delete", key="P/Q"), dict(op="card.add_table", description=None, folded=False, as_df=False,
                                                                    items=[["P/Q/R/T", [["a", [1]]]]]), dict(op="card.select", key="P/Q/R/T"), _RENDER],
    [_NEW, _add("M/N/O"), _add("M/N/P"), dict(op="card.delete", key="M"), _add("M/N/P"), dict(op="card.select", key="M/N/P"), dict(op="card.select", key="M/N/O")],
    # a literal-slash title next to the same spelling used as a nested address
    [_NEW, _add("Metrics\\/F1", "literal"), _add("Metrics/F1", "nested"), dict(op="card.select", key="Metrics/F1"), dict(op="card.select", key="Metrics\\/F1"),
     dict(op="card.select_chain", keys=["Metrics", "F1"])],
    [_NEW, _add("Data\\/Splits", "literal"), dict(op="card.select", key="Data/Splits")],
    [_NEW, _add("Eval/ROC\\/AUC", "literal"), _add("Eval/ROC/AUC", "nested"), dict(op="card.select_chain", keys=["Eval", "ROC/AUC"]),
     dict(op="card.select_chain", keys=["Eval", "ROC\\/AUC"])],
]


def run(ctx):
    cardcheck.run_card_property(
        ctx, area="card.tree", required=REQUIRED, weights=WEIGHTS, view=view, oracle=oracle,
        quick=(300, 30), thorough=(8000, 60), extra_streams={"split_stream": split_stream}, scenarios=SCENARIOS)


def replay(rep):
    from ..cardcheck import Run

    h = rep["history"]
    if h and h[0]["op"] == "split":
        from skops.card._model_card import split_subsection_names

        k = h[0]["key"]
        print("split_subsection_names(%r) = %r ; property: %r" % (k, split_subsection_names(k), spec_split(k)))
        return 0 if split_subsection_names(k) == spec_split(k) else 1
    outs, fails = Run(oracle).run(h)
    for op, o in zip(h, outs):
        print(op, "->", o)
    for i, m in fails:
        print("ORACLE FAILURE at op", i, ":", m)
    return 1 if fails else 0
