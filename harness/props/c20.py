"""C20 — Calls are independent of history and of concurrent calls."""
from __future__ import annotations

import hashlib
import json
import os
import pickle
import subprocess
import sys
import tempfile
import threading
import time
from concurrent.futures import ThreadPoolExecutor

from .. import c20calls, objgen
from ..common import REPO, VERIF

REQUIRED = ["frame_facts_hold", "cardStep_frame", "cards_independent", "ioStep_frame", "io_call_history_free", "threads_independent",
            "leaky_counterexample"]


def light_zoo():
    import operator
    from collections import OrderedDict, defaultdict
    from functools import partial

    import numpy as np
    import scipy.sparse as sp
    from sklearn.linear_model import LogisticRegression, SGDClassifier
    from sklearn.pipeline import Pipeline
    from sklearn.preprocessing import FunctionTransformer, StandardScaler

    from ..objgen import U

    X = np.array([[0.0, 1.0], [1.0, 0.0], [1.0, 1.0], [0.0, 0.0]] * 5)
    y = np.array([0, 1, 1, 0] * 5)
    return [
        ("dict", {"a": [1, 2.5, None], 3: (1, 2), "s": {1, 2}}),
        ("arrays", [np.arange(4), np.array([[1.5, 2], [3, 4]]), np.int64(3), np.array([1, "a", None], dtype=object)]),
        ("shared", (lambda a: [a, {"again": a}, (a, a)])(np.arange(6.0).reshape(2, 3)[:, ::2])),
        ("ddict", defaultdict(list, {"k": [1]})), ("ordered", OrderedDict(b=1, a=2)),
        ("logreg", LogisticRegression().fit(X, y)),
        ("pipe", Pipeline([("s", StandardScaler()), ("c", SGDClassifier(max_iter=5, tol=None, random_state=0))]).fit(X, y)),
        ("ft", FunctionTransformer(np.sqrt)), ("partial", partial(np.add, 1)), ("getter", operator.itemgetter(1)),
        ("methodcaller-user", [operator.methodcaller("f", U.Plain(1, 2)), operator.attrgetter("a.b"), {"t": int}]),
        ("rs", np.random.RandomState(3)), ("gen", np.random.default_rng(4)), ("sparse", sp.csr_matrix(np.eye(3))),
        ("method", StandardScaler().fit(X).transform), ("user", {"p": U.Plain(1, [2]), "q": [U.WithGetstate(3)]}),
        ("user2", U.Plain(np.arange(3), {"k": U.Plain(1, 2)})),
        ("bytes", [b"alpha", bytearray(b"beta"), b"gamma"] + [bytes([i, i + 1]) for i in range(120)]),
        ("bytes2", {"k": [bytes([i]) * 3 for i in range(150)]}),
        ("nested-dump", [b"one", b"two", U.NestedDump(7), b"three", [U.NestedDump(8), b"four"]]),
        ("conditional-ok", [U.SometimesRaises(True), {"k": U.SometimesRaises(True)}]), ("conditional-refusing", {"h": U.SometimesRaises(False)}),
        ("stopiteration", [1, U.RaisesStopIteration(), 2]),
    ]


def build_specs(ctx, workdir):
    from skops.io import dumps, get_untrusted_types

    from .. import ioarch, valuecheck
    from .c08 import downgrade

    from .. import card as cardmod

    g = objgen.G(ctx.rng)
    objs = light_zoo()
    for i in range(ctx.budget(6, 60)):
        v, _ = g.value(0, supported=True)
        objs.append((f"gen{i}", v))
    specs, names = [], []
    for name, o in objs:
        try:
            blob = pickle.dumps(o)
        except Exception:
            continue
        try:
            data = dumps(o)
        except Exception:
            # a dump that is refused is a call with a result too (the same refusal, whatever ran before)
            specs.append(("dumps", blob)); names.append(f"dumps-refused:{name}")
            continue
        untrusted = get_untrusted_types(data=data)
        specs.append(("dumps", blob)); names.append(f"dumps:{name}")
        specs.append(("loads", data, untrusted)); names.append(f"loads:{name}")
        specs.append(("untrusted", data)); names.append(f"untrusted:{name}")
        specs.append(("visualize", data, "all", untrusted)); names.append(f"visualize:{name}")
        if untrusted:
            specs.append(("loads", data, [])); names.append(f"loads-refused:{name}")
            specs.append(("visualize", data, "untrusted", None)); names.append(f"visualize-untrusted:{name}")
    # objects that pickle cannot carry into a spec (their own __reduce__ refuses): built from an expression
    for expr in ("[U.SometimesRaises(True), {'k': U.SometimesRaises(True)}]", "{'h': U.SometimesRaises(False)}", "[U.SometimesRaises(False)]",
                 "[1, U.RaisesStopIteration(), 2]", "U.RaisesGetstate()", "[U.Plain(1, 2), U.RaisesReduce()]"):
        specs.append(("dumps-expr", expr)); names.append(f"dumps-expr:{expr[:40]}")
    # values that are equal (and hash alike) without being the same value: what a cache keyed on the value would confuse
    for expr in ("{'z': -0.0}", "{'z': 0.0}", "[0.0]", "[-0.0]", "U.Plain(-0.0, 0)", "U.Plain(0.0, 0)", "{'t': 1, 'u': True, 'v': 1.0}",
                 "{'t': True, 'u': 1.0, 'v': 1}", "[1e16, 10000000000000000]", "[10000000000000000, 1e16]", "{'s': 'é', 'n': 'e\u0301'}",
                 "np.float64(-0.0)", "np.float64(0.0)", "(0, False, 0.0, -0.0)", "(-0.0, 0.0, False, 0)"):
        specs.append(("dumps-expr", expr)); names.append(f"dumps-expr:{expr[:40]}")
    # archives in the layouts of older protocols: their loaders are part of "the registries are filled once at import"
    for name, o in objs:
        if name not in ("ft", "gen", "dict", "partial", "pipe"):
            continue
        data = dumps(o)
        schema, members, _ = valuecheck.archive_parts(data)
        for target in (0, 1):
            s2, _ = downgrade(schema, target)
            d2 = ioarch.make_zip(s2, members)
            try:
                unt = get_untrusted_types(data=d2)
            except Exception:
                unt = []
            specs.append(("loads", d2, unt)); names.append(f"loads-proto{target}:{name}")
            specs.append(("untrusted", d2)); names.append(f"untrusted-proto{target}:{name}")
            specs.append(("visualize", d2, "all", unt)); names.append(f"visualize-proto{target}:{name}")
    # cards built from archive files (same file used by several cards, with and without a trusted list)
    from sklearn.linear_model import LogisticRegression
    from sklearn.pipeline import Pipeline
    from sklearn.preprocessing import FunctionTransformer

    from ..objgen import U

    files = {"plain.skops": LogisticRegression(C=2.0), "untrusted.skops": Pipeline([("f", FunctionTransformer(U.module_function)), ("c", LogisticRegression())])}
    for fn, est in files.items():
        path = os.path.join(workdir, fn)
        with open(path, "wb") as f:
            f.write(dumps(est))
        unt = get_untrusted_types(file=path)
        specs.append(("card-file", path, unt, None)); names.append(f"card-file-trusted:{fn}")
        specs.append(("card-file", path, None, None)); names.append(f"card-file-default:{fn}")
        specs.append(("card-file", path, unt, {"c__C": 7.5} if "untrusted" in fn else {"C": 7.5})); names.append(f"card-file-mutating:{fn}")
    for i in range(ctx.budget(6, 40)):
        hist, _ = cardmod.gen_history(ctx.rng, ctx.rng.randint(4, 14))
        specs.append(("card", hist)); names.append(f"card-history:{i}")
    real = [
        (dict(), [("add", (), {"Intro": "text", "Intro/Sub": "more"}), ("add_metrics", (), {"acc": 0.5, "f1": 1}), ("add_metrics", (), {"acc": 0.75})]),
        (dict(template=None), [("add", (), {"A": "x"}), ("add_metrics", (), {"m": 1}), ("add_hyperparams", (), {"section": "A/hp"})]),
        (dict(), [("add_metrics", ("desc",), {"z": 3}), ("delete", ("Model description",), {})]),
        (dict(template=None), []),
        (dict(), [("add_table", (), {"T": {"a": [1, 2], "b": ["x", "y"]}}), ("select", ("Model description",), {})]),
        (dict(template=None), [("add_table", (), {"Ragged": {"fold": [1, 2, 3], "score": [0.5]}})]),          # cannot be rendered
        (dict(template=None), [("add_table", (), {"After": {"name": ["p", "q"], "alpha": [0.1, 0.2]}}), ("add_table", (), {"Again": {"k": [1, 2]}})]),
    ]
    for i, (kw, calls) in enumerate(real):
        specs.append(("card-real", kw, calls)); names.append(f"card-real:{i}")
    return specs, names


def fresh_process_results(specs, workers=16):
    """each spec as the first and only call of a new interpreter"""
    d = tempfile.mkdtemp(prefix="verif-c20-")
    specfile = os.path.join(d, "specs.pkl")
    with open(specfile, "wb") as f:
        pickle.dump(specs, f)
    env = dict(os.environ, PYTHONPATH=str(VERIF), PYTHONHASHSEED="0")

    def one(i):
        out = os.path.join(d, f"r{i}.pkl")
        p = subprocess.run([sys.executable, "-W", "ignore", "-m", "harness.c20calls", specfile, str(i), out], cwd=str(VERIF), env=env,
                           capture_output=True, text=True, timeout=600)
        if p.returncode != 0:
            return ("child-failed", p.stderr[-400:])
        with open(out, "rb") as f:
            return pickle.load(f)

    try:
        with ThreadPoolExecutor(workers) as ex:
            return list(ex.map(one, range(len(specs))))
    finally:
        import shutil

        shutil.rmtree(d, ignore_errors=True)


def state_digest():
    """digest of what skops keeps at module level + the process-wide state C19/C20 name"""
    import numpy as np
    import warnings

    import skops.io._audit as a
    import skops.io._general as g
    import skops.io._utils as u

    parts = []
    for modname in sorted(m for m in sys.modules if m == "skops" or m.startswith("skops.")):
        mod = sys.modules[modname]
        for k in sorted(vars(mod)):
            v = vars(mod)[k]
            if isinstance(v, (dict, list, set, tuple, frozenset)):
                try:
                    parts.append((modname, k, type(v).__name__, len(v), repr(sorted(map(repr, v)))[:20000]))
                except Exception:
                    parts.append((modname, k, type(v).__name__, len(v)))
            elif isinstance(v, type) and v.__module__ == modname:
                for ck in sorted(vars(v)):
                    cv = vars(v)[ck]
                    if isinstance(cv, (dict, list, set)):
                        parts.append((modname, k, ck, repr(cv)[:2000]))
    parts.append(("cwd", os.getcwd()))
    parts.append(("environ", sorted(os.environ.items())))
    parts.append(("sys.path", list(sys.path)))
    parts.append(("np.random", hashlib.sha1(pickle.dumps(np.random.get_state())).hexdigest()))
    return hashlib.sha1(repr(parts).encode()).hexdigest(), len(parts)


def run(ctx):
    t0 = time.time()
    lean_ok = ctx.build(required_theorems=REQUIRED)
    facts = json.loads((VERIF / "generated" / "frame.json").read_text())
    workdir = tempfile.mkdtemp(prefix="verif-c20-files-")
    specs, names = build_specs(ctx, workdir)
    ofails, mism = [], []
    reference = fresh_process_results(specs)
    bad = [(n, r) for n, r in zip(names, reference) if r[0] == "child-failed"]
    if bad:
        ofails.append((f"harness: fresh interpreter failed for {bad[0][0]}: {bad[0][1][-300:]}", dict(kind="calls", call=bad[0][0])))
    digest0 = state_digest()
    evaluations = len(specs)
    # ---- sequenced: the same calls after random histories of other calls, in one process
    rounds = ctx.budget(4, 40)
    first_fail = None
    order_log = []
    for rnd in range(rounds):
        order = list(range(len(specs)))
        ctx.rng.shuffle(order)
        order_log.append(order[:12])
        for pos, i in enumerate(order):
            if reference[i][0] == "child-failed":
                continue
            res = c20calls.execute(specs[i])
            evaluations += 1
            d = c20calls.equal(reference[i], res)
            if d and first_fail is None:
                first_fail = (f"history-dependent: {names[i]} as call #{pos + 1} of round {rnd + 1} differs from the same call alone in a fresh "
                              f"process: {d}", dict(kind="calls", mode="sequenced", call=names[i], preceding=[names[j] for j in order[:pos]][-20:],
                                                     round=rnd, seed=ctx.seed))
        if first_fail:
            break
    if first_fail:
        ofails.append(first_fail)
    digest1 = state_digest()
    if digest1 != digest0:
        ofails.append(("module-state-changed: the digest of skops.* module-level containers / cwd / environ / sys.path / global numpy RNG "
                       "changed during the sequenced calls", dict(kind="calls", mode="sequenced", seed=ctx.seed)))
    # ---- threaded
    n_threads = 8
    old_switch = sys.getswitchinterval()
    sys.setswitchinterval(1e-6)
    thread_fail = []
    lock = threading.Lock()
    reps = ctx.budget(2, 12)

    def worker(tid, order):
        for i in order:
            if reference[i][0] == "child-failed":
                continue
            try:
                res = c20calls.execute(specs[i])
            except Exception as ex:
                res = ("raised-in-thread", type(ex).__name__, str(ex)[:200])
            d = c20calls.equal(reference[i], res)
            if d:
                with lock:
                    thread_fail.append((f"thread-dependent: {names[i]} run in thread {tid} while 7 other threads execute other calls differs from "
                                        f"the same call alone: {d}", dict(kind="calls", mode="threaded", call=names[i], threads=n_threads, seed=ctx.seed)))
                return

    try:
        for rep in range(reps):
            ths = []
            for tid in range(n_threads):
                order = list(range(len(specs)))
                ctx.rng.shuffle(order)
                order = order[: max(8, len(order) // 2)]
                ths.append(threading.Thread(target=worker, args=(tid, order)))
                evaluations += len(order)
            for t in ths:
                t.start()
            for t in ths:
                t.join()
            if thread_fail:
                break
    finally:
        sys.setswitchinterval(old_switch)
    ofails += thread_fail[:1]
    digest2 = state_digest()
    if digest2 != digest1 and not ofails:
        ofails.append(("module-state-changed: the digest of skops.* module-level state changed during the threaded calls",
                       dict(kind="calls", mode="threaded", seed=ctx.seed)))
    # ---- separate Card instances share nothing (identity of containers)
    from skops.card import Card

    from sklearn.linear_model import LinearRegression

    c1, c2 = Card(LinearRegression()), Card(LinearRegression())
    shared = [k for k in vars(c1) if isinstance(vars(c1)[k], (dict, list, set)) and vars(c1)[k] is vars(c2).get(k)]
    if shared:
        ofails.append((f"cards-share-state: two Card instances hold the very same container in {shared}", dict(kind="calls", mode="cards")))
    c1.add(**{"Only in one": "x"})
    c1.add_metrics(only_one=1)
    try:
        if "Only in one" in c2.render() or "only_one" in c2.render():
            ofails.append(("cards-share-state: a section/metric added to one card shows up in another", dict(kind="calls", mode="cards")))
    except Exception as ex:
        ofails.append((f"cards-share-state: after the calls above, rendering a card that was just created raised {type(ex).__name__}: {str(ex)[:120]}",
                       dict(kind="calls", mode="cards")))
    # ---- T1: failing frame facts name their call sites
    broken_facts = [k for k, v in facts["facts"].items() if not v]
    if broken_facts and not ofails:
        sites = {k: v for k, v in facts["sites"].items() if v}
        mism.append(dict(what=f"frame facts no longer hold: {broken_facts}; sites: {json.dumps(sites)[:600]}"))
    import shutil

    shutil.rmtree(workdir, ignore_errors=True)
    from ..iocheck import conclude

    conclude(ctx, lean_ok, mism, ofails, "frame/C20")
    kinds = {}
    for n in names:
        kinds[n.split(":")[0]] = kinds.get(n.split(":")[0], 0) + 1
    ctx.coverage.update(
        evaluations=evaluations, distinct_nontrivial=len(specs),
        rule="every call (dumps / loads / refused loads / get_untrusted_types / visualize of zoo + generated objects; card histories; cards with the "
             "real PrettyTable, template, metrics, tables) once as the only call of a fresh interpreter = reference; then the same calls in "
             f"{rounds} shuffled sequences in one process and in {reps} x {n_threads} threads (switch interval 1e-6), results compared with the reference "
             "(ids/uuids normalised, loaded objects by the structural comparator); digest of skops.* module-level containers, cwd, environ, "
             "sys.path and the global numpy RNG before/after; container identity across two Card instances",
        samples=[names[0], names[-1]], call_kinds=kinds, frame_facts=facts["facts"],
        informational_sites={k: v for k, v in facts["sites"].items() if v}, modules_scanned=facts["info"]["modules"],
        schedules_explored=reps * n_threads, correspondence_mismatches=len(mism), wall=round(time.time() - t0, 1))
    ctx.assumptions += [
        "PARTIAL: CPython thread interleavings are sampled (8 threads, 1 microsecond switch interval), not enumerated; the schedule theorem is about micro-steps that respect the frame",
        "frame facts are syntactic (no global statements, no writes to module-level containers or class attributes inside functions, no mutable defaults, "
        "no process-state writes, contexts per call, no function-level caches); writes through aliases are only seen by the dynamic digest",
        "`warnings.catch_warnings` in whichmodule alters the global filter list temporarily (not thread-safe, does not affect results)",
    ]


def replay(rep):
    print(json.dumps(rep, indent=1, default=str)[:3000])
    return 1
