"""C07 — A reloaded scikit-learn estimator is the same model."""
from __future__ import annotations

import json
import time
import warnings

import numpy as np

from .. import valuecheck
from ..common import VERIF
from ..compare import same

REQUIRED = ["state_preserved", "composition_preserved"]
METHODS = ["predict", "predict_proba", "decision_function", "transform", "score_samples"]


def datasets(rng):
    r = np.random.RandomState(rng.randint(0, 10**6))
    X = np.abs(r.randn(30, 4)) + 0.1
    return dict(X=X, y_cls=(X[:, 0] + X[:, 1] > np.median(X[:, 0] + X[:, 1])).astype(int), y_reg=X @ np.array([1.0, -2.0, 0.5, 0.0]) + 0.1 * r.randn(30),
                y_multi=np.c_[X[:, 0] > 1, X[:, 1] > 1].astype(int), X_test=np.abs(r.randn(7, 4)) + 0.1)


def fit(est, data):
    from sklearn.base import is_classifier, is_regressor

    X = data["X"]
    with warnings.catch_warnings():
        warnings.simplefilter("ignore")
        if is_classifier(est):
            est.fit(X, data["y_cls"])
        elif is_regressor(est):
            try:
                est.fit(X, data["y_reg"])
            except Exception:
                est.fit(X, data["y_multi"].astype(float))
        else:
            try:
                est.fit(X)
            except TypeError:
                est.fit(X, data["y_cls"])
    return est


def tune(cls, rng):
    """an instance with a few hyper-parameters drawn from the estimator's own parameter constraints"""
    est = cls()
    cons = getattr(cls, "_parameter_constraints", {}) or {}
    params = {}
    for name, c in cons.items():
        if rng.random() > 0.25 or name not in est.get_params():
            continue
        for opt in c:
            vals = getattr(opt, "options", None)
            if vals and all(isinstance(v, (str, bool, int, float, type(None))) for v in vals):
                vals = sorted(vals, key=repr)
                params[name] = rng.choice(vals)
                break
            if opt == "boolean":
                params[name] = rng.random() < 0.5
                break
    try:
        return cls(**params)
    except Exception:
        return est


def compositions(data):
    from sklearn.compose import ColumnTransformer
    from sklearn.ensemble import BaggingClassifier, StackingClassifier, VotingClassifier
    from sklearn.linear_model import LogisticRegression, Ridge
    from sklearn.model_selection import GridSearchCV
    from sklearn.pipeline import FeatureUnion, Pipeline
    from sklearn.preprocessing import FunctionTransformer, MinMaxScaler, StandardScaler
    from sklearn.decomposition import PCA
    from sklearn.tree import DecisionTreeClassifier
    from sklearn.multioutput import MultiOutputRegressor
    from sklearn.calibration import CalibratedClassifierCV

    return [
        ("pipeline", Pipeline([("s", StandardScaler()), ("p", PCA(n_components=2)), ("c", LogisticRegression())])),
        ("column", Pipeline([("ct", ColumnTransformer([("a", StandardScaler(), [0, 1]), ("b", MinMaxScaler(), [2, 3])])), ("c", DecisionTreeClassifier(max_depth=2))])),
        ("union", Pipeline([("u", FeatureUnion([("pca", PCA(n_components=1)), ("id", FunctionTransformer(np.log1p))])), ("c", LogisticRegression())])),
        ("search", GridSearchCV(LogisticRegression(), {"C": [0.1, 1.0]}, cv=2)),
        ("voting", VotingClassifier([("a", LogisticRegression()), ("b", DecisionTreeClassifier(max_depth=2))], voting="soft")),
        ("stacking", StackingClassifier([("a", DecisionTreeClassifier(max_depth=1))], final_estimator=LogisticRegression(), cv=2)),
        ("bagging", BaggingClassifier(DecisionTreeClassifier(max_depth=2), n_estimators=3, random_state=0)),
        ("multiout", MultiOutputRegressor(Ridge())),
        ("calibrated", CalibratedClassifierCV(LogisticRegression(), cv=2)),
        ("ufunc-wrapper", Pipeline([("f", FunctionTransformer(np.sqrt, inverse_func=np.square)), ("c", LogisticRegression())])),
        # parameters that are containers of containers: dicts with non-string keys inside lists, numpy scalars as values and keys
        ("search-classweight", GridSearchCV(LogisticRegression(), {"class_weight": [{0: 1.0, 1: 2.0}, {0: 2.0, 1: 1.0}, None]}, cv=2)),
        ("search-gridlist", GridSearchCV(DecisionTreeClassifier(), [{"max_depth": [1, 2]}, {"class_weight": [{0: 1, 1: 3}]}], cv=2)),
        ("forest-multi-classweight", __import__("sklearn.ensemble", fromlist=["x"]).RandomForestClassifier(
            n_estimators=2, random_state=0, class_weight=[{0: 1.0, 1: 2.0}, {0: 1.0, 1: 5.0}])),
        ("sparse-random-projection", __import__("sklearn.random_projection", fromlist=["x"]).SparseRandomProjection(n_components=3, density=0.9, random_state=0)),
        ("np-scalar-params", Pipeline([("i", __import__("sklearn.impute", fromlist=["x"]).SimpleImputer(strategy="constant", fill_value=np.float32(0.5))),
                                        ("c", LogisticRegression(C=np.float64(2.0), max_iter=np.int64(50),
                                                                 class_weight={np.int64(0): np.float64(1.0), np.int64(1): 2.0}))])),
    ]


def ufunc_wrappers():
    """wrappers around ufuncs, dumped after a user module that re-exports the same ufuncs has been imported"""
    import importlib

    from scipy import special
    from sklearn.pipeline import Pipeline
    from sklearn.preprocessing import FunctionTransformer

    from .. import objgen  # noqa: F401  (puts harness/canary on sys.path)

    importlib.import_module("aaa_verif_reexports")
    import scipy.signal  # noqa: F401  (re-exports scipy.special ufuncs in private modules)

    return [("ft-expit", FunctionTransformer(special.expit, inverse_func=special.logit)), ("ft-binom", FunctionTransformer(special.binom)),
            ("ft-sqrt-add", Pipeline([("a", FunctionTransformer(np.sqrt)), ("b", FunctionTransformer(np.add, kw_args={"x2": 1}))]))]


def parameter_objects():
    """unfitted estimators whose parameters hold every numpy scalar type, as value and as dict key"""
    from sklearn.dummy import DummyClassifier
    from sklearn.impute import SimpleImputer
    from sklearn.linear_model import LogisticRegression
    from sklearn.preprocessing import FunctionTransformer

    import scipy.sparse as _sp
    from sklearn.kernel_approximation import RBFSampler
    from sklearn.random_projection import GaussianRandomProjection

    def used_rs(seed, normals):
        rs = np.random.RandomState(seed)
        for _ in range(normals):
            rs.standard_normal()            # an odd number leaves a cached second value in the state
        return rs

    unsorted_csr = _sp.csr_matrix((np.array([1.0, 2.0, 3.0, 4.0, 5.0, 6.0]), np.array([2, 0, 1, 3, 1, 0]), np.array([0, 3, 6])), shape=(2, 4))
    out = [("rbf-used-randomstate", RBFSampler(n_components=3, random_state=used_rs(0, 1))),
           ("grp-used-randomstate", GaussianRandomProjection(n_components=2, random_state=used_rs(1, 3))),
           ("ft-randomstates", FunctionTransformer(np.add, kw_args={"a": used_rs(2, 1), "b": [used_rs(3, 2), used_rs(4, 5)]})),
           ("ft-noncanonical-sparse", FunctionTransformer(np.add, kw_args={"m": unsorted_csr, "c": _sp.coo_matrix((np.array([1.0, 2.0]), (np.array([0, 0]), np.array([1, 1]))), shape=(1, 2))})),
           ("imputer-npstr", SimpleImputer(strategy="constant", fill_value=np.str_("missing"))),
           ("logreg-npstr-keys", LogisticRegression(class_weight={np.str_("a"): 1.0, np.str_("b"): 2.0})),
           # class labels that read like JSON literals without being in JSON's own spelling (labels of a numpy string array)
           ("logreg-literal-like-labels", LogisticRegression(class_weight=dict(zip(np.unique(np.array(["true", "null", "1.50", "1e3", "NaN", "-0", "yes"])),
                                                                                   [1.0, 2.0, 3.0, 4.0, 5.0, 6.0, 7.0])))),
           ("sgd-literal-like-labels", __import__("sklearn.linear_model", fromlist=["x"]).SGDClassifier(
               class_weight={np.str_("true"): 1.0, np.str_("false"): 2.0, "true ": 3.0, np.str_("01"): 4.0, np.str_("1.0"): 5.0})),
           ("dummy-npstr-constant", DummyClassifier(strategy="constant", constant=np.str_("a"))),
           ("ft-kwargs", FunctionTransformer(np.add, kw_args={"out": None, "scalars": [np.void(b"ab"), np.datetime64("2020-01-01"), np.timedelta64(3, "s")]}))]
    for t in sorted(set(np.sctypeDict.values()), key=lambda t: t.__name__):
        if issubclass(t, (np.void, np.object_, np.datetime64, np.timedelta64, np.bytes_, np.str_)):
            continue
        try:
            out.append((f"ft-scalar-{t.__name__}", FunctionTransformer(np.add, kw_args={"x": t(1), "keys": {t(1): "as key"} if not issubclass(t, (np.complexfloating, np.bool_, np.longdouble)) else {}})))
        except Exception:
            pass
    return out


def check_estimator(name, est, data, fitted):
    """returns (failures, untrusted list)"""
    from skops.io import dumps, get_untrusted_types, loads

    fails = []
    try:
        blob = dumps(est)
    except Exception as ex:
        return [f"estimator-not-dumpable: {name} ({'fitted' if fitted else 'unfitted'}): dumps raised {type(ex).__name__}: {str(ex)[:80]}"], None
    unt = get_untrusted_types(data=blob)
    try:
        got = loads(blob, trusted=unt)
    except Exception as ex:
        return [f"estimator-not-loadable: {name}: loads raised {type(ex).__name__}: {str(ex)[:80]}"], unt
    d = same(est, got)
    if d:
        fails.append(f"estimator-state-differs: {name} ({'fitted' if fitted else 'unfitted'}): {d}")
    if fitted:
        Xt = data["X_test"]
        for m in METHODS:
            if not hasattr(est, m):
                continue
            with warnings.catch_warnings():
                warnings.simplefilter("ignore")
                try:
                    a1, a2 = getattr(est, m)(Xt), getattr(est, m)(Xt)
                except Exception:
                    continue
                if same(a1, a2) is not None:
                    continue                       # the original is not self-consistent: nothing to compare
                try:
                    b = getattr(got, m)(Xt)
                except Exception as ex:
                    fails.append(f"estimator-method-fails: {name}.{m} raises {type(ex).__name__} on the loaded estimator")
                    continue
            dd = same(a1, b)
            if dd:
                fails.append(f"estimator-output-differs: {name}.{m}: {dd}")
    return fails, unt


def run(ctx):
    t0 = time.time()
    lean_ok = ctx.build(required_theorems=REQUIRED)
    from sklearn.utils import all_estimators

    from ..translate.trust import family_of, resolve

    data = datasets(ctx.rng)
    classes = all_estimators()
    n_fit = ctx.budget(45, len(classes))
    chosen = set(ctx.rng.sample(range(len(classes)), min(n_fit, len(classes))))
    ofails, stats = [], dict(unfitted=0, fitted=0, skipped_construct=0, skipped_fit=0, compositions=0, tuned=0)
    untrusted_seen = {}
    samples = []
    for i, (name, cls) in enumerate(classes):
        try:
            est = cls()
        except Exception:
            stats["skipped_construct"] += 1
            continue
        fails, unt = check_estimator(name, est, data, fitted=False)
        stats["unfitted"] += 1
        if fails and "Birch" in name and "not-dumpable" in fails[0]:
            fails = []                                   # refused at dump by design (UNSUPPORTED_TYPES)
        for f in fails:
            ofails.append((f, dict(kind="estimator", name=name, fitted=False)))
        for u in unt or []:
            untrusted_seen.setdefault(u, name)
        if i in chosen:
            for variant in range(ctx.budget(1, 4)):
                e2 = cls() if variant == 0 else tune(cls, ctx.rng)
                try:
                    fit(e2, data)
                except Exception:
                    stats["skipped_fit"] += 1
                    continue
                stats["fitted"] += 1
                stats["tuned"] += variant > 0
                fails, unt = check_estimator(name, e2, data, fitted=True)
                if fails and "Birch" in name:
                    fails = []
                for f in fails:
                    ofails.append((f, dict(kind="estimator", name=name, fitted=True, params=repr(e2.get_params())[:400])))
                for u in unt or []:
                    untrusted_seen.setdefault(u, name)
                if len(samples) < 3:
                    samples.append(dict(estimator=name, params=repr(e2)[:120], untrusted=unt))
        if len(ofails) > 5:
            break
    for name, est in parameter_objects() + ufunc_wrappers():
        fails, unt = check_estimator(name, est, data, fitted=False)
        stats["unfitted"] += 1
        for f in fails:
            ofails.append((f, dict(kind="estimator", name=name, fitted=False, params=repr(est.get_params())[:400])))
        for u in unt or []:
            untrusted_seen.setdefault(u, name)
    for name, est in compositions(data):
        try:
            if name == "forest-multi-classweight":
                est.fit(data["X"], np.stack([data["y"], 1 - data["y"]], axis=1))
            elif name == "multiout":
                with warnings.catch_warnings():
                    warnings.simplefilter("ignore")
                    est.fit(data["X"], data["y_multi"].astype(float))
            else:
                fit(est, data)
        except Exception as ex:
            stats["skipped_fit"] += 1
            continue
        stats["compositions"] += 1
        fails, unt = check_estimator(name, est, data, fitted=True)
        for f in fails:
            ofails.append((f, dict(kind="estimator", name=name, fitted=True)))
        for u in unt or []:
            untrusted_seen.setdefault(u, name)
    # estimators made only of default-trusted parts load without a trusted list: nothing that belongs to a documented
    # family may be reported as untrusted
    for u, where in sorted(untrusted_seen.items()):
        try:
            fam = family_of(resolve(u))
        except Exception:
            continue
        if fam != "OTHER":
            ofails.append((f"family-member-untrusted: {u} ({fam}) is reported untrusted for {where} although it belongs to a documented default-trusted family",
                           dict(kind="estimator", name=where, untrusted=u)))
    from ..iocheck import conclude

    conclude(ctx, lean_ok, [], ofails, "estimators/C07")
    ctx.coverage.update(
        evaluations=stats["unfitted"] + stats["fitted"] + stats["compositions"],
        distinct_nontrivial=stats["unfitted"] + stats["fitted"],
        rule="every class of sklearn.utils.all_estimators() unfitted; a seeded subset (quick: 45, thorough: all) fitted with default and with hyper-parameters "
             "drawn from _parameter_constraints on dense non-negative data (classification / regression / multi-output); 10 compositions (pipeline, column "
             "transformer, union, search, voting, stacking, bagging, multi-output, calibration, ufunc wrapper); state compared with the structural comparator, "
             "method outputs bitwise",
        samples=samples, untrusted_names_seen=sorted(untrusted_seen)[:20], **stats, wall=round(time.time() - t0, 1))
    ctx.assumptions += ["the theorem is about skops' object layer; numerical behaviour of scikit-learn (prediction = deterministic function of state) is a contract "
                        "exercised on the zoo, not proved", "sparse and multi-label training sets are only used in the thorough tier"]


def replay(rep):
    print(json.dumps(rep, indent=1, default=str)[:2500])
    return 1
