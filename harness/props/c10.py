"""C10 — Rendering shows exactly the visible tree, in order, and save/TOC agree with it."""
from __future__ import annotations

from .. import cardcheck

REQUIRED = ["hidden_subtree", "render_events", "nothing_hidden", "toc_events", "toc_matches_render",
            "details_iff_folded", "details_payload", "save_eq_render", "step_save_eq_render"]

WEIGHTS = dict(add=28, add_plot=6, add_table=5, add_metrics=3, add_hyperparams=2, select=4, select_chain=1,
               delete=5, delete_list=2, set_visible=14, set_folded=14, render=8, toc=8, save=3)


def view(op, o):
    name = op["op"]
    if name in ("card.render", "card.toc", "card.save"):
        return (o.get("r"), o.get("s"))
    if o.get("r") == "sec":
        return ("sec", o["format"], o["visible"], o["folded"])
    return (o.get("r"), o.get("e"))


def wrap(text, folded):
    return f"<details>\n<summary> Click to expand </summary>\n\n{text}\n\n</details>" if folded else text


def live_sections(c):
    """(depth, section, shown?) in tree order, straight from the live card"""
    out = []

    def rec(d, depth, hidden):
        for s in d.values():
            out.append((depth, s, (not hidden) and bool(s.visible)))
            rec(s.subsections, depth + 1, hidden or (not s.visible) or bool(s.folded))

    rec(c._data, 1, False)
    return out


def oracle(c, op, out, before, after, metrics_before):
    from skops.card._model_card import PlotSection, TableSection

    fails = []
    secs = live_sections(c)
    rendered = c.render()
    want = []
    for depth, s, shown in secs:
        if not shown:
            continue
        want.append("#" * depth + " " + s.title)
        if type(s).__name__ == "Section":
            body = wrap(s.content, s.folded)
        else:
            body = s.format()
            payload = body[len(s.content) + 2:] if s.content and body.startswith(s.content + "\n\n") else body
            if isinstance(s, TableSection) and not getattr(s, "_is_pandas_df", False):
                # "that section's content": the table the section holds, cell by cell (the recording PrettyTable of the harness
                # renders a table as a token of its columns)
                from .c14 import cellstr, colstr, token
                from .c14 import wrap as wrap14

                try:
                    cols = [(colstr(k), [cellstr(v) for v in vs]) for k, vs in s.table.items()]
                    if payload != wrap14(token(cols), bool(s.folded)):
                        fails.append(f"table-content: table section {s.title!r} renders {payload[:200]!r}, its table holds {token(cols)[:200]!r}")
                except Exception:
                    pass
            if isinstance(s, PlotSection):
                inner = payload[len("<details>\n<summary> Click to expand </summary>\n\n"):-len("\n\n</details>")] if s.folded else payload
                if inner != f"![{s.alt_text or s.path}]({s.path})":
                    fails.append(f"plot-link: plot section {s.title!r} holds path {str(s.path)!r} (alt {s.alt_text!r}) but renders {inner!r}")
            if payload.startswith("<details>") != bool(s.folded):
                fails.append(f"details: {type(s).__name__} {s.title!r} folded={s.folded} but payload wrapped={payload.startswith('<details>')}")
        want.append(body)
    text = "".join("\n" + l + "\n" for l in want if l)
    if want and text:
        text = text[:-1] + "\n" if False else text
    # `"\n".join(["\n"+l1, "\n"+l2, ""])` == "\n"+l1+"\n"+"\n"+l2+"\n"
    if rendered != text:
        fails.append("render: rendered text is not 'one heading per shown section + its content, in tree order'")
    toc_want = "\n".join("  " * (d - 1) + "- " + s.title for d, s, shown in secs if shown)
    if c.get_toc() != toc_want:
        fails.append("toc: get_toc() does not list exactly the rendered headings")
    if op["op"] == "card.save" and out.get("r") == "text":
        if out["s"] != out.get("rendered"):
            fails.append("save: file content differs from render()")
    return fails


def A(text, key="A", folded=False):
    return dict(op="card.add", folded=folded, items=[[key, text]])


NEW, SAVE, RENDER, TOC = dict(op="card.new"), dict(op="card.save"), dict(op="card.render"), dict(op="card.toc")
# saves to one path whose previous content differs from the new text in little or nothing (line endings, trailing newline, nothing at all)
SCENARIOS = [
    [NEW, A("l1\r\nl2"), SAVE, A("l1\nl2"), SAVE, A("l1\rl2"), SAVE, A("l1\nl2"), SAVE, RENDER],
    [NEW, A("x\r\n"), SAVE],
    [NEW, A("x\n"), SAVE, A("x"), SAVE, A("x\r"), SAVE],
    [NEW, A("same"), SAVE, SAVE, A("same", folded=True), SAVE, dict(op="card.set_folded", key="A", value=False), SAVE],
    [NEW, A("t", key="X"), A("u", key="X\\/Y"), A("v", key="X/Z"), dict(op="card.set_visible", key="X", value=False), RENDER, TOC, SAVE],
    [NEW, A("t", key="a\\/b/c"), A("u", key="a"), dict(op="card.set_folded", key="a", value=True), RENDER, TOC, SAVE],
]


def run(ctx):
    cardcheck.run_card_property(ctx, area="card.render", required=REQUIRED, weights=WEIGHTS, view=view,
                                oracle=oracle, quick=(250, 30), thorough=(8000, 60), scenarios=SCENARIOS)


def replay(rep):
    from ..cardcheck import Run

    outs, fails = Run(oracle).run(rep["history"])
    for op, o in zip(rep["history"], outs):
        print(op, "->", str(o)[:300])
    for i, m in fails:
        print("ORACLE FAILURE at op", i, ":", m)
    return 1 if fails else 0
