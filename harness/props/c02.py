"""C02 — Inspecting an archive is inert."""
from __future__ import annotations

import json
import time

from .. import ioarch, iocheck

REQUIRED = ["table_init_inert", "flow_facts", "tree_building_inert", "verdict_before_construct", "C02_current"]


def run(ctx):
    t0 = time.time()
    lean_ok = ctx.build(required_theorems=REQUIRED)
    n = ctx.budget(300, 12000)
    if not lean_ok:
        n *= 3
    res = iocheck.run_engine(ctx, n)
    ofails = []
    inspected = 0
    for c in res["cases"]:
        for msg in iocheck.c02_oracle_inspect(c.data):
            ofails.append((msg, dict(kind="archive", schema=c.schema, members=sorted(c.members))))
        inspected += 2
        if len(ofails) > 6:
            break
    # ---- every registered kind once with a name inside a package that resolves attributes lazily (scipy/numpy style): even a
    # getattr on an already imported module runs code, so inspection must not do that either
    from .c11 import coherent_states
    from .. import iogen

    fx = iogen.facts()
    for kind, st, members in coherent_states(ctx, fx):
        for pos in ("header", "content"):
            s2 = json.loads(json.dumps(st))
            if pos == "header":
                s2["__module__"], s2["__class__"] = "verif_canary_lazy", "probe_" + kind["loader"]
            elif isinstance(s2.get("content"), dict) and "module_path" in s2["content"]:
                s2["content"]["module_path"], s2["content"]["function"] = "verif_canary_lazy", "probe_content"
            else:
                continue
            data = ioarch.make_zip(s2, members)
            for msg in iocheck.c02_oracle_inspect(data):
                ofails.append((msg, dict(kind="archive", schema=s2, members=sorted(members))))
            inspected += 2
        if len(ofails) > 6:
            break
    # ---- a member that is large once unpacked (a small deflated archive): inspecting it must still not touch the file system
    try:
        import io as _io
        import zipfile as _zf

        import numpy as _np
        from skops.io import dumps as _dumps

        small = _dumps({"w": _np.zeros(4, dtype="float64"), "b": [1, 2]})
        schema, names = ioarch.read_schema(small)
        with _zf.ZipFile(_io.BytesIO(small)) as z:
            member_name = names[0]
        buf = _io.BytesIO()
        _np.save(buf, _np.zeros(10_000_000, dtype="float64"))          # 80 MB unpacked, ~80 kB deflated
        out = _io.BytesIO()
        with _zf.ZipFile(out, "w", compression=_zf.ZIP_DEFLATED) as z:
            z.writestr("schema.json", json.dumps(schema))
            z.writestr(member_name, buf.getvalue())
        big = out.getvalue()
        for msg in iocheck.c02_oracle_inspect(big):
            ofails.append((msg + " (archive with an 80 MB array member)", dict(kind="big-member", unpacked_bytes=80_000_128, archive_bytes=len(big))))
        inspected += 2
        del buf, out, big
    except MemoryError:
        pass
    for c, T, r, m in res["obs"]:
        # the part of load that precedes the trust decision: when the verdict is a refusal nothing may have happened
        missing = [x for x in (c.unt.get("ok") or []) if x not in (T or [])]
        refused = r["outcome"] == "untrusted" or (r["outcome"] == "error" and missing)     # the audit cannot have passed
        if refused and (r["events"] or r["ledger"] or [x for x in r["new_modules"] if not x.startswith("encodings")]):
            ofails.append((f"pre-audit-activity: load (trusted={T!r}) refused the archive ({r['outcome']}) but had already resolved {r['events'][:2]} / run {r['ledger'][:2]} / imported {r['new_modules'][:2]}",
                           dict(kind="archive", schema=c.schema, members=sorted(c.members), trusted=T)))
    iocheck.conclude(ctx, lean_ok, res["mismatches"], ofails, "io.load/C02")
    iocheck.std_coverage(ctx, res, dict(inspect_calls=inspected, wall=round(time.time() - t0, 1)))


def replay(rep):
    ioarch.install_canaries()
    if rep.get("kind") != "archive" or "schema" not in rep:
        print(json.dumps(rep, indent=1)[:3000])
        return 1
    data = ioarch.make_zip(rep["schema"], {m: b"garbage" for m in rep.get("members", [])})
    fails = iocheck.c02_oracle_inspect(data)
    for f in fails:
        print("ORACLE FAILURE:", f)
    return 1 if fails else 0
