"""C18 — A failed dump leaves the destination untouched."""
from __future__ import annotations

import copy
import io
import json
import time

from .. import fscheck, objgen, pyval
from ..objgen import U

REQUIRED = ["skeleton_dump", "skeleton_dumps", "flow_facts", "encode_none", "failed_dump_untouched", "unsupported_inside_untouched",
            "failed_dumps_nothing"]

OLD = b"bytes that were in the destination before"


# the object itself refuses (its __getstate__ / __reduce__ raises): dump must raise whatever else changes
REFUSES = {"raising-getstate", "raising-reduce", "conditional-reduce", "stopiteration-getstate", "stopiteration-in-tuple",
           "attributeerror-getstate", "keyerror-getstate"}
# dumped by the pinned tree although it cannot be loaded back (a lambda is recorded by name): not a failure case of C18
LEGACY_DUMPED = {"lambda"}


def poisons():
    """elements that make get_state raise"""
    import numpy as np
    import scipy.sparse as sp

    return [
        ("unsupported-type", lambda: memoryview(b"ab")),
        ("generator-object", lambda: (i for i in range(2))),
        ("raising-getstate", lambda: U.RaisesGetstate()),
        ("dok-sparse", lambda: sp.dok_matrix(np.eye(2))),
        ("lil-sparse", lambda: sp.lil_matrix(np.eye(2))),
        ("complex-number", lambda: 1 + 2j),
        ("slots-without-getstate", lambda: U.SlotsNoDict(1)),
        ("dok-array-empty", lambda: sp.dok_array((1, 1))),
        ("dok-array", lambda: sp.dok_array(np.eye(2))),
        ("0d-object-array", lambda: np.array(U.Plain(1, 2), dtype=object)),
        ("colliding-keys", lambda: {1: "a", "1": "b"}),
        ("lambda", lambda: (lambda x: x)),
        ("raising-reduce", lambda: U.RaisesReduce() if hasattr(U, "RaisesReduce") else memoryview(b"x")),
        # a persistable instance of the class comes first, the refusing one after it
        ("conditional-reduce", lambda: [U.SometimesRaises(True), {"k": U.SometimesRaises(True)}, U.SometimesRaises(False)]),
        ("stopiteration-getstate", lambda: U.RaisesStopIteration()),
        ("stopiteration-in-tuple", lambda: (1, [2, U.RaisesStopIteration()], 3)),
        ("attributeerror-getstate", lambda: U.GetstateAttributeError()),
        ("keyerror-getstate", lambda: U.GetstateKeyError()),
        ("masked-cell-of-object-masked-array", lambda: _masked(hidden=True)),
        ("visible-cell-of-object-masked-array", lambda: _masked(hidden=False)),
        ("cell-of-object-array", lambda: _objarr()),
        ("partial-keyword-generator", lambda: __import__("functools").partial(U.module_function, x=(i for i in range(2)))),
        ("ordered-dict-value", lambda: __import__("collections").OrderedDict(a=1, b=memoryview(b"zz"))),
        ("attribute-of-estimator", lambda: _estimator_with(memoryview(b"attr"))),
    ]


def _masked(hidden):
    import numpy as np

    data = np.empty(3, dtype=object)
    data[0], data[1], data[2] = 1, (i for i in range(2)), "s"
    return np.ma.MaskedArray(data, mask=[False, hidden, not hidden])


def _objarr():
    import numpy as np

    a = np.empty((2, 2), dtype=object)
    a[0, 0], a[0, 1], a[1, 0], a[1, 1] = 1, "x", [1, (i for i in range(2))], None
    return a


def _estimator_with(v):
    from sklearn.linear_model import LinearRegression

    est = LinearRegression()
    est.extra_ = {"deep": [1, (2, v)]}
    return est


def positions(v, path=()):
    """all substitution positions inside containers of v (list/tuple items, dict values, object attributes)"""
    out = []
    if isinstance(v, list) or (isinstance(v, tuple) and type(v) is tuple):
        for i, x in enumerate(v):
            out.append(path + (("i", i),))
            out += positions(x, path + (("i", i),))
    elif isinstance(v, dict):
        for k, x in v.items():
            out.append(path + (("k", k),))
            out += positions(x, path + (("k", k),))
    return out


def substitute(v, path, elem):
    if not path:
        return elem
    (kind, key), rest = path[0], path[1:]
    if kind == "i":
        items = list(v)
        items[key] = substitute(items[key], rest, elem)
        return type(v)(items) if isinstance(v, tuple) else items
    d = copy.copy(v)
    d[key] = substitute(v[key], rest, elem)
    return d


def attempt(sb, obj, sink):
    """run dump(obj, sink) in a forked, traced child -> (res, before, after)"""
    w = sb.root / "w"
    target = w / ("existing.skops" if sink.startswith("existing") else "new.skops")
    if sink.startswith("existing"):
        target.write_bytes(OLD)
    before = sb.snapshot()

    def call():
        from skops.io import dump, dumps

        if sink == "dumps":
            r = dumps(obj)
            return f"returned {len(r)} bytes"
        if sink.endswith("-str"):
            dump(obj, str(target))
        elif sink.endswith("-path"):
            dump(obj, target)
        elif "-fileobj" in sink:
            # an open file object on a file with existing bytes, positioned at its end, its start or in the middle
            with open(target, "r+b" if sink.startswith("existing") else "w+b") as fh:
                fh.seek(0, 2)
                size_before = fh.tell()
                if sink.endswith("-start"):
                    fh.seek(0)
                elif sink.endswith("-middle"):
                    fh.seek(size_before // 2)
                pos = fh.tell()
                try:
                    dump(obj, fh)
                finally:
                    after = fh.tell()
                    fh.seek(0)
                    content = fh.read()
                    print(json.dumps(dict(pos=pos, after=after, size=len(content), size_before=size_before)), file=open(str(sb.root / "fileobj.json"), "w"))
        elif sink == "bytesio":
            b = io.BytesIO(b"prefix")
            b.seek(0, 2)
            try:
                dump(obj, b)
            finally:
                print(json.dumps(dict(pos=6, after=b.tell(), size=len(b.getvalue()))), file=open(str(sb.root / "fileobj.json"), "w"))
        return None

    code, res = fscheck.traced_call(sb, call, w, sb.systmp)
    after = sb.snapshot()
    return code, res, before, after, target


SINKS = ["existing-str", "existing-path", "new-str", "new-path", "existing-fileobj", "existing-fileobj-start", "existing-fileobj-middle",
         "new-fileobj", "bytesio", "dumps"]


def run(ctx):
    t0 = time.time()
    lean_ok = ctx.build(required_theorems=REQUIRED)
    from skops.io import dumps, get_untrusted_types, loads
    from ..compare import same

    g = objgen.G(ctx.rng)
    ofails, mism = [], []
    evaluations, distinct = 0, set()
    hist = {}
    samples = []
    structures = []
    for _ in range(ctx.budget(40, 2500)):
        v, sup = g.value(0, supported=True)
        if positions(v):
            structures.append(v)
    structures = structures or [[1, {"a": (2, 3)}]]
    ps = poisons()
    # which poisons really make dumps raise on the current tree (a poison that dumps fine is no failure case)
    active = []
    for name, mk in ps:
        orig = mk()
        try:
            data = dumps(orig)
        except Exception:
            active.append((name, mk))
            continue
        rep = dict(kind="poison-dumped", poison=name, repr=repr(orig)[:300])
        if name in REFUSES:
            ofails.append((f"refusal-ignored: dumps() returned an archive for an object whose own __getstate__/__reduce__ raises ({name})", rep))
        elif name not in LEGACY_DUMPED:
            # no error: then the element must really have been persisted (a new supported type), not dropped or replaced
            try:
                back = loads(data, trusted=get_untrusted_types(data=data))
                diff = same(orig, back)
            except Exception as ex:
                diff = f"the archive cannot be loaded ({type(ex).__name__})"
            if diff:
                ofails.append((f"dumped-with-loss: dumps() returned an archive for an object holding an unsupported value ({name}) "
                               f"instead of raising; what it loads to differs: {str(diff)[:200]}", rep))
    model_reqs, model_meta = [], []
    for si, v in enumerate(structures):
        pos = positions(v)
        r = ctx.rng
        chosen = pos if ctx.thorough else r.sample(pos, min(len(pos), 3))
        for p in chosen:
            name, mk = r.choice(active)
            try:
                bad = substitute(v, p, mk())
            except Exception:
                continue
            # does the real dump refuse it?
            try:
                dumps(bad)
                refused = False
            except Exception as ex:
                refused = True
            pv = pyval.to_pyval(bad) if name in ("unsupported-type", "dok-sparse", "lil-sparse", "0d-object-array", "colliding-keys", "generator-object", "lambda") else None
            if pv is not None:
                model_reqs.append(dict(op="val.encode", value=pv))
                model_meta.append((repr(bad)[:300], refused))
            if not refused:
                continue                    # not a failure case (e.g. the element was substituted where it is skipped)
            sinks = SINKS if (ctx.thorough or evaluations < 64) else r.sample(SINKS, 3)
            for sink in sinks:
                sb = fscheck.Sandbox()
                try:
                    code, res, before, after, target = attempt(sb, bad, sink)
                    evaluations += 1
                    hist[f"{name}/{sink}"] = hist.get(f"{name}/{sink}", 0) + 1
                    distinct.add((name, sink, len(p)))
                    rep = dict(kind="failed-dump", poison=name, position=[list(map(str, x)) for x in p], sink=sink, structure=repr(v)[:600])
                    if res is None or "child_error" in res:
                        ofails.append((f"harness: child failed: {(res or {}).get('child_error', '')[-300:]}", rep))
                        continue
                    if res["outcome"][0] != "raised":
                        ofails.append((f"failed-dump-no-error: dump to {sink} of an object that dumps() refuses ended with {res['outcome']}", rep))
                    tkey = tuple(sb.rel(str(target)))
                    meta = tuple(sb.rel(str(sb.root / "fileobj.json")))
                    changed = {k for k in set(before["files"]) | set(after["files"])
                               if before["files"].get(k) != after["files"].get(k) and k != meta}
                    if "fileobj" in sink:
                        info = json.loads(after["files"][meta])
                        if info["after"] != info["pos"] or info["size"] != info["size_before"]:
                            ofails.append((f"fileobj-received-bytes: the open file object was at {info['pos']} of {info['size_before']} bytes and is at "
                                           f"{info['after']} of {info['size']} bytes after the failed dump", rep))
                        changed.discard(tkey)            # created by the harness itself ("w+b"), content checked through `info`
                        if sink.startswith("existing") and after["files"].get(tkey) != OLD:
                            ofails.append(("existing-file-changed: bytes of the existing destination changed (file object sink)", rep))
                    elif sink == "bytesio":
                        info = json.loads(after["files"][meta])
                        if info["after"] != info["pos"] or info["size"] != info["pos"]:
                            ofails.append((f"fileobj-received-bytes: BytesIO grew to {info['size']} bytes / position {info['after']}", rep))
                    if changed:
                        what = "existing-file-changed" if tkey in before["files"] else "file-created"
                        ofails.append((f"{what}: after the failed dump to {sink} these paths differ: {sorted(changed)[:3]}", rep))
                    wrote = [e for e in res["events"] if e[0] != "midwrite" and (len(e) < 2 or tuple(e[1]) != meta)]
                    if wrote and "fileobj" not in sink:
                        # T2: the model's trace for a failed dump is empty
                        mism.append(dict(what=f"file operations during a failed dump: {wrote[:3]} (model: none)", **rep))
                    if len(samples) < 2:
                        samples.append(rep)
                finally:
                    sb.cleanup()
            if len(ofails) > 4:
                break
        if len(ofails) > 4:
            break
    # ---- model: refusal agrees (value model `encode = none`)
    agree = 0
    if model_reqs:
        mo = ctx.driver.run(model_reqs)
        for (rp, refused), m in zip(model_meta, mo):
            if (m["r"] == "refused") != refused:
                mism.append(dict(what=f"model {'refuses' if m['r'] == 'refused' else 'dumps'} but the implementation "
                                      f"{'refuses' if refused else 'dumps'} the substituted structure", value=rp))
            else:
                agree += 1
    # ---- model: fs.run dump with dumpable=false performs nothing, for each sink kind
    m = ctx.driver.run([dict(op="fs.run", prog="dump", cwd=["w"], input=dict(abs=False, parts=[]), output=dict(abs=False, parts=["m.skops"]),
                             dumpable=False, sinkIsPath=sp, chunks=[[2]], dirs=[[], ["w"]], files=[[["w", "m.skops"], [1]]], fresh="x", sysTmp=["t"])
                        for sp in (True, False)])
    for r_ in m:
        if r_["trace"] or r_["handle"] or not r_["sig"].startswith("raised"):
            mism.append(dict(what="the regenerated dump skeleton performs operations although get_state fails", model=r_))
    from ..iocheck import conclude

    conclude(ctx, lean_ok, mism, ofails, "dump/C18")
    ctx.coverage.update(
        evaluations=evaluations, distinct_nontrivial=len(distinct),
        rule="generated supported structures with one raising element (" + ", ".join(n for n, _ in active) + ") substituted at sampled "
             "(thorough: all) positions; real dump in a forked child: existing file / new path as str and Path, file object positioned at "
             "end, BytesIO, dumps; tree before/after, file-object position and size, write-type audit events; value model refusal compared",
        samples=samples, poison_sink_histogram=hist, structures=len(structures), model_refusal_agreements=agree,
        correspondence_mismatches=len(mism), wall=round(time.time() - t0, 1))
    ctx.assumptions += ["`_save` writes only into its own BytesIO: generated flow fact saveWritesOnlyBuffer + sampled audit events",
                        "an element that the current tree dumps without error is not a failure case and is skipped"]


def replay(rep):
    print(json.dumps(rep, indent=1, default=str)[:3000])
    return 1
