"""C15 — Parsing a document yields a card with the same outline and content."""
from __future__ import annotations

import json
import time

from .. import pandoc, fingerprints
from ..common import load_findings

REQUIRED = ["conv_state_restored", "conv_order_independent", "header_step", "outline_spec", "content_step",
            "content_without_section", "append_content_spec"]


def post(s):
    return s.replace("\xa0", " ").replace("- ☒", "- [x]").replace("- ☐", "- [ ]")


def spec_paths(headers):
    """nearest preceding header of lower level is the parent"""
    paths, prev = [], []          # prev: (level, path)
    for lvl, title in headers:
        parent = []
        for l2, p2 in reversed(prev):
            if l2 < lvl:
                parent = p2
                break
        path = parent + [title]
        paths.append(path)
        prev.append((lvl, path))
    return paths


def oracle_doc(blocks):
    """the property's sentences for one document, evaluated on the implementation.
    returns list of failure strings (prefix before ':' is the failure class)"""
    res = pandoc.impl_parse(blocks)
    texts = [pandoc.impl_conv_fresh(b) for b in blocks]          # every block converted on a FRESH instance
    if any("err" in t for t in texts):
        if res.get("r") != "err":
            return ["unsupported-accepted: a document with an unsupported element was parsed without error"]
        return []
    if blocks and blocks[0]["t"] != "Header":
        return [] if res.get("r") == "err" else ["content-before-header: content before the first header did not raise"]
    if res.get("r") == "err":
        return ["supported-refused: a document made of supported elements raised ValueError"]
    fails = []
    headers = [(b["c"][0], post(t["ok"])) for b, t in zip(blocks, texts) if b["t"] == "Header"]
    paths = spec_paths(headers)
    got = {tuple(s["path"]): s for s in res["sections"]}
    # one section per header, at the specified place, titled verbatim
    for (lvl, title), p in zip(headers, paths):
        s = got.get(tuple(p))
        if s is None:
            fails.append(f"outline: header {title!r} (level {lvl}) has no section at {p!r}")
            break
        if s["title"] != title:
            fails.append(f"title: section at {p!r} is titled {s['title']!r}, header text is {title!r}")
            break
    if len(got) != len({tuple(p) for p in paths}):
        fails.append(f"outline: {len(got)} sections for {len(set(map(tuple, paths)))} distinct header paths")
    dup = len({tuple(p) for p in paths}) != len(paths)
    # each non-header block once, in order, in the section it follows
    exp, cur = {}, None
    for b, t, in zip(blocks, texts):
        if b["t"] == "Header":
            cur = tuple(paths[len([1 for k in exp.get("_h", [])])]) if False else None
        # (computed below)
    exp = {}
    hi = -1
    for b, t in zip(blocks, texts):
        if b["t"] == "Header":
            hi += 1
            cur = tuple(paths[hi])
            if cur in exp:
                exp[cur] = exp[cur] + [("RESET",)]
            else:
                exp[cur] = []
        else:
            exp[cur].append(post(t["ok"]))
    for p, items in exp.items():
        lost = ("RESET",) in items
        seq = [x for x in items if x != ("RESET",)]
        want = ""
        for x in seq:
            want = x if not want else want + "\n\n" + x
        have = got.get(p, {}).get("content")
        if have != want:
            if lost:
                fails.append(f"dup-heading-content-lost: two headers share the path {list(p)!r}; the earlier body is gone")
            else:
                fails.append(f"content: section {list(p)!r} has content {have!r}, expected {want!r}")
            break
    # rendering reproduces the outline: every section's heading at its nesting depth, in tree order,
    # followed by its content
    want = "".join("\n" + "#" * len(s["path"]) + " " + s["title"] + "\n" + ("\n" + s["content"] + "\n" if s["content"] else "")
                   for s in res["sections"])
    if res["render"] != want:
        fails.append("reparse-outline: the rendered card is not the parsed outline with its contents")
    return fails


def finding_for(fail, findings):
    tag = fail.split(":")[0]
    for f in findings:
        if f["status"] == "open" and f["key"] == tag:
            return f
    return None


def shrink_blocks(blocks, pred):
    b = list(blocks)
    changed = True
    while changed:
        changed = False
        for i in range(len(b) - 1, -1, -1):
            cand = b[:i] + b[i + 1:]
            if cand and pred(cand):
                b = cand
                changed = True
    return b


def run(ctx):
    t0 = time.time()
    lean_ok = ctx.build(required_theorems=REQUIRED)
    findings = [f for f in load_findings() if f["property"] == ctx.id]
    n_docs = ctx.budget(600, 30000)
    n_conv = ctx.budget(600, 30000)
    rng = ctx.rng
    mism, ofails, known = [], [], {}
    kinds = {}
    distinct = set()

    # ---- stream 1: converter on one instance vs model; order independence on the implementation ----
    cases = [[pandoc.gen_block(rng, 0, True) if rng.random() < 0.8 else pandoc.gen_inline(rng, 0, True)
              for _ in range(rng.randint(1, 5))] for _ in range(n_conv)]
    mo = ctx.driver.run([dict(op="md.conv", items=c) for c in cases])
    for items, m in zip(cases, mo):
        out, st = pandoc.impl_conv(items)
        for it, o in zip(items, out):
            kinds[it["t"]] = kinds.get(it["t"], 0) + 1
            distinct.add(json.dumps([it, "err" in o], sort_keys=True, ensure_ascii=False))
        if out != m["out"] or st != m["stack"]:
            mism.append(dict(kind="md.conv", items=items, impl=dict(out=out, stack=st), model=m))
        fresh = [pandoc.impl_conv_fresh(it) for it in items]
        if fresh != out:
            k = next(i for i, (a, b) in enumerate(zip(fresh, out)) if a != b)
            ofails.append((dict(kind="md.conv", items=items[: k + 1]),
                           f"order-dependence: item {k} converts differently after the items before it than on a fresh Markdown()"))
        if st != []:
            ofails.append((dict(kind="md.conv", items=items), f"state-leak: _indent_trace is {st} after the conversions"))
        if len(ofails) > 3:
            break

    # ---- stream 2: parser vs model; property sentences on the implementation -----------------------
    docs = []
    for _ in range(n_docs):
        docs.append(pandoc.gen_doc(rng, allow_bad=rng.random() < 0.15, start_with_header=rng.random() < 0.92))
    mo = ctx.driver.run([dict(op="parse", blocks=b) for b in docs])
    for b, m in zip(docs, mo):
        a = pandoc.impl_parse(b)
        distinct.add(json.dumps([[x["t"] for x in b], a.get("r")]))
        if a != m:
            mism.append(dict(kind="parse", blocks=b, impl=a, model=m))
        twice = pandoc.impl_parse_twice(b)
        if twice is not None and twice[0] != twice[1]:
            ofails.append((dict(kind="parse", blocks=b), "parser-state: a second generate() on the same parser yields a different card "
                           f"(toc {twice[0][1]!r} vs {twice[1][1]!r})"))
        for fl in oracle_doc(b):
            f = finding_for(fl, findings)
            if f:
                known.setdefault(f["key"], b)
            else:
                ofails.append((dict(kind="parse", blocks=b), fl))
        if len(ofails) > 3:
            break

    for f in findings:
        if f["status"] == "open" and f.get("witness_blocks"):
            fl = oracle_doc(f["witness_blocks"])
            if any(x.split(":")[0] == f["key"] for x in fl):
                ctx.known_finding(f["key"], f["what"])

    reported = set()
    for rep, msg in ofails[:4]:
        tag = msg.split(":")[0]
        if tag in reported:
            continue
        reported.add(tag)
        if rep["kind"] == "parse":
            rep = dict(kind="parse", blocks=shrink_blocks(rep["blocks"], lambda bb: any(
                x.split(":")[0] == tag for x in oracle_doc(bb))))
        ctx.violation(f"oracle sentence failed on the implementation: {msg}", rep)
    if not ofails and (mism or not lean_ok):
        broken = [f"lean: {e}" for e in ctx.broken]
        rep = dict(kind="lean", no_longer_checks=broken)
        if mism:
            m = mism[0]
            broken.append(f"correspondence stream {m['kind']}/C15: model and implementation differ")
            rep = dict(m, no_longer_checks=broken)
        ctx.violation("correspondence/proof obligation broken and the oracle search (same budget) found no failing input; "
                      + "; ".join(broken), rep, no_input=True)

    ctx.coverage.update(
        evaluations=sum(len(c) for c in cases) + len(docs),
        distinct_nontrivial=len(distinct),
        rule="pandoc items/documents from a typed generator (all 22 supported constructors, old and new table layout, "
             "unsupported constructors, headers at arbitrary levels, titles with '/' and '\\\\'); distinct = distinct "
             "(item, ok/err) and (block-type sequence, outcome)",
        samples=[cases[0], docs[0]],
        traces_validated_against_impl=len(cases) + len(docs),
        constructor_histogram=kinds,
        correspondence_mismatches=len(mism),
        oracle_failures=len(ofails),
        fingerprints_changed=[],
        wall=round(time.time() - t0, 1),
    )
    ctx.assumptions += ["pandoc `Figure` (pandoc >= 3) is outside the model and excluded from the generator",
                        "PrettyTable layout replaced by the recording stand-in"]


def replay(rep):
    if rep.get("kind") == "parse":
        print(json.dumps(pandoc.impl_parse(rep["blocks"]), ensure_ascii=False, indent=1)[:3000])
        fl = oracle_doc(rep["blocks"])
        for x in fl:
            print("ORACLE FAILURE:", x)
        return 1 if fl else 0
    if rep.get("kind") == "md.conv":
        out, st = pandoc.impl_conv(rep["items"])
        fresh = [pandoc.impl_conv_fresh(it) for it in rep["items"]]
        print("shared:", out, "stack:", st)
        print("fresh :", fresh)
        return 1 if (out != fresh or st) else 0
    print(rep)
    return 1
