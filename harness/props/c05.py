"""C05 — Supported data round-trips exactly, and stably."""
from __future__ import annotations

import json
import time

from .. import objgen, valuecheck
from ..compare import same

REQUIRED = ["restore_key", "roundtrip", "roundtrip_stable", "key_texts_distinct"]


def check_value(v, k):
    """returns failure message or None"""
    r = valuecheck.cycle(v)
    if r[0] == "dump-error":
        return f"supported-dump-fails: dumps raised {r[1]}: {r[2]}"
    if r[0] == "load-error":
        return f"supported-load-fails: loads raised {r[1]}: {r[2]}"
    w = r[1]
    d = same(v, w)
    if d:
        return f"roundtrip-differs: {d}"
    if valuecheck.rng_draws(v) != valuecheck.rng_draws(w):
        return "rng-stream-differs: the loaded random generator continues a different stream"
    cur = w
    for i in range(k):
        r = valuecheck.cycle(cur)
        if r[0] != "ok":
            return f"unstable: cycle {i + 2} raised {r[1]}: {r[2]}"
        d = same(v, r[1])
        if d:
            return f"unstable: after {i + 2} cycles {d}"
        cur = r[1]
    return None


def run(ctx):
    t0 = time.time()
    lean_ok = ctx.build(required_theorems=REQUIRED)
    g = objgen.G(ctx.rng)
    n = ctx.budget(700, 40000)
    k = ctx.budget(1, 4)
    ofails, kinds, distinct = [], {}, set()
    samples = []
    for i in range(n):
        v, sup = g.value(0, supported=True)
        if not sup:
            continue
        kinds[type(v).__name__] = kinds.get(type(v).__name__, 0) + 1
        distinct.add(repr(v)[:200])
        if len(samples) < 3:
            samples.append(repr(v)[:300])
        msg = check_value(v, k if i % 5 == 0 else 0)
        if msg:
            ofails.append((msg, dict(kind="value", repr=repr(v)[:2000], seed=ctx.seed, index=i)))
            if len(ofails) > 4:
                break
    # the leaf families one by one (so that each is exercised at least a few dozen times whatever the seed)
    leaf_runs = 0
    for maker in (g.array, g.structured, g.npscalar, lambda: g.objarray(True), g.rng_obj, lambda: g.sparse(True), g.masked, g.callable_):
        for _ in range(ctx.budget(25, 1500)):
            v, _ = maker()
            leaf_runs += 1
            msg = check_value(v, 1)
            if msg:
                ofails.append((msg, dict(kind="value", repr=repr(v)[:2000], seed=ctx.seed)))
                break
    from ..iocheck import conclude

    cvals = [g.value(0, supported=(i % 2 == 0))[0] for i in range(ctx.budget(500, 20000))]
    ncorr, mism = valuecheck.value_correspondence(ctx, cvals)
    ctx.coverage["model_vs_impl_values"] = ncorr
    ctx.coverage["correspondence_mismatches"] = len(mism)
    ctx.coverage["traces_validated_against_impl"] = ncorr
    conclude(ctx, lean_ok, mism, ofails, "value/C05")
    ctx.coverage.update(
        evaluations=n + leaf_runs, distinct_nontrivial=len(distinct),
        rule="values from the supported grammar of harness/objgen.py (nested list/tuple/set/dict/OrderedDict/defaultdict with str/int/float/numpy keys; "
             "arrays of 18 dtypes x 9 shapes x C/F/strided; numpy scalars, dtypes, masked, object arrays, RNGs over 5 bit generators, sparse csr/csc/coo/bsr/dia "
             "matrices and arrays, ufuncs/types/partials/operator helpers, bytes, slices); distinct by repr",
        samples=samples, top_level_kinds=kinds, repeat_cycles=k + 1, leaf_family_runs=leaf_runs, wall=round(time.time() - t0, 1))
    ctx.assumptions += ["numpy .npy / scipy .npz codecs, RNG state get/set, float repr and json are library contracts exercised on every generated leaf, not proved"]


def replay(rep):
    print(json.dumps(rep, indent=1)[:2500])
    return 1
