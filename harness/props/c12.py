"""C12 — Archives are well-formed and independent of sink and compression."""
from __future__ import annotations

import io
import json
import os
import tempfile
import time
import zipfile
from pathlib import Path

from .. import objgen, valuecheck
from ..compare import same
from .c08 import zoo, walk_states

REQUIRED = ["run_refs_members", "refs_eq_members", "flow_facts", "skeleton_dump", "skeleton_dumps", "path_sink_gets_buffer",
            "file_sink_gets_buffer", "dumps_returns_buffer", "sink_independent"]
METHODS = [(zipfile.ZIP_STORED, None), (zipfile.ZIP_DEFLATED, None), (zipfile.ZIP_DEFLATED, 1), (zipfile.ZIP_DEFLATED, 9),
           (zipfile.ZIP_BZIP2, None), (zipfile.ZIP_BZIP2, 1), (zipfile.ZIP_LZMA, None),
           (zipfile.ZIP_DEFLATED, 0), (zipfile.ZIP_DEFLATED, -1), (zipfile.ZIP_BZIP2, 9), (zipfile.ZIP_STORED, 5), (zipfile.ZIP_LZMA, 3)]


def wellformed(data):
    """the property's sentences about one archive; returns failures"""
    import skops
    from skops.io._protocol import PROTOCOL

    fails = []
    if not zipfile.is_zipfile(io.BytesIO(data)):
        return ["not-a-zip: the archive is not a zip file"]
    with zipfile.ZipFile(io.BytesIO(data)) as z:
        names = z.namelist()
        if z.testzip() is not None:
            fails.append("zip-corrupt: testzip() reports a bad member")
        infos_ = z.infolist()
        end = data.rfind(b"PK\x05\x06")
        if (infos_ and min(i.header_offset for i in infos_) != 0) or (end >= 0 and end + 22 + len(z.comment) != len(data)):
            fails.append(f"zip-extra-bytes: the {len(data)} bytes hold more than one zip archive's worth (first member at offset "
                         f"{min(i.header_offset for i in infos_) if infos_ else 0}, end record at {end}): not the archive dumps() returns")
        if names.count("schema.json") != 1:
            fails.append(f"schema-missing: members are {names[:5]}")
            return fails
        try:
            schema = json.loads(z.read("schema.json"))
        except Exception as ex:
            return [f"schema-invalid: schema.json is not valid JSON ({type(ex).__name__})"]
    if schema.get("protocol") != PROTOCOL or schema.get("_skops_version") != skops.__version__:
        fails.append(f"root-fields: protocol={schema.get('protocol')!r} version={schema.get('_skops_version')!r}")
    refs = []

    def fn(st, path):
        for k in ("__loader__", "__class__", "__module__", "__id__"):
            if k not in st:
                fails.append(f"node-field-missing: node at {'/'.join(map(str, path)) or 'root'} ({st.get('__loader__')}) has no {k}")
        if "file" in st:
            refs.append(st["file"])

    walk_states(schema, fn)
    members = [n for n in names if n != "schema.json"]
    if len(set(names)) != len(names):
        fails.append("member-duplicate: a member name occurs twice")
    for r in refs:
        if r not in members:
            fails.append(f"ref-missing: node refers to member {r!r} which is not in the archive")
            break
    for m in members:
        if m not in refs:
            fails.append(f"member-orphan: member {m!r} is referred to by no node")
            break
        if "/" in m or "\\" in m or m.startswith(".") or os.path.isabs(m) or m != os.path.basename(m):
            fails.append(f"member-not-flat: member name {m!r}")
            break
    return fails[:3]


def member_digest(name, content):
    """what a member holds, independent of the clock: nested zips (.npz) are opened and described entry by entry"""
    if name.endswith(".npz"):
        try:
            with zipfile.ZipFile(io.BytesIO(content)) as z:
                return ("npz", tuple((i.filename, i.compress_type, z.read(i.filename)) for i in z.infolist()))
        except Exception as ex:
            return ("npz-unreadable", type(ex).__name__)
    return ("raw", content)


def normalised_members(data):
    schema, members, _ = valuecheck.archive_parts(data)
    _, files = valuecheck.normalise_schema(schema)
    return {f"{files[m]}.{m.rsplit('.', 1)[-1]}" if m in files else m: member_digest(m, c) for m, c in members.items()}


T2_SINKS = ["new-str", "new-path", "existing-str", "existing-path", "new-fileobj", "existing-fileobj", "existing-fileobj-middle", "bytesio", "dumps"]


def sink_correspondence(ctx, objs):
    """T2 for the sink theorems: the real dump/dumps in a forked, traced child against the regenerated skeletons run by the
    model on the same file-system state: operation trace, which paths changed, what an open file object received"""
    from .. import fscheck
    from . import c18

    mism, runs = [], 0
    picks, seen = [], 0
    from skops.io import dumps

    for name, obj in objs:
        try:
            n = len(dumps(obj))
        except Exception:
            continue
        seen += 1
        if seen in (1, 3) or name in ("scalar-states", "gen0", "gen7") or (ctx.thorough and seen % 9 == 0):
            picks.append((name, obj, n))
    for name, obj, n in picks:
        for sink in T2_SINKS:
            sb = fscheck.Sandbox()
            try:
                code, res, before, after, target = c18.attempt(sb, obj, sink)
                runs += 1
                rep = dict(kind="sink-trace", object=name, repr=repr(obj)[:400], sink=sink)
                if res is None or "child_error" in res:
                    mism.append(dict(what=f"child failed: {(res or {}).get('child_error', '')[-300:]}", **rep))
                    continue
                tkey = tuple(sb.rel(str(target)))
                meta = tuple(sb.rel(str(sb.root / "fileobj.json")))
                is_path = sink.endswith(("-str", "-path"))
                data = after["files"].get(tkey) if is_path else None
                chunks = [list(data)] if data is not None else [[7] * 5]
                prog = "dumps" if sink == "dumps" else "dump"
                m = ctx.driver.run([dict(op="fs.run", prog=prog, cwd=["w"], input=dict(abs=False, parts=[]),
                                         output=dict(abs=False, parts=[target.name]) if sink.endswith("-str") else
                                         dict(abs=True, parts=sb.rel(str(target))), dumpable=True, sinkIsPath=is_path, chunks=chunks,
                                         fresh="x", sysTmp=sb.rel(str(sb.systmp)), dirs=[list(d) for d in before["dirs"]],
                                         files=[[list(p_), list(c)] for p_, c in before["files"].items()])])[0]
                ok_model = m["sig"] in ("next", "ret")
                if (res["outcome"][0] == "ok") != ok_model:
                    mism.append(dict(what=f"outcome differs from the model's: {res['outcome']} vs {m['sig']}", **rep))
                    continue
                events = [e for e in fscheck.norm_events(res["events"]) if len(e) < 2 or tuple(e[1]) not in (meta,)]
                if "fileobj" in sink:
                    events = [e for e in events if len(e) < 2 or tuple(e[1]) != tkey]      # the harness's own open()
                mt = fscheck.model_trace(m["trace"])
                if events != mt:
                    mism.append(dict(what=f"file operations of dump to {sink} differ from the regenerated skeleton's", impl=events[:6], model=mt[:6], **rep))
                mfiles = {tuple(p_): bytes(c) for p_, c in m["fs"]["files"]}
                rfiles = {k: v for k, v in after["files"].items() if k != meta}
                if "fileobj" in sink:
                    mfiles.pop(tkey, None)
                    rfiles.pop(tkey, None)
                if mfiles != rfiles:
                    diff = sorted(k for k in set(mfiles) | set(rfiles) if mfiles.get(k) != rfiles.get(k))
                    mism.append(dict(what=f"files after dump to {sink} differ from the model's at {diff[:3]}", **rep))
                if sorted(map(list, after["dirs"])) != sorted(m["fs"]["dirs"]):
                    mism.append(dict(what=f"directories after dump to {sink} differ from the model's", **rep))
                if "fileobj" in sink or sink == "bytesio":
                    # model: the handle receives the buffer once, at its position; nothing else
                    import json as _json

                    info = _json.loads(after["files"][meta])
                    got = info["after"] - info["pos"]
                    if got != n:
                        mism.append(dict(what=f"the file object moved by {got} bytes, dumps() of the same object has {n} (model: the buffer, once)", **rep))
                    if len(m["handle"]) != 1:
                        mism.append(dict(what=f"model handle received {len(m['handle'])} buffers", **rep))
                if sink == "dumps" and (m["returned"] is None or m["trace"]):
                    mism.append(dict(what="model dumps returns nothing or touches files", **rep))
            finally:
                sb.cleanup()
    return mism, runs


def run(ctx):
    t0 = time.time()
    lean_ok = ctx.build(required_theorems=REQUIRED)
    from skops.io import dump, dumps, get_untrusted_types, load, loads

    g = objgen.G(ctx.rng)
    objs = [(name, o) for name, o in zoo()]
    # objects whose state is a temporary scalar (ids of temporaries are reused within one dump)
    objs.append(("scalar-states", [objgen.U.ScalarState(1000.25 + i) for i in range(8)]))
    # keys whose JSON object names collide with non-finite float keys (refused on the pinned tree; if a tree dumps them, the
    # archive has to be well-formed all the same)
    import numpy as _np

    for nm, a, b in (("nan", float("nan"), "NaN"), ("inf", float("inf"), "Infinity"), ("ninf", float("-inf"), "-Infinity")):
        objs.append((f"collide-{nm}", {a: _np.arange(3.0), b: _np.arange(4.0), "z": [b"x"]}))
    objs.append(("scalar-states-nested", {"a": [objgen.U.ScalarState(0.5), objgen.U.ScalarState(1.5)] * 3, "b": (objgen.U.ScalarState(2.5),)}))
    for i in range(ctx.budget(60, 700)):
        v, sup = g.value(0, supported=True)
        objs.append((f"gen{i}", v))
    ofails, evaluations, distinct = [], 0, set()
    samples = []
    d = tempfile.mkdtemp(prefix="verif-c12-")
    try:
        for name, obj in objs:
            # a dump of the same object wrapped together with something unsupported fails half way (after its arrays were
            # written); the dumps that follow must not be affected by it
            try:
                dumps([obj, {"k": (obj, memoryview(b"unsupported"))}])
            except Exception:
                pass
            try:
                base = dumps(obj)
            except Exception:
                continue
            distinct.add(name)
            for f in wellformed(base):
                ofails.append((f, dict(kind="object", object=name, repr=repr(obj)[:800], sink="dumps", method="STORED")))
            try:
                nbase, _ = valuecheck.normalise_schema(valuecheck.archive_parts(base)[0])
                mbase = normalised_members(base)
                base_obj = loads(base, trusted=get_untrusted_types(data=base))
            except Exception as ex:
                ofails.append((f"sink-unloadable: the archive returned by dumps() (after an earlier dump of the same object had failed half way) "
                               f"cannot be read back ({type(ex).__name__}: {str(ex)[:100]})",
                               dict(kind="object", object=name, repr=repr(obj)[:800], sink="dumps", method="STORED")))
                continue
            full = name in [n for n, _ in zoo()] or evaluations % 7 == 0
            methods = METHODS if full else [ctx.rng.choice(METHODS)]
            for method, level in methods:
                for sink in ("dumps", "str", "path", "fileobj", "fileobj-append", "fileobj-rw", "bytesio"):
                    evaluations += 1
                    kw = dict(compression=method, compresslevel=level)
                    p = Path(d) / "a.skops"
                    try:
                        if sink == "dumps":
                            data = dumps(obj, **kw)
                        elif sink == "str":
                            dump(obj, str(p), **kw)
                            data = p.read_bytes()
                        elif sink == "path":
                            dump(obj, p, **kw)
                            data = p.read_bytes()
                        elif sink == "bytesio":
                            bio = io.BytesIO()
                            dump(obj, bio, **kw)
                            data = bio.getvalue()
                        else:
                            if sink == "fileobj-append" and p.exists():
                                p.unlink()
                            mode = {"fileobj": "wb", "fileobj-append": "ab", "fileobj-rw": "w+b"}[sink]
                            with open(p, mode) as fh:
                                dump(obj, fh, **kw)
                            data = p.read_bytes()
                    except Exception as ex:
                        ofails.append((f"sink-fails: dump to {sink} with compression {method}/{level} raised {type(ex).__name__} although dumps() works",
                                       dict(kind="object", object=name, repr=repr(obj)[:800], sink=sink, method=method)))
                        continue
                    rep = dict(kind="object", object=name, repr=repr(obj)[:800], sink=sink, method=method, level=level)
                    wf = wellformed(data)
                    for f in wf:
                        ofails.append((f, rep))
                    if any(f.startswith(("not-a-zip", "schema-missing", "schema-invalid", "zip-corrupt")) for f in wf):
                        continue
                    schema, members, infos = valuecheck.archive_parts(data)
                    ns, _ = valuecheck.normalise_schema(schema)
                    if ns != nbase:
                        ofails.append((f"sink-dependent-schema: schema written to {sink} with compression {method}/{level} differs from dumps() beyond ids/uuids", rep))
                    try:
                        mnow = normalised_members(data)
                        if mnow != mbase:
                            diff = sorted(k for k in set(mnow) | set(mbase) if mnow.get(k) != mbase.get(k))
                            ofails.append((f"sink-dependent-members: content of members {diff[:3]} written to {sink} with compression "
                                           f"{method}/{level} differs from the dumps() archive", rep))
                    except Exception:
                        pass
                    bad_comp = [i.filename for i in infos if i.compress_type != method]
                    if bad_comp:
                        ofails.append((f"compression-ignored: members {bad_comp[:2]} are not stored with method {method}", rep))
                    try:
                        got = loads(data, trusted=get_untrusted_types(data=data))
                        dd = same(base_obj, got)
                        if dd:
                            ofails.append((f"sink-dependent-object: object loaded from {sink}/{method}/{level} differs: {dd}", rep))
                    except Exception as ex:
                        ofails.append((f"sink-unloadable: archive written to {sink} with {method}/{level} cannot be loaded ({type(ex).__name__})", rep))
                    if len(samples) < 2:
                        samples.append(dict(object=name, sink=sink, method=method, members=sorted(members)[:4], bytes=len(data)))
            # last, because the comparison itself touches the object (reading __dict__ of a functools.partial creates it)
            dd = same(obj, base_obj)
            if dd:
                ofails.append((f"archive-loads-differently: the archive returned by dumps() loads to an object that differs from the one written: {dd}",
                               dict(kind="object", object=name, repr=repr(obj)[:800], sink="dumps", method="STORED")))
            if len(ofails) > 5:
                break
    finally:
        for f in Path(d).iterdir():
            f.unlink()
        os.rmdir(d)
    mism, t2_runs = sink_correspondence(ctx, objs)
    from ..iocheck import conclude

    conclude(ctx, lean_ok, mism, ofails, "archive/C12")
    ctx.coverage.update(
        evaluations=evaluations, distinct_nontrivial=len(distinct),
        rule="zoo objects (all 7 compression settings x 7 sinks) and generated supported values (one random setting x 7 sinks; every 7th all settings): "
             "zip validity, schema fields, refs<->members, flat names, normalised schema and member-content equality across sinks and compression settings, loaded-object equality",
        sink_trace_runs=t2_runs, correspondence_mismatches=len(mism),
        samples=samples, sinks=["dumps", "str", "Path", "file object wb/ab/w+b", "BytesIO"], methods=[f"{m}/{l}" for m, l in METHODS], wall=round(time.time() - t0, 1))
    ctx.assumptions += ["zipfile's codec round trip (unzip(zip(c, members)) = members) is a library contract"]


def replay(rep):
    print(json.dumps(rep, indent=1, default=str)[:2500])
    return 1
