"""C19 — Malformed archives fail cleanly."""
from __future__ import annotations

import copy
import io
import json
import time
import zipfile

from .. import fuzzworker, ioarch, iocheck, valuecheck
from ..common import load_findings
from .c08 import walk_states, zoo

REQUIRED = ["load_total", "cycle_guard_terminates", "audit_exponential"]


# ------------------------------------------------------------------------------------------ mutators

def mutate_bytes(rng, data):
    b = bytearray(data)
    kind = rng.choice(["flip", "flip-many", "truncate", "zero", "insert", "swap", "tail", "dup"])
    n = len(b)
    if kind == "flip" and n:
        i = rng.randrange(n)
        b[i] ^= 1 << rng.randrange(8)
    elif kind == "flip-many" and n:
        for _ in range(rng.randint(2, 30)):
            b[rng.randrange(n)] = rng.randrange(256)
    elif kind == "truncate":
        b = b[: rng.randrange(n + 1)]
    elif kind == "zero" and n:
        i = rng.randrange(n)
        j = min(n, i + rng.randint(1, 200))
        b[i:j] = bytes(j - i)
    elif kind == "insert":
        i = rng.randrange(n + 1)
        b[i:i] = bytes(rng.randrange(256) for _ in range(rng.randint(1, 64)))
    elif kind == "swap" and n > 8:
        i, j = sorted(rng.sample(range(n - 4), 2))
        b[i:i + 4], b[j:j + 4] = b[j:j + 4], b[i:i + 4]
    elif kind == "tail" and n:
        k = min(n, rng.randint(1, 60))                 # the central directory / end record live here
        for _ in range(rng.randint(1, 6)):
            b[n - 1 - rng.randrange(k)] = rng.randrange(256)
    elif kind == "dup":
        b = b + b[rng.randrange(n + 1):]
    return bytes(b), f"bytes:{kind}"


def rebuild(schema_text, members, order=None, extra=()):
    buf = io.BytesIO()
    with zipfile.ZipFile(buf, "w") as z:
        names = list(members)
        if order:
            names = order
        if schema_text is not None:
            z.writestr("schema.json", schema_text)
        for n in names:
            z.writestr(n, members[n])
        for n, c in extra:
            z.writestr(n, c)
    return buf.getvalue()


NPZ_KINDS = ["indices-huge", "indices-negative", "indptr-broken", "shape-small", "shape-huge", "data-short", "format", "dtype", "drop-key", "offsets"]
NPY_KINDS = ["shape-bigger", "fortran", "dtype", "object-pickle", "empty", "huge-shape", "structured"]


def npz_semantic(rng, content, k=None):
    """a well-formed .npz (valid zip, valid .npy entries, valid CRCs) whose arrays are inconsistent with one another"""
    import numpy as np

    with np.load(io.BytesIO(content), allow_pickle=False) as z:
        arrs = {k: z[k] for k in z.files}
    k = k or rng.choice(NPZ_KINDS)
    if k == "indices-huge" and "indices" in arrs:
        arrs["indices"] = arrs["indices"] + rng.choice([10**6, 2**31 - 2, 10**12])
    elif k == "indices-negative" and "indices" in arrs:
        arrs["indices"] = -arrs["indices"] - 1
    elif k == "indptr-broken" and "indptr" in arrs:
        a = arrs["indptr"].copy()
        if a.size:
            a[-1] = rng.choice([10**6, -5, 0])
            if a.size > 2:
                a[1] = a[-1] + 7
        arrs["indptr"] = a
    elif k == "shape-small" and "shape" in arrs:
        arrs["shape"] = np.array([1] * len(arrs["shape"]))
    elif k == "shape-huge" and "shape" in arrs:
        arrs["shape"] = np.array([2**40] * len(arrs["shape"]))
    elif k == "data-short" and "data" in arrs:
        arrs["data"] = arrs["data"][: max(0, arrs["data"].shape[0] // 2)]
    elif k == "format" and "format" in arrs:
        arrs["format"] = np.array(rng.choice(["csr", "csc", "coo", "bsr", "dia", "xyz", ""]).encode())
    elif k == "dtype":
        kk = rng.choice(sorted(arrs))
        try:
            arrs[kk] = arrs[kk].astype(rng.choice(["float32", "int8", "complex64", "<U3", "bool"]))
        except Exception:
            pass
    elif k == "drop-key" and arrs:
        del arrs[rng.choice(sorted(arrs))]
    elif k == "offsets" and "offsets" in arrs:
        arrs["offsets"] = arrs["offsets"] * 10**6
    buf = io.BytesIO()
    (np.savez_compressed if rng.random() < 0.5 else np.savez)(buf, **arrs)
    return buf.getvalue(), k


def npy_semantic(rng, content, k=None):
    """a .npy member with a well-formed header that lies about its data"""
    import numpy as np

    a = np.load(io.BytesIO(content), allow_pickle=False)
    k = k or rng.choice(NPY_KINDS)
    buf = io.BytesIO()
    if k in ("shape-bigger", "huge-shape"):
        np.save(buf, a)
        raw = bytearray(buf.getvalue())
        hdr_end = raw.index(b"\n", 10) + 1
        header = raw[10:hdr_end].decode("latin1")
        new_shape = "(%d, %d)" % ((a.size + 5, 3) if k == "shape-bigger" else (2**31, 2**31))
        import re

        new_header = re.sub(r"'shape': \([^)]*\)", "'shape': " + new_shape, header)
        new_header = new_header[: len(header) - 1].ljust(len(header) - 1)[: len(header) - 1] + "\n"
        if len(new_header) == len(header):
            raw[10:hdr_end] = new_header.encode("latin1")
        return bytes(raw), k
    if k == "fortran":
        np.save(buf, np.asfortranarray(a.reshape(-1, 1) if a.ndim < 2 else a.T))
    elif k == "dtype":
        try:
            np.save(buf, a.astype(rng.choice(["complex128", "int8", "<U5", "bool", ">f4"])))
        except Exception:
            np.save(buf, a)
    elif k == "object-pickle":
        o = np.empty(2, dtype=object)
        o[0], o[1] = "x", [1, 2]
        np.save(buf, o, allow_pickle=True)
    elif k == "empty":
        np.save(buf, a[:0])
    else:
        np.save(buf, np.zeros(2, dtype=[("x", "i4"), ("y", "f8")]))
    return buf.getvalue(), k


def mutate_members(rng, schema, members):
    m = dict(members)
    kind = rng.choice(["drop", "extra", "garbage", "truncate-member", "swap-contents", "no-schema", "schema-not-json", "dup-name",
                       "empty-member", "extra-schema", "npz-semantic", "npz-semantic", "npy-semantic", "npy-semantic"])
    if kind in ("npz-semantic", "npy-semantic"):
        ext = ".npz" if kind == "npz-semantic" else ".npy"
        cands = [k for k in sorted(m) if k.endswith(ext)]
        if cands:
            k = rng.choice(cands)
            try:
                m[k], sub = (npz_semantic if ext == ".npz" else npy_semantic)(rng, m[k])
                return rebuild(json.dumps(schema), m), f"members:{kind}:{sub}"
            except Exception:
                pass
        kind = "garbage"
    text = json.dumps(schema)
    extra = []
    if kind == "drop" and m:
        del m[rng.choice(sorted(m))]
    elif kind == "extra":
        extra.append((rng.choice(["extra.npy", "../evil.npy", "/abs/evil.bin", "sub/dir/x.npz", "schema.json.bak", "", "a" * 300]),
                      bytes(rng.randrange(256) for _ in range(20))))
    elif kind == "garbage" and m:
        k = rng.choice(sorted(m))
        m[k] = bytes(rng.randrange(256) for _ in range(rng.randint(0, 300)))
    elif kind == "truncate-member" and m:
        k = rng.choice(sorted(m))
        m[k] = m[k][: rng.randrange(len(m[k]) + 1)]
    elif kind == "swap-contents" and len(m) > 1:
        a, b = rng.sample(sorted(m), 2)
        m[a], m[b] = m[b], m[a]
    elif kind == "no-schema":
        text = None
    elif kind == "schema-not-json":
        text = rng.choice(["", "{", "[1,2", "null", "3", '"str"', "[]", text[: len(text) // 2], text + "}", "﻿" + text, "{\"a\": NaN}"])
    elif kind == "dup-name" and m:
        k = rng.choice(sorted(m))
        extra.append((k, b"second copy"))
    elif kind == "empty-member" and m:
        m[rng.choice(sorted(m))] = b""
    elif kind == "extra-schema":
        extra.append(("schema.json", "{}"))
    try:
        import warnings

        with warnings.catch_warnings():
            warnings.simplefilter("ignore")
            return rebuild(text, m, extra=extra), f"members:{kind}"
    except Exception:
        return rebuild(json.dumps(schema), members), "members:none"


JUNK = [None, True, False, 0, -1, 1.5, 10**30, "", "x", "schema.json", "../../etc/passwd", [], [1], {}, {"a": 1}, "NaN", 1e308]


_TBL = None


def TRUSTED_BY_LOADER():
    global _TBL
    if _TBL is None:
        from ..common import VERIF

        try:
            per_kind = json.loads((VERIF / "generated" / "trust.json").read_text())["per_kind"]
        except Exception:
            per_kind = {}
        _TBL = {}
        for k, names in per_kind.items():
            _TBL.setdefault(k.split("@")[0], [])
            _TBL[k.split("@")[0]] = sorted(set(_TBL[k.split("@")[0]]) | set(names))
    return _TBL


def all_states(schema):
    out = []
    walk_states(schema, lambda st, path: out.append((st, path)))
    return out


def mutate_schema(rng, schema, members):
    s = copy.deepcopy(schema)
    states = all_states(s)
    kind = rng.choice(["retype", "drop-key", "repeat-id", "cross-id", "cycle", "deep", "wrong-member", "loader", "protocol", "shape",
                       "retype", "drop-key", "widen", "names", "evil-sharing", "swap-trusted-class", "swap-trusted-class"])
    st, path = rng.choice(states)
    if kind == "retype":
        keys = [k for k in st]
        if keys:
            k = rng.choice(keys)
            st[k] = rng.choice(JUNK)
            if k == "content" and rng.random() < 0.5 and isinstance(schema, dict):
                st[k] = rng.choice([[], {}, [copy.deepcopy(states[0][0])], {"x": copy.deepcopy(states[-1][0])}])
    elif kind == "drop-key":
        keys = [k for k in st]
        if keys:
            del st[rng.choice(keys)]
    elif kind == "repeat-id":
        other, _ = rng.choice(states)
        st["__id__"] = other.get("__id__")
    elif kind == "cross-id" and len(states) > 1:
        a, b = rng.sample(states, 2)
        a[0]["__id__"], b[0]["__id__"] = b[0].get("__id__"), a[0].get("__id__")
    elif kind == "cycle":
        # a descendant carries the id of one of its ancestors
        anc = [x for x, p in states if len(p) < len(path) and tuple(path[: len(p)]) == tuple(p)]
        if anc:
            st["__id__"] = rng.choice(anc).get("__id__")
        else:
            st["__id__"] = s.get("__id__")
    elif kind == "deep":
        depth = rng.choice([30, 200, 600, 1200, 3000])
        inner = s
        root_fields = {k: inner.pop(k) for k in ("protocol", "_skops_version") if k in inner}
        for i in range(depth):
            inner = {"__class__": "list", "__module__": "builtins", "__loader__": "ListNode", "content": [inner], "__id__": 10**9 + i}
        inner.update(root_fields)
        s = inner
    elif kind == "wrong-member":
        for x, _ in states:
            if "file" in x and rng.random() < 0.7:
                x["file"] = rng.choice(["missing.npy", "schema.json", "../x.npy", "/etc/passwd", "", 3, None] + sorted(members))
        else:
            st["file"] = rng.choice(["missing.npy", "schema.json"] + sorted(members))
    elif kind == "loader":
        st["__loader__"] = rng.choice(["NoSuchNode", "CachedNode", "JsonNode", "ListNode", "DictNode", "NdArrayNode", "SparseMatrixNode",
                                       "ObjectNode", "TypeNode", "FunctionNode", "MethodNode", "ReduceNode", "TreeNode", "SGDLossNode", 3, None])
    elif kind == "protocol":
        s["protocol"] = rng.choice([-1, 0, 1, 99, "2", None, 2.5, [], True, -10**15, 10**15, -2**63, 10**30])
    elif kind == "shape":
        for x, _ in states:
            if "shape" in x:
                x["shape"] = rng.choice([None, [], [-1], [10**9, 10**9], "x", [1, "a"], {"__loader__": "JsonNode"}, x["shape"]])
    elif kind == "widen":
        if isinstance(st.get("content"), list):
            st["content"] = st["content"] * rng.choice([2, 50, 2000])
    elif kind == "names":
        st["__module__"] = rng.choice(["", ".", "..", "nonexistent_module_xyz", "numpy..core", "a b", 3, None, "numpy", "builtins",
                                       # dotted names below installed packages whose import has side effects
                                       "numpy.conftest.fixtures", "numpy.linalg.tests.test_linalg.data", "numpy.f2py.crackfortran.x",
                                       "sklearn.experimental.enable_halving_search_cv.x", "scipy.conftest.x", "sklearn.conftest.x",
                                       "numpy.testing.print_coercion_tables.x", "scipy.special.tests.test_basic.x"])
        st["__class__"] = rng.choice(["", "__class__", "no_such_attr", "a.b", 3, None, "ndarray", "object"])
    elif kind == "swap-trusted-class":
        # another name the same loader trusts by default: passes the audit, reaches construct with a class the data was not made for
        names = TRUSTED_BY_LOADER().get(str(st.get("__loader__")), [])
        if names:
            mod, _, cls = rng.choice(names).rpartition(".")
            st["__module__"], st["__class__"] = mod, cls
    elif kind == "evil-sharing":
        # n nested two-element lists whose second element re-uses the first's id (bounded depth: the cost family is measured separately)
        inner = {"__class__": "int", "__module__": "builtins", "__loader__": "JsonNode", "content": "1", "is_json": True, "__id__": 5 * 10**8}
        for i in range(rng.randint(2, 9)):
            inner = {"__class__": "list", "__module__": "builtins", "__loader__": "ListNode", "__id__": 5 * 10**8 + i + 1,
                     "content": [inner, {"__id__": inner["__id__"], "__loader__": "ListNode", "__class__": "list", "__module__": "builtins", "content": []}]}
        root_fields = {k: s[k] for k in ("protocol", "_skops_version") if k in s}
        s = dict(inner, **root_fields)
    try:
        return ioarch.make_zip(s, members), f"schema:{kind}"
    except Exception:
        return ioarch.make_zip(schema, members), "schema:none"


def targeted(rng, bases, per_base_limit):
    """systematic stacks: every semantic corruption of a binary member x the node that refers to it renamed to every other
    name its loader trusts by default (so that the audit passes and construct meets data it was not made for)"""
    out = []
    for name, data, schema, members in bases:
        states = [(st, path) for st, path in all_states(copy.deepcopy(schema)) if isinstance(st.get("file"), str) and st["file"] in members]
        combos = []
        for st, path in states:
            ext = st["file"].rsplit(".", 1)[-1]
            kinds = ([None] + NPZ_KINDS) if ext == "npz" else ([None] + NPY_KINDS) if ext == "npy" else []
            swaps = [None] + TRUSTED_BY_LOADER().get(str(st.get("__loader__")), [])
            for k in kinds:
                for sw in swaps:
                    combos.append((path, st["file"], ext, k, sw))
        rng.shuffle(combos)
        # class-only renames (the member left alone) are few and are the ones that hand well-formed data to a parser that was
        # not made for it: all of them (up to a cap), then a sample of the member corruptions
        class_only = [c for c in combos if c[3] is None and c[4]]
        others = [c for c in combos if not (c[3] is None and c[4])]
        for path, fname, ext, k, sw in class_only[:max(400, per_base_limit)] + others[:per_base_limit]:
            s2 = copy.deepcopy(schema)
            m2 = dict(members)
            if k is None and not sw:
                continue
            try:
                if k is not None:                   # None: the member is left alone, only the class is renamed
                    m2[fname], _ = (npz_semantic if ext == "npz" else npy_semantic)(rng, members[fname], k)
            except Exception:
                continue
            node = s2
            for key in path:
                node = node[key]
            if sw:
                node["__module__"], _, node["__class__"] = sw.rpartition(".")
            try:
                out.append((ioarch.make_zip(s2, m2), dict(base=name, mutations=([f"members:{ext}-semantic:{k}"] if k else []) + ([f"schema:swap-trusted-class:{sw}"] if sw else []))))
            except Exception:
                pass
    return out


def evil_archive(n, proto, version):
    inner = {"__class__": "int", "__module__": "builtins", "__loader__": "JsonNode", "content": "1", "is_json": True, "__id__": 1000}
    for i in range(n):
        inner = {"__class__": "list", "__module__": "builtins", "__loader__": "ListNode", "__id__": 1001 + i,
                 "content": [inner, {"__id__": inner["__id__"]}]}
    inner["protocol"] = proto
    inner["_skops_version"] = version
    return ioarch.make_zip(inner, {})


def count_audit_visits(data):
    """number of Node.get_unsafe_set invocations during get_untrusted_types(data)"""
    import skops.io._audit as A
    from skops.io import get_untrusted_types

    n = [0]
    classes = {A.Node} | {c for c in A.NODE_TYPE_MAPPING.values()}
    saved = []
    for c in classes:
        for k in c.__mro__:
            if "get_unsafe_set" in k.__dict__ and not any(k is s_[0] for s_ in saved):
                real = k.__dict__["get_unsafe_set"]

                def counting(self, _real=real):
                    n[0] += 1
                    return _real(self)

                saved.append((k, real))
                setattr(k, "get_unsafe_set", counting)
    try:
        t = time.time()
        get_untrusted_types(data=data)
        return n[0], time.time() - t
    finally:
        for k, real in saved:
            setattr(k, "get_unsafe_set", real)


def audit_recomputation(data, limit_factor=20, timeout=15.0):
    """is the time of this archive spent re-auditing shared nodes?  Counts get_unsafe_set invocations during
    get_untrusted_types and visualize in a forked child and stops as soon as they exceed `limit_factor` x the number of states in the
    schema (+5000): a walk that visits every node once per reference stays far below that.  -> (True, states, visits) | (False, ..)"""
    import os
    import signal

    try:
        schema, _, _ = valuecheck.archive_parts(data)
        n_states = len(all_states(schema))
    except Exception:
        return False, 0, 0
    bound = limit_factor * n_states + 5000
    r, w = os.pipe()
    pid = os.fork()
    if pid == 0:
        os.close(r)
        out = "error"
        try:
            import skops.io._audit as A
            from skops.io import get_untrusted_types

            class _Stop(BaseException):
                pass

            n = [0]
            classes = {A.Node} | set(A.NODE_TYPE_MAPPING.values())
            done = set()
            for c in classes:
                for k in c.__mro__:
                    if "get_unsafe_set" in k.__dict__ and k not in done:
                        done.add(k)
                        real = k.__dict__["get_unsafe_set"]

                        def counting(self, _real=real):
                            n[0] += 1
                            if n[0] > bound:
                                raise _Stop()
                            return _real(self)

                        setattr(k, "get_unsafe_set", counting)
            try:
                try:
                    get_untrusted_types(data=data)
                except _Stop:
                    raise
                except Exception:
                    pass
                # visualize asks every row for is_safe(), i.e. walks the audit of the row's subtree again: the same call site
                from skops.io import visualize

                visualize(data, sink=lambda nodes, show, **kw: [None for _ in nodes])
                out = f"done {n[0]}"
            except _Stop:
                out = f"exceeded {n[0]}"
            except Exception as ex:
                out = f"raised {n[0]} {type(ex).__name__}"
        finally:
            os.write(w, out.encode())
            os._exit(0)
    os.close(w)
    import select

    ready, _, _ = select.select([r], [], [], timeout)
    if not ready:
        os.kill(pid, signal.SIGKILL)
        os.waitpid(pid, 0)
        os.close(r)
        return False, n_states, -1
    msg = os.read(r, 200).decode()
    os.close(r)
    os.waitpid(pid, 0)
    parts = msg.split()
    return parts[0] == "exceeded", n_states, int(parts[1]) if len(parts) > 1 and parts[1].isdigit() else 0


# ------------------------------------------------------------------------------------------ check

def run(ctx):
    t0 = time.time()
    lean_ok = ctx.build(required_theorems=REQUIRED)
    import skops
    from skops.io import dumps
    from skops.io._protocol import PROTOCOL

    findings = [f for f in load_findings() if f["property"] == "C19" and f["status"] == "open"]
    ofails, mism = [], []
    # ---- T2 (schema level): outcome class of the model vs the implementation on the adversarial grammar
    res = iocheck.run_engine(ctx, ctx.budget(150, 6000))
    mism += res["mismatches"]
    # ---- base archives
    bases = []
    for name, obj in zoo():
        try:
            data = dumps(obj)
            schema, members, _ = valuecheck.archive_parts(data)
            bases.append((name, data, schema, members))
        except Exception:
            pass
    import numpy as _np
    import scipy.sparse as _sp

    for name, obj in [("sparse-csr", _sp.csr_matrix(_np.eye(4) * 2)), ("sparse-csc", _sp.csc_matrix(_np.arange(12.0).reshape(3, 4))),
                      ("sparse-mixed", {"a": _sp.coo_matrix(_np.eye(3)), "b": [_sp.bsr_matrix(_np.eye(4)), _sp.dia_matrix(_np.eye(3))], "c": _sp.csr_array(_np.eye(2))}),
                      ("arrays-mixed", [_np.arange(6).reshape(2, 3), _np.asfortranarray(_np.arange(6.0).reshape(2, 3)), _np.array(["a", "bc"]), _np.ma.MaskedArray([1, 2], [0, 1])])]:
        try:
            data = dumps(obj)
            schema, members, _ = valuecheck.archive_parts(data)
            for _ in range(3):
                bases.append((name, data, schema, members))
        except Exception:
            pass
    for c in res["cases"][: ctx.budget(40, 400)]:
        bases.append((f"grammar:{c.origin}", c.data, c.schema, dict(c.members)))
    # ---- mutants (single and stacked)
    n_mut = ctx.budget(1400, 100000)
    batch, meta = [], []
    r = ctx.rng
    for i in range(n_mut):
        name, data, schema, members = r.choice(bases)
        tags = []
        stack = 1 if r.random() < 0.6 else r.randint(2, 4)
        for _ in range(stack):
            k = r.random()
            try:
                if k < 0.3:
                    data, tag = mutate_bytes(r, data)
                elif k < 0.5:
                    data, tag = mutate_members(r, schema, members)
                else:
                    data, tag = mutate_schema(r, schema, members)
                tags.append(tag)
                # later mutations of a stack work on what can still be parsed
                try:
                    schema, members, _ = valuecheck.archive_parts(data)
                except Exception:
                    pass
            except Exception:
                continue
        if len(data) > 1_500_000:
            # "promptly" is relative to the size of the input: multi-megabyte mutants (a widened list inside deep nesting)
            # only measure throughput; keep the unstacked base instead
            data, tags = r.choice(bases)[1], ["none:oversized-mutant-dropped"]
        batch.append(data)
        meta.append(dict(base=name, mutations=tags))
    seen_bases = {}
    for b in bases:
        seen_bases.setdefault(b[0], b)
    for data, m in targeted(r, [b for b in seen_bases.values() if b[3]], ctx.budget(60, 3000)):
        batch.append(data)
        meta.append(m)
    limit = 20.0
    results = fuzzworker.run_parallel(batch, limit=limit, workers=16)
    hist, kinds, depth_hist = {}, {}, {}
    slow_instances = []
    slowest = 0.0
    import base64

    for i, x in enumerate(results):
        for t in meta[i]["mutations"]:
            kinds[t] = kinds.get(t, 0) + 1
        depth_hist[len(meta[i]["mutations"])] = depth_hist.get(len(meta[i]["mutations"]), 0) + 1
        rep = dict(kind="mutant", base=meta[i]["base"], mutations=meta[i]["mutations"], archive_bytes=len(batch[i]),
                   archive_b64=base64.b64encode(batch[i]).decode() if len(batch[i]) < 200000 else None)
        if rep["archive_b64"] is None and x is not None and x.get("status") in ("hang", "crash"):
            import hashlib

            from ..common import VERIF

            big = VERIF / "evidence" / "replays" / f"C19_{hashlib.sha1(batch[i]).hexdigest()[:10]}.skops"
            big.parent.mkdir(parents=True, exist_ok=True)
            big.write_bytes(batch[i])
            rep["archive_file"] = str(big.relative_to(VERIF))
        if x is None:
            continue
        if x["status"] == "hang":
            # the recorded finding is identified by its call site: shared nodes re-audited once per path
            recomputed, n_states, visits = audit_recomputation(batch[i])
            if recomputed and any(f["key"] == "exponential-audit-shared-ids" for f in findings):
                slow_instances.append(dict(base=meta[i]["base"], mutations=meta[i]["mutations"], states=n_states, visits_when_stopped=visits))
                continue
            ofails.append((f"hang: no answer within {limit:.0f} s of CPU time on a mutant of {meta[i]['base']} ({meta[i]['mutations']})", rep))
            continue
        if x["status"] == "crash":
            ofails.append((f"interpreter-crash: worker died (exit {x.get('exit')}, signal {x.get('signal')}) on a mutant of {meta[i]['base']} "
                           f"({meta[i]['mutations']})", rep))
            continue
        for fn, (cls, exc, secs) in x["res"].items():
            hist[f"{fn}:{cls}:{exc}"] = hist.get(f"{fn}:{cls}:{exc}", 0) + 1
            slowest = max(slowest, secs)
            if cls == "non-ordinary":
                ofails.append((f"non-ordinary-exception: {fn} raised {exc} on a mutant of {meta[i]['base']} ({meta[i]['mutations']})", rep))
        if x["changed"]:
            ofails.append((f"process-state-changed: {x['changed']} differ after inspecting/loading a mutant of {meta[i]['base']} "
                           f"({meta[i]['mutations']}): {json.dumps(x['detail'])[:200]}", rep))
        if len(ofails) > 6:
            break
    # ---- the cost family: visits of the audit walk vs the model (Walk.audit_exponential)
    visits = []
    for n in range(1, ctx.budget(13, 17)):
        v, secs = count_audit_visits(evil_archive(n, PROTOCOL, skops.__version__))
        visits.append((n, v, round(secs, 3)))
    exponential = all(v == 2 ** (n + 1) - 1 for n, v, _ in visits)
    linear = all(v <= 2 * n + 1 for n, v, _ in visits)
    key = "exponential-audit-shared-ids"
    if exponential:
        if any(f["key"] == key for f in findings):
            ctx.known_finding(key, f"get_untrusted_types/load on {2 * visits[-1][0] + 1} nested states re-using ids performs "
                                   f"{visits[-1][1]} audit visits ({visits[-1][2]} s), doubling per level: 'terminate promptly' fails for this family"
                                   + (f"; {len(slow_instances)} generated mutant(s) exceeded the time limit for the same reason "
                                      f"(e.g. {slow_instances[0]['states']} states, stopped after {slow_instances[0]['visits_when_stopped']} visits)"
                                      if slow_instances else ""))
        else:
            ofails.append((f"exponential-audit: archive of n nested lists re-using ids costs 2^(n+1)-1 audit visits (n={visits[-1][0]}: {visits[-1][1]})",
                           dict(kind="cost-family", visits=visits)))
    elif not linear and any(v > 2 ** (n + 1) - 1 for n, v, _ in visits):
        ofails.append((f"audit-cost-worse: visits {visits[-3:]} exceed the model's 2^(n+1)-1", dict(kind="cost-family", visits=visits)))
    from ..iocheck import conclude

    conclude(ctx, lean_ok, mism, ofails, "io.load/C19")
    ctx.coverage.update(
        evaluations=len(batch) * 3 + len(res["obs"]), distinct_nontrivial=len(kinds),
        rule="mutants of zoo dumps and of adversarial-grammar archives: byte level (flip, many flips, truncate, zero range, insert, swap, tail/"
             "central directory, duplicate tail), member level (drop, extra incl. ../ and absolute names, garbage, truncated, swapped, no schema, "
             "non-JSON schema, duplicate names, empty, second schema), schema level (retype, drop key, repeat/cross-wire ids, cycles, nesting "
             "30-3000, wrong member refs, loaders, protocol, shapes, widened lists, names, nested id sharing), 40% stacked 2-4 deep; each runs "
             "get_untrusted_types, visualize and loads(trusted=reported) in a forked worker (20 s limit, 6 GB address space, dangerous names blocked): "
             "exit status, exception class, cwd/environ/sys.path/umask/global numpy RNG/files before vs after; schema-level model outcome compared",
        samples=[meta[0], meta[-1]], mutation_kinds=kinds, stack_depths=depth_hist, outcome_histogram=dict(sorted(hist.items(), key=lambda kv: -kv[1])[:40]),
        slowest_call_seconds=slowest, audit_visits_family=visits, audit_family_exponential=exponential, slow_instances_of_known_finding=slow_instances[:5],
        correspondence_mismatches=len(mism), model_outcomes_compared=len(res["obs"]), wall=round(time.time() - t0, 1))
    ctx.assumptions += [
        "PARTIAL: byte-level zip corruption and native code (np.load, load_npz, Cython __setstate__) are outside every Lean model; they are sampled in sandboxed workers",
        "the harness blocks resolution of general-purpose callables inside the workers (safety net), so a mutant that would reach one raises instead",
        "'promptly' is read as: 20 s wall clock for a mutant of an archive that loads in well under a second",
    ]


def replay(rep):
    import base64

    if rep.get("archive_b64") or rep.get("archive_file"):
        from ..common import VERIF

        data = base64.b64decode(rep["archive_b64"]) if rep.get("archive_b64") else (VERIF / rep["archive_file"]).read_bytes()
        rs = fuzzworker.run_batch([data], limit=20.0)
        print(json.dumps(rs, indent=1)[:2000])
        x = rs[0]
        bad = x is None or x["status"] != "ok" or x["changed"] or any(v[0] == "non-ordinary" for v in x["res"].values())
        return 1 if bad else 0
    print(json.dumps(rep, indent=1, default=str)[:3000])
    return 1
