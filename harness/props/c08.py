"""C08 — Archives of every supported protocol keep loading with the right loader."""
from __future__ import annotations

import io
import json
import time
import zipfile

from .. import ioarch, iocheck, iogen
from ..common import load_findings
from ..compare import same

REQUIRED = ["lookupKind_int", "lookup_eq_spec", "unchanged_kind_same", "unregistered_error", "oldPrefixClosed_of_bool",
            "registry_ok", "C08_current"]


def zoo():
    import numpy as np
    import operator
    from collections import OrderedDict, defaultdict
    from functools import partial
    from sklearn.ensemble import RandomForestClassifier, HistGradientBoostingClassifier
    from sklearn.linear_model import LogisticRegression, SGDClassifier
    from sklearn.pipeline import Pipeline
    from sklearn.preprocessing import FunctionTransformer, StandardScaler
    from sklearn.feature_extraction.text import TfidfTransformer
    import scipy.sparse as sp
    from scipy import special

    X = np.array([[0.0, 1.0], [1.0, 0.0], [1.0, 1.0], [0.0, 0.0]] * 5)
    y = np.array([0, 1, 1, 0] * 5)
    return [
        ("dict", {"a": [1, 2.5, None], 3: (1, 2), "s": {1, 2}}),
        ("arrays", [np.arange(4), np.array([[1.5, 2], [3, 4]]), np.int64(3), np.array([1, "a", None], dtype=object)]),
        ("ordered", OrderedDict(a=1)), ("defaultdict", defaultdict(list, {"k": [1]})),
        ("logreg", LogisticRegression().fit(X, y)),
        ("forest", RandomForestClassifier(n_estimators=2, random_state=0).fit(X, y)),
        ("hgb", HistGradientBoostingClassifier(max_iter=2).fit(X, y)),
        ("sgd-pipe", Pipeline([("s", StandardScaler()), ("c", SGDClassifier(max_iter=5, tol=None, random_state=0))]).fit(X, y)),
        ("ft-sqrt", FunctionTransformer(np.sqrt)), ("ft-exp10", FunctionTransformer(special.exp10)),
        ("ft-nested", {"k": [FunctionTransformer(np.log1p), (np.add, np.abs)]}),
        ("partial", partial(np.add, 1)), ("itemgetter", operator.itemgetter(1)), ("slice", slice(1, 5, 2)),
        ("rs", np.random.RandomState(3)), ("gen", np.random.default_rng(4)),
        ("gen-nested", {"rng": [np.random.Generator(np.random.MT19937(5)), 1]}),
        ("bytes", [b"ab", bytearray(b"cd")]), ("masked", np.ma.MaskedArray([1, 2], [0, 1])), ("dtype", np.dtype("float32")),
        ("dtypes-odd", [np.dtype(object), np.dtype("<U3"), np.dtype([("a", "f4", (2,)), ("b", "i4")]), np.dtype("datetime64[ns]"), np.dtype(">c16")]),
        ("sparse", sp.csr_matrix(np.eye(3))), ("tfidf", TfidfTransformer().fit(sp.csr_matrix(np.eye(3)))),
        ("method", StandardScaler().fit(X).transform), ("types", [int, np.float64, len]),
        # functions that are dispatcher objects in current numpy, plain functions when old archives were written
        ("np-functions", [np.mean, np.clip, np.nan_to_num, np.linalg.norm, np.where]),
        ("gens-same-type", [np.random.default_rng(1), np.random.default_rng(2), {"g": np.random.default_rng(3), "h": np.random.Generator(np.random.MT19937(4))},
                            np.random.Generator(np.random.MT19937(5))]),
    ]


def walk_states(s, fn, path=()):
    if isinstance(s, dict):
        if "__loader__" in s:
            fn(s, path)
        for k, v in list(s.items()):
            walk_states(v, fn, path + (k,))
    elif isinstance(s, list):
        for i, v in enumerate(s):
            walk_states(v, fn, path + (i,))


def downgrade(schema, target):
    """rewrite a current schema into the layout written under protocol `target` (0 or 1)"""
    s = json.loads(json.dumps(schema))
    changed = []

    def fn(st, path):
        if st.get("__loader__") == "FunctionNode" and target == 0:
            st["content"] = {"module_path": st["__module__"], "function": st["__class__"]}
            changed.append(("FunctionNode", path))
        if st.get("__loader__") == "RandomGeneratorNode":
            if target in (0, 1) and "seed_seq" in st.get("content", {}):
                del st["content"]["seed_seq"]
                changed.append(("RandomGeneratorNode", path))

    walk_states(s, fn)
    s["protocol"] = target
    return s, changed


def run(ctx):
    t0 = time.time()
    lean_ok = ctx.build(required_theorems=REQUIRED)
    ioarch.install_canaries()
    from skops.io import dumps, get_untrusted_types, loads
    from skops.io._audit import NODE_TYPE_MAPPING
    from skops.io._protocol import PROTOCOL

    fx = iogen.facts()
    findings = [f for f in load_findings() if f["property"] == "C08"]
    mism, ofails = [], []
    evaluations = 0
    samples = []

    # ---- 1. every (loader, protocol value): class of the node that is built -------------------------------
    g = iogen.Gen(ctx.rng, fx)
    protos = [-1, 0, 1, 2, 3, 4, "2", 2.0, 1.0, True, False, None, 2.5]
    loaders = sorted({k["loader"] for k in fx["kinds"]} | {"NoSuchNode"})
    pairs = 0
    for loader in loaders:
        kinds = [k for k in fx["kinds"] if k["loader"] == loader]
        for kind in kinds or [None]:
            # a state whose slots fit this kind's layout
            st = None
            for _ in range(30):
                g.members = {}
                cand = g.state(0, (), force_kind=kind) if kind else {"__class__": "x", "__module__": "y", "__loader__": loader}
                if kind:
                    cand["__loader__"] = loader
                cand["__id__"] = 1
                cand["protocol"] = kind["protocol"] if kind else PROTOCOL
                data = ioarch.make_zip(cand, g.members)
                try:
                    ioarch.impl_tree_dump(data, None)
                    st, members = cand, dict(g.members)
                    break
                except Exception:
                    if not kind:
                        st, members = cand, {}
                        break
            if st is None:
                continue
            reqs, datas = [], []
            for p in protos:
                s2 = dict(st)
                s2["protocol"] = p
                reqs.append(dict(op="io.load", schema=ioarch.enc(s2), members=list(members), trusted=[[]], fuel=300))
                datas.append(ioarch.make_zip(s2, members))
            mo = ctx.driver.run(reqs)
            for p, m, data in zip(protos, mo, datas):
                pairs += 1
                evaluations += 1
                try:
                    d = ioarch.impl_tree_dump(data, None)
                    icls, ierr = d[0]["cls"], None
                except Exception as ex:
                    icls, ierr = None, (type(ex).__name__, str(ex))
                mcls = m["dump"][0]["cls"] if m["r"] == "tree" else None
                if (mcls is None) != (icls is None) or (mcls and mcls != icls):
                    mism.append(dict(what=f"class of node for ({loader!r}, protocol={p!r}): model {mcls or m.get('e')}, implementation {icls or ierr[0]}",
                                     schema=st, protocol=p))
                # oracle: the class is the one registered for the smallest protocol not below p
                if isinstance(p, int) and not isinstance(p, bool):
                    want = None
                    if 0 <= p <= PROTOCOL:
                        for q in range(p, PROTOCOL + 1):
                            if (loader, q) in NODE_TYPE_MAPPING:
                                want = NODE_TYPE_MAPPING[(loader, q)]
                                break
                    else:
                        # a protocol number outside the known range: nothing is registered for it, the current loader applies
                        want = NODE_TYPE_MAPPING.get((loader, p)) or NODE_TYPE_MAPPING.get((loader, PROTOCOL))
                    if want is None:
                        if ierr is None or ierr[0] != "TypeError" or loader not in ierr[1]:
                            ofails.append((f"unregistered-loader: ({loader!r}, {p}) is not registered but get_tree gave {icls or ierr}",
                                           dict(kind="archive", schema=dict(st, protocol=p), members=sorted(members))))
                    else:
                        wn = f"{want.__module__}.{want.__qualname__}"
                        if icls is not None and icls != wn:
                            ofails.append((f"wrong-loader: ({loader!r}, protocol {p}) built {icls}, the loader registered for the smallest protocol >= {p} is {wn}",
                                           dict(kind="archive", schema=dict(st, protocol=p), members=sorted(members))))
                        elif icls is None and ierr and ierr[0] == "TypeError" and "find loader" in ierr[1]:
                            ofails.append((f"registered-loader-not-found: ({loader!r}, protocol {p}) has a registered loader ({wn}) but get_tree raised {ierr[1][:100]!r}",
                                           dict(kind="archive", schema=dict(st, protocol=p), members=sorted(members))))
    samples.append(dict(loaders=loaders, protocol_values=[repr(p) for p in protos]))

    # ---- 2. everything the dump emits is registered for the current protocol ------------------------------
    emitted = set()
    dumps_ = []
    for name, obj in zoo():
        try:
            data = dumps(obj)
        except Exception as ex:
            continue
        dumps_.append((name, obj, data))
        schema, _ = ioarch.read_schema(data)
        walk_states(schema, lambda st, path: emitted.add(st["__loader__"]))
        evaluations += 1
    for l in sorted(emitted):
        if (l, PROTOCOL) not in NODE_TYPE_MAPPING:
            ofails.append((f"emitted-unregistered: dump writes __loader__={l!r} but no loader is registered for the current protocol {PROTOCOL}",
                           dict(kind="emitted", loader=l)))

    # ---- 3. archives rewritten into older layouts load to the same object ---------------------------------
    downgraded = 0
    inproc = {}
    order_items = []
    for name, obj, data in dumps_:
        schema, names = ioarch.read_schema(data)
        with zipfile.ZipFile(io.BytesIO(data)) as z:
            members = {nm: z.read(nm) for nm in names}
        for target in (0, 1, PROTOCOL):
            s2, changed = downgrade(schema, target)
            d2 = ioarch.make_zip(s2, members)
            evaluations += 1
            downgraded += 1
            try:
                got = loads(d2, trusted=get_untrusted_types(data=d2))
                err = None
            except Exception as ex:
                got, err = None, type(ex).__name__
            inproc[f"{name}@{target}"] = err or "ok"
            if name != "method":
                order_items.append((name, target, d2))
            v0gen = target == 0 and any(c[0] == "RandomGeneratorNode" for c in changed)
            if err is not None:
                msg = f"old-archive-fails: {name} rewritten to protocol {target} ({[c[0] for c in changed]}) raised {err}"
                if v0gen and err == "AttributeError":
                    f = next((f for f in findings if f["key"] == "v0-generator" and f["status"] == "open"), None)
                    if f:
                        ctx.known.append("v0-generator") if "v0-generator" not in ctx.known else None
                        continue
                ofails.append((msg, dict(kind="downgrade", object=name, target=target, schema=s2, members=sorted(members))))
                continue
            d = same(obj, got) if name != "method" else same(obj.__func__, got.__func__)
            if d:
                ofails.append((f"old-archive-differs: {name} rewritten to protocol {target} loads to a different object: {d}",
                               dict(kind="downgrade", object=name, target=target, schema=s2, members=sorted(members))))
    # ---- 4. the loader chosen does not depend on which protocols the process has seen before -------------------
    orders = [[1, 0, PROTOCOL], [PROTOCOL, 1, 0], [1, PROTOCOL, 0], [0, 1, PROTOCOL]] if not ofails else []
    for order, res in zip(orders, fresh_order_runs(order_items, orders)):
        evaluations += len(res)
        if "__error__" in res:
            ofails.append((f"harness: fresh interpreter for order {order} failed: {res['__error__'][-300:]}", dict(kind="order", order=order)))
            continue
        for key, outcome in res.items():
            if outcome != inproc.get(key):
                if key.endswith("@0") and "gen" in key and outcome == "AttributeError":
                    continue
                ofails.append((f"order-dependent-loader: in a fresh process that loads protocols in the order {order}, {key} gives {outcome}; "
                               f"in a process that has seen every protocol it gives {inproc.get(key)}",
                               dict(kind="order", order=order, archive=key)))
                break
    # ---- the registry is live: a kind registered after archives of that protocol were loaded is found, one that is removed
    # again is refused again (skops' own tests register loaders this way)
    import skops.io._audit as _A
    from skops.io._general import ListNode as _ListNode

    late = 0
    for proto in sorted({0, 1, PROTOCOL}):
        key = ("VerifLateNode", proto)
        sch = {"__class__": "list", "__module__": "builtins", "__loader__": "VerifLateNode", "__id__": 1, "content": [],
               "protocol": proto, "_skops_version": "0"}
        data = ioarch.make_zip(sch, {})
        before_reg = ioarch.impl_load(data, None)
        _A.NODE_TYPE_MAPPING[key] = _ListNode
        try:
            while_reg = ioarch.impl_load(data, None)
        finally:
            del _A.NODE_TYPE_MAPPING[key]
        after_reg = ioarch.impl_load(data, None)
        late += 3
        rep_ = dict(kind="late-registration", protocol=proto, schema=sch)
        if before_reg["outcome"] == "ok":
            ofails.append((f"unregistered-loader: ('VerifLateNode', {proto}) is not registered but the archive loaded", rep_))
        if while_reg["outcome"] != "ok":
            ofails.append((f"registered-loader-not-found: ('VerifLateNode', {proto}) was registered after other archives of protocol {proto} "
                           f"had been loaded in this process and is not found: {while_reg}", rep_))
        if after_reg["outcome"] == "ok":
            ofails.append((f"unregistered-loader: ('VerifLateNode', {proto}) was removed from the registry again but the archive still loads", rep_))
    evaluations += late
    for k in set(ctx.known):
        f = next(f for f in findings if f["key"] == k)
        print(f"KNOWN-FINDING: property=C08 {k}: {f['what']}", flush=True)

    iocheck.conclude(ctx, lean_ok, mism, ofails, "io.lookup/C08")
    ctx.coverage.update(
        evaluations=evaluations, distinct_nontrivial=pairs,
        rule="exhaustive: every registered loader name (and an unregistered one) x protocol values -1..4, '2', 2.0, 1.0, True, False, None, 2.5; "
             "plus the object zoo dumped and rewritten into protocol 0 / 1 layouts at every FunctionNode / RandomGeneratorNode position",
        samples=samples, exhaustive=True, traces_validated_against_impl=pairs, loader_protocol_pairs=pairs,
        emitted_loaders=sorted(emitted), downgraded_archives=downgraded, correspondence_mismatches=len(mism),
        wall=round(time.time() - t0, 1))


def fresh_order_runs(items, orders):
    """each order in its own fresh interpreter: load every archive of the first protocol, then of the second, ...;
    the outcome per archive is 'ok' (equal to the object loaded from the current-protocol archive), 'differs' or the exception class"""
    import os
    import pickle
    import shutil
    import subprocess
    import sys
    import tempfile

    from ..common import VERIF

    if not orders:
        return []
    d = tempfile.mkdtemp(prefix="verif-c08-")
    try:
        with open(os.path.join(d, "items.pkl"), "wb") as f:
            pickle.dump(items, f)
        procs = []
        for i, order in enumerate(orders):
            out = os.path.join(d, f"o{i}.json")
            procs.append((out, subprocess.Popen([sys.executable, "-W", "ignore", "-m", "harness.props.c08", os.path.join(d, "items.pkl"),
                                                 ",".join(map(str, order)), out], cwd=str(VERIF), env=dict(os.environ, PYTHONPATH=str(VERIF)),
                                                stdout=subprocess.DEVNULL, stderr=subprocess.PIPE)))
        results = []
        for out, p in procs:
            _, err = p.communicate()
            if p.returncode != 0 or not os.path.exists(out):
                results.append({"__error__": (err or b"").decode()})
            else:
                results.append(json.load(open(out)))
        return results
    finally:
        shutil.rmtree(d, ignore_errors=True)


def _order_main(argv):
    import pickle
    import sys

    from ..common import VERIF

    sys.path.insert(0, str(VERIF / "harness" / "canary"))
    from skops.io import get_untrusted_types, loads
    from skops.io._protocol import PROTOCOL

    items = pickle.load(open(argv[0], "rb"))
    order = [int(x) for x in argv[1].split(",")]
    res, loaded = {}, {}
    for proto in order:
        for name, target, data in items:
            if target != proto:
                continue
            try:
                loaded[(name, target)] = loads(data, trusted=get_untrusted_types(data=data))
                res[f"{name}@{target}"] = "ok"
            except Exception as ex:
                res[f"{name}@{target}"] = type(ex).__name__
    for (name, target), obj in loaded.items():
        ref = loaded.get((name, PROTOCOL))
        if ref is not None and target != PROTOCOL and same(ref, obj):
            res[f"{name}@{target}"] = "differs: " + same(ref, obj)
    json.dump(res, open(argv[2], "w"))
    return 0


def replay(rep):
    print(json.dumps(rep, indent=1, default=str)[:3000])
    if rep.get("kind") in ("archive", "downgrade") and "schema" in rep:
        data = ioarch.make_zip(rep["schema"], {m: b"" for m in rep.get("members", [])})
        try:
            print(ioarch.impl_tree_dump(data, None)[0])
        except Exception as ex:
            print("get_tree raised", type(ex).__name__, ex)
    return 1


if __name__ == "__main__":
    import sys

    sys.exit(_order_main(sys.argv[1:]))
