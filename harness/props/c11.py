"""C11 — Nothing outside the documented families is trusted by default."""
from __future__ import annotations

import json
import time

from .. import ioarch, iocheck, iogen
from ..common import VERIF

REQUIRED = ["no_T_only_defaults", "no_T_only_defaults_archive", "untrusted_name_reported", "subsetSorted_sound", "disjointSorted_sound",
            "defaults_in_families", "defaults_not_dangerous", "table_vouched",
            "registries_filtered", "foreign_registration_not_default"]


def coherent_states(ctx, fx):
    """one state per registered kind on which get_tree succeeds (so that the audit is reached)"""
    g = iogen.Gen(ctx.rng, fx)
    out = []
    for kind in fx["kinds"]:
        for _ in range(40):
            g.members = {}
            cand = g.state(0, (), force_kind=kind, trusted_bias=1.0)
            cand["__loader__"] = kind["loader"]
            cand["__id__"] = 1
            cand["protocol"] = kind["protocol"]
            try:
                ioarch.impl_tree_dump(ioarch.make_zip(cand, g.members), None)
                out.append((kind, cand, dict(g.members)))
                break
            except Exception:
                continue
    return out


def run(ctx):
    t0 = time.time()
    lean_ok = ctx.build(required_theorems=REQUIRED)
    ioarch.install_canaries()
    from skops.io import get_untrusted_types, loads
    from skops.io.exceptions import UntrustedTypesFoundException

    fx = iogen.facts()
    trust = json.loads((VERIF / "generated" / "trust.json").read_text())
    ofails, mism = [], []
    evaluations = 0

    # ---- converse: every default-accepted name is a family member, none is a general-purpose callable -------
    bad_family = [n for n in trust["defaults"] if trust["tags"][n] in ("OTHER", "UNRESOLVED")]
    dangerous = set(trust["dangerous"])
    bad_danger = [n for n in trust["defaults"] if n in dangerous]
    for n in (bad_family + bad_danger)[:3]:
        kinds = [k for k, names in trust["per_kind"].items() if n in names]
        loader = kinds[0].split("@")[0] if kinds else "TypeNode"
        m, _, c = n.rpartition(".")
        schema = {"__class__": c, "__module__": m, "__loader__": loader, "__id__": 1, "protocol": fx["protocol"], "_skops_version": "x"}
        ofails.append((f"default-outside-families: {n!r} is trusted by default by {kinds} but resolves to "
                       f"{'a general-purpose callable' if n in dangerous else 'an object of no documented family'} ({trust['tags'].get(n)})",
                       dict(kind="archive", schema=schema, members=[], trusted=None, name=n, loaders=kinds)))

    # ---- every dangerous name in every name-bearing position is reported and refused ------------------------
    states = coherent_states(ctx, fx)
    names = trust["dangerous"]
    per_kind = ctx.budget(25, len(names))
    accepted_positions = 0
    always_safe = 0
    sample_log = []
    # ---- history: names a caller trusted in earlier calls must not stay trusted (the default lists are per call) --------
    from skops.io import dumps as _dumps
    from .c08 import zoo as _zoo

    primed = [n for n in ("posix.getcwd", "os.getcwd", "builtins.eval", "os.system", "subprocess.Popen", "builtins.getattr", "shutil.rmtree",
                          "operator.attrgetter", "functools.reduce", "numpy.load", "numpy.save", "builtins.open") if n in set(names)][:10]
    primed += [n for n in ctx.rng.sample(names, 6) if n not in primed]
    for zname, obj in _zoo():
        try:
            zdata = _dumps(obj)
        except Exception:
            continue
        for T in (primed, primed[:3], list(reversed(primed))):
            ioarch.impl_load(zdata, T)
            try:
                get_untrusted_types(data=zdata)
            except Exception:
                pass
    for kind, st, members in states:
        ioarch.impl_load(ioarch.make_zip(st, members), primed)
    for kind, st, members in states:
        sc = kind["self_check"]["mode"]
        # names that share their last component with a default-trusted one but live elsewhere go first for the loaders that
        # audit a function name (a comparison after "normalising" the module would let exactly these through)
        look = trust.get("lookalikes", [])
        look = look if (sc in ("fnSelf", "fnContent", "unknown") or "Function" in kind["loader"]) else ctx.rng.sample(look, min(len(look), 10))
        picks = names if per_kind >= len(names) else primed + look[:400] + ctx.rng.sample(names, per_kind)
        for n in picks:
            m, _, c = n.rpartition(".")
            s2 = json.loads(json.dumps(st))
            if sc == "fnContent":
                s2["content"] = {"module_path": m, "function": c}
            else:
                s2["__module__"], s2["__class__"] = m, c
            if kind["loader"] == "MethodNode":
                # the audited name of a bound method is <type of obj>.<attr>: make the *instance type* the dangerous name
                s2["content"]["obj"] = {"__class__": c, "__module__": m, "__loader__": "ObjectNode", "__id__": 77, "content": None}
                s2["content"]["func"] = "run"
            data = ioarch.make_zip(s2, members)
            evaluations += 1
            try:
                rep = get_untrusted_types(data=data)
            except Exception as ex:
                rep = None
            r = ioarch.impl_load(data, None)
            used = [e for e in r["events"] if e == n]
            if len(sample_log) < 3:
                sample_log.append(dict(loader=kind["loader"], protocol=kind["protocol"], name=n, reported=rep, outcome=r["outcome"]))
            if sc == "always":
                always_safe += 1
                if used:
                    ofails.append((f"unaudited-name-used: {kind['loader']} ignores its name in the audit but resolved {n!r} with trusted=None",
                                   dict(kind="archive", schema=s2, members=sorted(members), trusted=None)))
                continue
            # a loader whose state names a function twice (header and content.module_path/function): the dangerous name in either
            # place alone, the other left as the honest default-trusted one - whichever of the two the audit reads, the name that
            # is resolved must be the one that was audited (independent of how the translator reads the loader)
            if isinstance(st.get("content"), dict) and "module_path" in st["content"]:
                for place in ("header", "content"):
                    s3 = json.loads(json.dumps(st))
                    if place == "header":
                        s3["__module__"], s3["__class__"] = m, c
                    else:
                        s3["content"]["module_path"], s3["content"]["function"] = m, c
                    d3 = ioarch.make_zip(s3, members)
                    evaluations += 1
                    r3 = ioarch.impl_load(d3, None)
                    if n in r3["events"]:
                        ofails.append((f"dangerous-accepted: {kind['loader']}@{kind['protocol']} with {n!r} in its {place} only (the other name is the "
                                       f"default-trusted {st['__module__']}.{st['__class__']}) resolved it with trusted=None (outcome {r3['outcome']})",
                                       dict(kind="archive", schema=s3, members=sorted(members), trusted=None)))
                        break
            want = n if kind["loader"] != "MethodNode" else n + ".run"
            if r["outcome"] == "ok" or used:
                ofails.append((f"dangerous-accepted: {kind['loader']}@{kind['protocol']} named {n!r} loaded/resolved with trusted=None (outcome {r['outcome']})"
                               + (" after earlier calls in this process had passed it in their own trusted lists" if n in primed else ""),
                               dict(kind="archive", schema=s2, members=sorted(members), trusted=None, primed_with=primed if n in primed else None)))
            elif rep is not None and want not in rep:
                ofails.append((f"dangerous-unreported: get_untrusted_types does not report {want!r} for a {kind['loader']}@{kind['protocol']} (reported {rep})",
                               dict(kind="archive", schema=s2, members=sorted(members), trusted=None)))
            elif r["outcome"] == "untrusted" and want not in r["names"]:
                ofails.append((f"dangerous-unnamed: load refused a {kind['loader']} named {n!r} but the exception names {r['names']}",
                               dict(kind="archive", schema=s2, members=sorted(members), trusted=None)))
            else:
                accepted_positions += 1
            if len(ofails) > 6:
                break
        if len(ofails) > 6:
            break

    # ---- every child position of every kind: a node there that names a dangerous callable is reported and refused as well
    # (loaders hand their own trusted lists down to some children)
    def child_positions(state, path=()):
        out = []
        if isinstance(state, dict):
            for k, v in state.items():
                if isinstance(v, dict) and "__loader__" in v:
                    out.append(path + (k,))
                out += child_positions(v, path + (k,))
        elif isinstance(state, list):
            for i, v in enumerate(state):
                if isinstance(v, dict) and "__loader__" in v:
                    out.append(path + (i,))
                out += child_positions(v, path + (i,))
        return out

    def intruders(m, c):
        tup = {"__class__": "tuple", "__module__": "builtins", "__loader__": "TupleNode", "content": [], "__id__": 9001}
        return [
            ("TypeNode", {"__class__": c, "__module__": m, "__loader__": "TypeNode", "__id__": 9000}),
            ("ConstructorFromReduceNode", {"__class__": c, "__module__": m, "__loader__": "ConstructorFromReduceNode", "__id__": 9000, "content": tup}),
            ("ObjectNode", {"__class__": c, "__module__": m, "__loader__": "ObjectNode", "__id__": 9000}),
            ("FunctionNode", {"__class__": c, "__module__": m, "__loader__": "FunctionNode", "__id__": 9000, "content": f"{m}.{c}"}),
        ]

    builtin_danger = [n for n in ("builtins.type", "builtins.super", "builtins.memoryview", "builtins.classmethod", "builtins.eval", "builtins.getattr",
                                  "builtins.open", "builtins.compile") if n in set(names) or n.startswith("builtins.")]
    child_names = primed[:6] + builtin_danger + ctx.rng.sample(names, ctx.budget(4, 60))
    child_cases = 0
    for kind, st, members in states:
        for pos in child_positions(st)[:4]:
            for n in child_names:
                m, _, c = n.rpartition(".")
                for ikind, intr in intruders(m, c):
                    s2 = json.loads(json.dumps(st))
                    cur = s2
                    for k in pos[:-1]:
                        cur = cur[k]
                    cur[pos[-1]] = intr
                    data = ioarch.make_zip(s2, members)
                    try:
                        rep = get_untrusted_types(data=data)
                        tree_nodes = ioarch.impl_tree_dump(data, None)
                    except Exception:
                        continue                      # this kind does not accept such a child there: the audit is not reached
                    if not any(nd.get("t") == "node" and (nd.get("mod"), nd.get("name")) == (m, c) for nd in tree_nodes):
                        continue                      # the position is raw data for this loader (e.g. a slice bound): no node is built there
                    evaluations += 1
                    child_cases += 1
                    r = ioarch.impl_load(data, None)
                    if n in r["events"] or (r["outcome"] == "ok"):
                        ofails.append((f"dangerous-accepted: a {ikind} naming {n!r} in child position {'/'.join(map(str, pos))} of a "
                                       f"{kind['loader']}@{kind['protocol']} loaded/resolved with trusted=None (outcome {r['outcome']})",
                                       dict(kind="archive", schema=s2, members=sorted(members), trusted=None)))
                    elif n not in rep:
                        ofails.append((f"dangerous-unreported: get_untrusted_types does not report {n!r} named by a {ikind} in child position "
                                       f"{'/'.join(map(str, pos))} of a {kind['loader']}@{kind['protocol']} (reported {rep[:4]})",
                                       dict(kind="archive", schema=s2, members=sorted(members), trusted=None)))
                    if len(ofails) > 6:
                        break
                if len(ofails) > 6:
                    break
            if len(ofails) > 6:
                break
        if len(ofails) > 6:
            break

    # ---- bound methods of default-trusted receivers: the attribute name is audited whatever the receiver is ----------
    receivers = [dict(__class__="list", __module__="builtins", __loader__="ListNode", __id__=71, content=[]),
                 dict(__class__="dict", __module__="builtins", __loader__="DictNode", __id__=72, content={},
                      key_types=dict(__class__="list", __module__="builtins", __loader__="ListNode", __id__=73, content=[])),
                 dict(__class__="set", __module__="builtins", __loader__="SetNode", __id__=74, content=[])]
    try:
        from sklearn.preprocessing import StandardScaler

        sch, _ = ioarch.read_schema(_dumps(StandardScaler()))
        receivers.append({k: v for k, v in sch.items() if k not in ("protocol", "_skops_version")})
        import numpy as _np

        zd = _dumps(_np.arange(3))
        sch, nm = ioarch.read_schema(zd)
        import io as _io
        import zipfile as _zip

        with _zip.ZipFile(_io.BytesIO(zd)) as z:
            arr_members = {n_: z.read(n_) for n_ in nm}
        receivers.append({k: v for k, v in sch.items() if k not in ("protocol", "_skops_version")})
    except Exception:
        arr_members = {}
    method_names = ["append", "clear", "tofile", "dump", "__reduce_ex__", "__class__", "__init__", "fit", "copy", "pop", "update", "__getattribute__"]
    for rcv in receivers:
        for attr in method_names:
            s2 = {"__class__": attr, "__module__": rcv["__module__"], "__loader__": "MethodNode", "__id__": 70,
                  "content": {"func": attr, "obj": json.loads(json.dumps(rcv))}, "protocol": fx["protocol"], "_skops_version": "x"}
            data = ioarch.make_zip(s2, arr_members)
            evaluations += 1
            try:
                rep = get_untrusted_types(data=data)
            except Exception:
                continue                       # the archive did not reach the audit
            r = ioarch.impl_load(data, None)
            want = f"{rcv['__module__']}.{rcv['__class__']}.{attr}"
            if r["outcome"] == "ok":
                ofails.append((f"method-accepted: bound method {want} of a default-trusted receiver loads with trusted=None",
                               dict(kind="archive", schema=s2, members=sorted(arr_members), trusted=None)))
                break
            if want not in (rep or []):
                ofails.append((f"method-unreported: get_untrusted_types does not report {want!r} for a MethodNode on a default-trusted receiver (reported {rep})",
                               dict(kind="archive", schema=s2, members=sorted(arr_members), trusted=None)))
                break
            accepted_positions += 1

    # ---- the default lists are computed at import time from registries other packages can write to: in a fresh interpreter
    # in which a foreign package registered its classes first, those classes must still be reported and refused
    import os
    import subprocess
    import sys as _sys

    from ..common import VERIF as _VERIF

    p_ = subprocess.run([_sys.executable, "-W", "ignore", "-m", "harness.c11_preimport"], cwd=str(_VERIF), capture_output=True, text=True,
                        env=dict(os.environ, PYTHONPATH=str(_VERIF)), timeout=600)
    preimport_cases = 0
    try:
        pre = json.loads(p_.stdout.strip().splitlines()[-1])
        preimport_cases = pre["cases"]
        for pr in pre["problems"][:3]:
            ofails.append((f"foreign-registration-trusted: after another package registered its class with scikit-learn/numpy before "
                           f"skops.io was imported, {pr['case']}: {pr['what']}",
                           dict(kind="preimport", run="python -m harness.c11_preimport", case=pr["case"], name=pr["name"], schema=pr["schema"])))
    except Exception:
        ofails.append((f"harness: the pre-import interpreter failed: {p_.stderr[-300:]}", dict(kind="preimport")))
    evaluations += preimport_cases

    # ---- model/implementation tie for the default lists themselves ------------------------------------------
    res = iocheck.run_engine(ctx, ctx.budget(120, 3000))
    mism = res["mismatches"]

    iocheck.conclude(ctx, lean_ok, mism, ofails, "io.load/C11")
    ctx.coverage.update(
        evaluations=evaluations + len(res["obs"]), distinct_nontrivial=accepted_positions + always_safe,
        rule="(registered kind, protocol, name-bearing position) x dangerous names (quick: a seeded sample of %d per kind; thorough: all %d); "
             "a case counts when the archive reached the audit and was reported+refused" % (per_kind, len(names)),
        samples=sample_log, exhaustive=per_kind >= len(names), kinds_with_coherent_state=len(states),
        default_names=len(trust["defaults"]), dangerous_names=len(names),
        family_histogram={t: sum(1 for v in trust["tags"].values() if v == t) for t in set(trust["tags"].values())},
        refused_positions=accepted_positions, child_position_cases=child_cases, name_ignoring_kinds_checked=always_safe,
        correspondence_mismatches=len(mism), wall=round(time.time() - t0, 1))
    ctx.assumptions += ["family predicates and name resolution are evaluated by Python in the pinned environment (translate/trust.py); "
                        "Lean decides the set algebra over interned ids",
                        "JsonNode and SliceNode never use their __module__/__class__, so those fields are not name-bearing positions"]


def replay(rep):
    from . import c01

    if rep.get("kind") == "preimport":
        import os
        import subprocess
        import sys

        p = subprocess.run([sys.executable, "-W", "ignore", "-m", "harness.c11_preimport"], cwd=str(VERIF), capture_output=True, text=True,
                           env=dict(os.environ, PYTHONPATH=str(VERIF)))
        print(p.stdout[-3000:], p.stderr[-500:])
        try:
            return 1 if json.loads(p.stdout.strip().splitlines()[-1])["problems"] else 0
        except Exception:
            return 1

    if rep.get("primed_with"):
        # the failing history: earlier calls of this process trusted these names explicitly
        from skops.io import dumps
        from .c08 import zoo

        for _, obj in zoo():
            try:
                ioarch.impl_load(dumps(obj), rep["primed_with"])
            except Exception:
                pass

    return c01.replay(rep)
