"""C06 — The sharing structure of the object graph is preserved."""
from __future__ import annotations

import json
import time

import numpy as np

from .. import valuecheck
from ..compare import same

REQUIRED = ["step_inv", "run_inv", "ids_faithful", "without_pin_ids_collide", "flow_facts",
            "all_kinds_memoize", "second_reference_shares", "first_reference_memoized"]
MUTABLE = (list, dict, set, bytearray, np.ndarray)


def gen_graph(rng, stress):
    """a DAG with shared mutable objects at several depths (inside tuples and object arrays too) and, when
    `stress`, constructs that make the dump allocate many short-lived temporaries"""
    import scipy.sparse as sp
    from sklearn.preprocessing import StandardScaler

    counter = [0]

    def fresh_array():
        counter[0] += 1
        a = np.arange(3, dtype=rng.choice(["float64", "int32"])) + 1000 * counter[0]
        return a

    pool = []
    for _ in range(rng.randint(2, 6)):
        k = rng.choice(["list", "dict", "set", "bytearray", "array", "array", "sparse", "estimator", "rng", "objarr", "dtype", "scalarstate",
                        "matrix", "ndsub", "bytearray-sub", "bytearray-empty", "masked", "defaultdict", "ordered"])
        if k == "list":
            pool.append([rng.randint(0, 9)])
        elif k == "dict":
            pool.append({"k": rng.randint(0, 9)})
        elif k == "set":
            pool.append({rng.randint(0, 9)})
        elif k == "bytearray":
            pool.append(bytearray(b"ab"))
        elif k == "array":
            pool.append(fresh_array())
        elif k == "matrix":
            pool.append(np.matrix(fresh_array()))
        elif k == "ndsub":
            from ..objgen import U

            pool.append(U.MyArray(fresh_array()))
        elif k == "bytearray-sub":
            from ..objgen import U

            pool.append(U.MyByteArray(b"sub"))
        elif k == "bytearray-empty":
            pool.append(bytearray())
        elif k == "masked":
            pool.append(np.ma.MaskedArray(fresh_array(), [0, 1, 0]))
        elif k == "defaultdict":
            import collections

            pool.append(collections.defaultdict(list, {"k": [rng.randint(0, 9)]}))
        elif k == "ordered":
            import collections

            pool.append(collections.OrderedDict(a=[rng.randint(0, 9)]))
        elif k == "sparse":
            counter[0] += 1
            pool.append(sp.csr_matrix(np.eye(2) * (1000 * counter[0])))
        elif k == "estimator":
            pool.append(StandardScaler().fit(np.arange(6.0).reshape(3, 2)))
        elif k == "rng":
            pool.append(np.random.RandomState(rng.randint(0, 9)))
        elif k == "dtype":
            # distinct dtype objects (their helper arrays are temporaries of the dump); compared by value
            counter[0] += 1
            pool.append([np.dtype(rng.choice(["int32", "float64", ">i2", "uint8", "complex64", "<U3"])) for _ in range(rng.randint(2, 4))])
        elif k == "scalarstate":
            from ..objgen import U

            counter[0] += 1
            pool.append([U.ScalarState(1000.0 * counter[0] + i + 0.25) for i in range(rng.randint(2, 5))])
        else:
            oa = np.empty(2, dtype=object)
            oa[0], oa[1] = [1], "s"
            pool.append(oa)

    def node(depth):
        r = rng.random()
        if depth > 3 or r < 0.35:
            return rng.choice(pool)
        if r < 0.55:
            return [node(depth + 1) for _ in range(rng.randint(1, 3))]
        if r < 0.7:
            return tuple(node(depth + 1) for _ in range(rng.randint(1, 3)))
        if r < 0.85:
            return {f"k{i}": node(depth + 1) for i in range(rng.randint(1, 3))}
        oa = np.empty(rng.randint(1, 3), dtype=object)
        for i in range(len(oa)):
            oa[i] = node(depth + 1)
        return oa

    g = [node(0) for _ in range(rng.randint(2, 5))]
    if stress:
        # object arrays of many cells (tolist() copies, shape tuples), masked arrays (fresh views), defaultdicts (dict() copies)
        import collections

        big = np.empty((rng.randint(20, 60), 3), dtype=object)
        for i in range(big.shape[0]):
            for j in range(3):
                big[i, j] = rng.choice(pool) if rng.random() < 0.3 else (i, j)
        g.append(big)
        g.append([np.ma.MaskedArray(fresh_array(), [0, 1, 0]) for _ in range(rng.randint(5, 20))])
        g.append(collections.defaultdict(list, {f"d{i}": rng.choice(pool) for i in range(rng.randint(5, 30))}))
        g.append([{"t": (i, [i])} for i in range(rng.randint(50, 300))])
        g.append(rng.choice(pool))
    return g, counter[0]


def layout_variant(rng, k):
    """distinct numeric arrays in every memory layout: contiguous, Fortran, strided 1-D/2-D/3-D views, transposes, non-native byte order"""
    base = np.arange(48.0).reshape(6, 8) + 100 * k
    return rng.choice([
        lambda: np.arange(4.0) + 10 * k,
        lambda: base.copy(),
        lambda: np.asfortranarray(base),
        lambda: base[:, ::3],
        lambda: base[::2, ::2],
        lambda: base.T,
        lambda: base[1:5, 2:7],
        lambda: base.reshape(2, 3, 8)[:, ::2, ::4],
        lambda: base.ravel()[::5],
        lambda: base.astype(">f8")[::2],
        lambda: np.broadcast_to(np.arange(3.0) + k, (4, 3)),
        lambda: (np.arange(12) + k).reshape(3, 4).astype("int16")[:, 1:3],
    ])()


def positions(v, out=None, seen=None, depth=0):
    """mutable sub-objects in deterministic traversal order (every occurrence, not only the first)"""
    import scipy.sparse as sp

    if out is None:
        out, seen = [], set()
    if isinstance(v, MUTABLE) or sp.issparse(v) or hasattr(v, "__dict__") and not isinstance(v, type) and not callable(v):
        out.append(v)
    if id(v) in seen or depth > 12:
        return out
    seen.add(id(v))
    if isinstance(v, (list, tuple)):
        for x in v:
            positions(x, out, seen, depth + 1)
    elif isinstance(v, dict):
        for x in v.values():
            positions(x, out, seen, depth + 1)
    elif isinstance(v, np.ndarray) and v.dtype == object:
        for x in v.ravel(order="C").tolist():
            positions(x, out, seen, depth + 1)
    elif isinstance(v, np.ma.MaskedArray):
        pass
    elif hasattr(v, "__dict__") and not isinstance(v, (type, np.ndarray)):
        for k in sorted(vars(v)):
            positions(vars(v)[k], out, seen, depth + 1)
    return out


def partition(ps):
    first = {}
    return [first.setdefault(id(p), i) for i, p in enumerate(ps)]


def check_graph(g, n_arrays_hint):
    r = valuecheck.cycle(g)
    if r[0] != "ok":
        return f"graph-not-persisted: {r[0]} {r[1]}: {r[2]}", None
    loaded, data = r[1], r[2]
    d = same(g, loaded)
    if d:
        return f"graph-differs: {d}", data
    a, b = positions(g), positions(loaded)
    if len(a) != len(b):
        return f"graph-differs: {len(a)} vs {len(b)} mutable positions", data
    pa, pb = partition(a), partition(b)
    if pa != pb:
        i = next(i for i, (x, y) in enumerate(zip(pa, pb)) if x != y)
        kind = "merged" if pb[i] < i and pa[i] == i else "split"
        return (f"sharing-{kind}: position {i} ({type(a[i]).__name__}): original is{'' if pa[i] != i else ' not'} shared with position {pa[i]}, "
                f"loaded is{'' if pb[i] != i else ' not'} shared with position {pb[i]}"), data
    # stored once: one member per distinct array / sparse object
    import scipy.sparse as sp

    schema, members, _ = valuecheck.archive_parts(data)
    arrays = {id(x) for x in a if isinstance(x, np.ndarray) and x.dtype != object and not isinstance(x, np.ma.MaskedArray)}
    sparse = {id(x) for x in a if sp.issparse(x)}
    npz = [m for m in members if m.endswith(".npz")]
    if len(npz) != len(sparse):
        return f"stored-not-once: {len(sparse)} distinct sparse matrices but {len(npz)} .npz members", data
    return None, data


def run(ctx):
    t0 = time.time()
    lean_ok = ctx.build(required_theorems=REQUIRED)
    n = ctx.budget(120, 6000)
    ofails, sizes = [], []
    samples = []
    temporaries = 0
    for i in range(n):
        stress = i % 2 == 1
        g, na = gen_graph(ctx.rng, stress)
        msg, data = check_graph(g, na)
        ps = positions(g)
        sizes.append(len(ps))
        if len(samples) < 2:
            samples.append(dict(positions=len(ps), shared=len(ps) - len(set(map(id, ps))), stress=stress, top=repr(g)[:200]))
        if msg:
            ofails.append((msg, dict(kind="graph", seed=ctx.seed, index=i, stress=stress, repr=repr(g)[:1500])))
            if len(ofails) > 3:
                break
    # arrays referenced several times are stored once (exact count on a graph made only of arrays)
    for _ in range(ctx.budget(40, 1500)):
        arrs = [layout_variant(ctx.rng, k) for k in range(ctx.rng.randint(1, 5))]
        g = [ctx.rng.choice(arrs) for _ in range(ctx.rng.randint(2, 12))]
        g = [g, {"again": list(g)}, tuple(g[:2])]
        r = valuecheck.cycle(g)
        if r[0] != "ok":
            ofails.append((f"graph-not-persisted: {r[0]} {r[1]}", dict(kind="graph", repr=repr(g)[:500])))
            break
        _, members, _ = valuecheck.archive_parts(r[2])
        used = {id(x) for x in positions(g) if isinstance(x, np.ndarray)}
        if len([m for m in members if m.endswith(".npy")]) != len(used):
            ofails.append((f"stored-not-once: {len(used)} distinct arrays referenced {len(positions(g))} times but {len(members)} members",
                           dict(kind="graph", repr=repr(g)[:500])))
            break
    from ..iocheck import conclude

    conclude(ctx, lean_ok, [], ofails, "graph/C06")
    ctx.coverage.update(
        evaluations=n, distinct_nontrivial=len(set(sizes)),
        rule="object DAGs with 2-6 shared mutable objects (lists, dicts, sets, bytearrays, arrays, sparse, estimators, RNGs, object arrays) referenced from "
             "lists/tuples/dicts/object-array cells at depth <= 4; every second graph adds allocation stress (object arrays of 60-180 cells, masked-array "
             "views, defaultdict copies, hundreds of small containers); identity partitions of original and loaded graph compared position by position",
        samples=samples, max_positions=max(sizes or [0]), traces_validated_against_impl=n, wall=round(time.time() - t0, 1))
    ctx.assumptions += ["CPython allocation behaviour is sampled, not enumerated: the theorem quantifies over all allocation histories of the heap model"]


def replay(rep):
    print(json.dumps(rep, indent=1)[:2500])
    return 1
