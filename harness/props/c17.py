"""C17 — `skops convert` produces an equivalent, auditable archive."""
from __future__ import annotations

import json
import pickle
import time

from .. import fscheck, objgen, pyval
from ..compare import same
from ..objgen import U
from .c08 import zoo

REQUIRED = ["skeleton_inner", "skeleton_main", "failed_convert_untouched", "converted", "default_output_name", "default_output_name_no_suffix"]
OLD = b"previous content of the output path"
OUTPUTS = ["absent", "relative", "nested", "absolute", "missingdir"]


def output_arg(kind, sb, stem):
    w = sb.root / "w"
    return {
        "absent": (None, w / f"{stem}.skops"),
        "relative": ("conv.skops", w / "conv.skops"),
        "nested": ("sub/conv.skops", w / "sub" / "conv.skops"),
        "absolute": (str(sb.root / "abs" / "conv.skops"), sb.root / "abs" / "conv.skops"),
        "missingdir": ("nodir/conv.skops", w / "nodir" / "conv.skops"),
    }[kind]


INPUT_NAMES = ["model.pkl", "model.v1.pkl", "noext", ".hidden", "trailing.", "ünï.pickle", "a.b.c.d"]


def run_case(ctx, name, obj, cfg):
    from skops.io import dumps, get_untrusted_types, loads

    out = dict(fails=[], mism=[], n=0)
    try:
        blob = pickle.dumps(obj)
        reference = pickle.loads(blob)
    except Exception:
        return out                       # not picklable: outside the property
    try:
        dumps(reference)
        dumpable = True
    except Exception:
        dumpable = False
    sb = fscheck.Sandbox()
    try:
        w = sb.root / "w"
        in_dir = {"cwd": w, "elsewhere": sb.root / "abs"}[cfg["input_dir"]]
        in_path = in_dir / cfg["input_name"]
        in_path.write_bytes(blob)
        stem = in_path.stem
        arg, dest = output_arg(cfg["output"], sb, stem)
        if cfg["dest_exists"] and dest.parent.is_dir():
            # sometimes an earlier, much larger file is in the way: what is written must replace it, not be laid over it
            dest.write_bytes(OLD * 40000 if cfg.get("old_big") else OLD)
        (w / "bystander.txt").write_bytes(b"x")
        before = sb.snapshot()
        in_arg = cfg["input_name"] if cfg["input_dir"] == "cwd" else str(in_path)

        def call():
            from skops.cli.entrypoint import main_cli

            # an earlier CLI call in the same process (other flags, another file) must not change what this one logs or writes
            for pre in cfg.get("before") or []:
                try:
                    main_cli(pre)
                except BaseException:
                    pass
            argv = ["convert", in_arg] + (["-o", arg] if arg is not None else []) + ["-v"] * cfg["verbosity"]
            main_cli(argv)

        pre_marker = None
        if cfg.get("before"):
            # the earlier calls work on their own pickle, written where the sandbox snapshot ignores nothing: account for it
            (sb.root / "abs" / "earlier.pkl").write_bytes(pickle.dumps({"earlier": [1, 2]}))
            before = sb.snapshot()
        code, res = fscheck.traced_call(sb, call, w, sb.systmp, capture_logs=True)
        after = sb.snapshot()
        if cfg.get("before"):
            # what the earlier calls themselves wrote or logged is not judged here
            for k in list(after["files"]):
                if k[-1].startswith("earlier"):
                    after["files"].pop(k, None)
                    before["files"].pop(k, None)
            res = dict(res or {}, logs=[l for l in (res or {}).get("logs", []) if "earlier" not in l[1]],
                       events=[e for e in (res or {}).get("events", []) if not any("earlier" in str(x) for x in e)])
        out["n"] = 1
        rep = dict(kind="convert", object=name, repr=repr(obj)[:400], config=cfg, output_arg=arg)
        if res is None or "child_error" in res:
            out["fails"].append((f"harness: child failed: {(res or {}).get('child_error', '')[-300:]}", rep))
            return out
        dkey = tuple(sb.rel(str(dest)))
        ikey = tuple(sb.rel(str(in_path)))
        changed = {k for k in set(before["files"]) | set(after["files"]) if before["files"].get(k) != after["files"].get(k)}
        new_dirs = set(after["dirs"]) ^ set(before["dirs"])
        ok = res["outcome"][0] == "ok"
        warnings = [m for lvl, m in res["logs"] if lvl == "WARNING"]
        if not dumpable or not dest.parent.is_dir():
            if ok and not dumpable:
                out["fails"].append((f"convert-of-unpersistable-succeeds: dumps() refuses the object but the CLI ended normally", rep))
            if changed or new_dirs:
                out["fails"].append((f"failed-convert-touches-files: the object cannot be persisted / the directory is missing, yet these paths "
                                     f"changed: {sorted(changed)[:3]} {sorted(new_dirs)[:3]}", rep))
        else:
            if not ok:
                out["fails"].append((f"convert-fails: a dumpable object was not converted: {res['outcome']}", rep))
            else:
                data = after["files"].get(dkey)
                if data is None:
                    out["fails"].append((f"output-missing: no archive at the expected output path {list(dkey)} "
                                         f"(created instead: {sorted(changed)[:3]})", rep))
                else:
                    try:
                        untrusted = get_untrusted_types(data=data)
                        got = loads(data, trusted=untrusted)
                        d = same(reference, got)
                        if d:
                            out["fails"].append((f"converted-object-differs: {d}", rep))
                    except Exception as ex:
                        untrusted = None
                        out["fails"].append((f"output-unloadable: the written archive cannot be loaded ({type(ex).__name__}: {str(ex)[:120]})", rep))
                    if untrusted is not None:
                        if untrusted and not warnings:
                            out["fails"].append((f"warning-missing: untrusted types {untrusted[:3]} but no warning was logged", rep))
                        if not untrusted and warnings:
                            out["fails"].append((f"warning-spurious: no untrusted types but a warning was logged: {warnings[0][:120]}", rep))
                        for u in untrusted:
                            if warnings and not any(u in m for m in warnings):
                                out["fails"].append((f"warning-incomplete: the warning does not list {u}", rep))
                                break
                        if warnings and untrusted:
                            # nothing but the untrusted types is listed
                            listed = warnings[0].split("unknown types were found: ")[-1].split(". When loading")[0].split(", ")
                            if sorted(listed) != sorted(untrusted):
                                out["fails"].append((f"warning-inexact: warning lists {listed[:4]} but the archive's untrusted types are {untrusted[:4]}", rep))
                if after["files"].get(ikey) != blob:
                    out["fails"].append(("input-altered: the pickle file changed", rep))
                if (changed - {dkey}) or new_dirs:
                    out["fails"].append((f"residue: paths other than the output changed: {sorted(changed - {dkey})[:3]} {sorted(new_dirs)[:3]}", rep))
        # ---- T2: model trace / logs / outcome for the same configuration
        events = fscheck.norm_events(res["events"])
        from pathlib import Path

        def pj(a):
            if a is None:
                return None
            p = Path(a)
            return dict(abs=p.is_absolute(), parts=sb.rel(str(p)) if p.is_absolute() else list(p.parts))

        try:
            untrusted_now = get_untrusted_types(data=dumps(reference)) if dumpable else []
        except Exception:
            untrusted_now = []
        m = ctx.driver.run([dict(op="fs.run", prog="convert", cwd=["w"], input=pj(in_arg), output=pj(arg), dumpable=dumpable,
                                 untrusted=untrusted_now, chunks=[[2]], fresh="x", sysTmp=sb.rel(str(sb.systmp)),
                                 dirs=[list(d) for d in before["dirs"]],
                                 files=[[list(p), [1] if c == OLD else [3]] for p, c in before["files"].items()])])[0]
        mt = fscheck.model_trace(m["trace"])
        failed_attempt = res["outcome"][0] == "raised" and mt == events[:-1]
        if mt != events and not failed_attempt:
            out["mism"].append(dict(what="file-operation trace differs from the model's", impl=events, model=mt, **rep))
        else:
            level = {0: 30, 1: 20, 2: 10}.get(cfg["verbosity"], 10)
            rank = dict(debug=10, info=20, warning=30, error=40)
            mlogs = [l.upper() for l in m["logs"] if rank[l] >= level]
            ilogs = [lvl for lvl, _ in res["logs"]]
            if cfg.get("before"):
                # logging.basicConfig takes effect once per process: after an earlier call the level below WARNING is whatever that
                # call chose (this is so on the pinned tree and C17 says nothing about it); records from WARNING up are compared
                mlogs = [l.upper() for l in m["logs"] if rank[l] >= 30]
                ilogs = [lvl for lvl in ilogs if rank.get(lvl.lower(), 0) >= 30]
            if mlogs != ilogs:
                out["mism"].append(dict(what=f"log records differ from the model's: {ilogs} vs {mlogs}", **rep))
            if (res["outcome"][0] == "ok") != (m["sig"] in ("next", "ret")):
                out["mism"].append(dict(what=f"outcome differs from the model's: {res['outcome']} vs {m['sig']}", **rep))
    finally:
        sb.cleanup()
    return out


# earlier CLI calls of the same process (their own file is the pickle EARLIER); flags the pinned CLI does not know end in a
# usage error there, which is an earlier call like any other
EARLIER_CALLS = [
    [["convert", "-q", "EARLIER"]], [["convert", "-vv", "EARLIER"]], [["update", "-q", "EARLIER"]],
    [["convert", "--quiet", "EARLIER"], ["update", "EARLIER"]], [["convert", "EARLIER", "-o", "earlier.skops"]],
    [["update", "-vv", "EARLIER"]], [["update", "EARLIER"], ["convert", "-v", "EARLIER"]],
]


def run(ctx):
    t0 = time.time()
    lean_ok = ctx.build(required_theorems=REQUIRED)
    # the CLI is imported here, in the harness's own working directory; every case then runs in a forked child that
    # changes directory first: "<cwd>" is the directory at the time of the call, not at import time
    import skops.cli.entrypoint  # noqa: F401
    import skops.cli._convert  # noqa: F401

    g = objgen.G(ctx.rng)
    r = ctx.rng
    objects = [(n, o) for n, o in zoo() if n not in ("method",)]
    import numpy as _np

    objects += [("none-key", {None: 1, "a": [type(None), {None: None}]}), ("method-wrapper", [1, {"k": _np.float64(1.5).__add__}]), ("enum-member", {"c": U.Color.RED, "l": [U.Color.RED]}), ("non-ascii-classes", [U.Modèle(1), {"k": getattr(U, "模型")(3)}, U.Plain(1, 2)]), ("user-plain", U.Plain(1, [2, {"k": (3, 4)}])), ("user-nested", {"a": [U.Plain(1, 2), U.WithGetstate(3)]}),
                ("user-slots", U.WithSlots(1, 2)), ("unpersistable-generator-attr", U.Plain(1, memoryview(b"ab")) if False else U.Plain(1, {1: "a", "1": "b"})),
                ("unpersistable-dok", __import__("scipy.sparse", fromlist=["x"]).dok_matrix((2, 2))),
                ("unpersistable-deep", [1, {"k": [U.RaisesGetstate()]}] if _picklable(U.RaisesGetstate()) else [1, {"k": {1: 0, "1": 1}}])]
    for i in range(ctx.budget(60, 4000)):
        v, sup = g.value(0, supported=(r.random() < 0.8))
        objects.append((f"gen{i}", v))
    # every kind of earlier call, each followed by a convert of an object with untrusted types at every verbosity
    history_cases = []
    for hi, pre in enumerate(EARLIER_CALLS):
        history_cases.append((f"after-earlier-call-{hi}", [U.Plain(hi, 2), {"k": U.WithGetstate(3)}], hi))
    ofails, mism = [], []
    n, hist = 0, {}
    samples = []
    objects = [(n, o) for n, o, _ in history_cases] + objects
    for i, (name, obj) in enumerate(objects):
        cfg = dict(output=OUTPUTS[i % len(OUTPUTS)] if i < 40 else r.choice(OUTPUTS), verbosity=i % 3, dest_exists=(i % 2 == 0),
                   input_name=INPUT_NAMES[i % len(INPUT_NAMES)], input_dir="cwd" if i % 4 else "elsewhere")
        cfg["old_big"] = cfg["dest_exists"] and i % 4 == 0
        if i % 5 == 3 or name.startswith("after-earlier-call-"):
            earlier = str(Path_(i))
            pick = EARLIER_CALLS[int(name.rsplit("-", 1)[1])] if name.startswith("after-earlier-call-") else r.choice(EARLIER_CALLS)
            cfg["before"] = [[earlier if a == "EARLIER" else a for a in call] for call in pick]
        try:
            res = run_case(ctx, name, obj, cfg)
        except Exception as ex:
            ofails.append((f"harness: {type(ex).__name__}: {ex}", dict(kind="convert", object=name)))
            break
        n += res["n"]
        if res["n"]:
            k = f"{cfg['output']}/v{cfg['verbosity']}/{'exists' if cfg['dest_exists'] else 'fresh'}"
            hist[k] = hist.get(k, 0) + 1
            if len(samples) < 2:
                samples.append(dict(object=name, config=cfg))
        ofails += res["fails"]
        mism += res["mism"]
        if len(ofails) > 4:
            break
    from ..iocheck import conclude

    conclude(ctx, lean_ok, mism, ofails, "convert/C17")
    ctx.coverage.update(
        evaluations=n, distinct_nontrivial=len(hist),
        rule="real CLI (`main_cli(['convert', ...])`) in a forked child: pickles of the zoo, user-class objects, unpersistable objects and generated "
             "values x output {absent, relative, nested, absolute, missing directory} x verbosity 0-2 x output pre-exists x 7 input names "
             "(stems with several dots, none, leading/trailing dot, non-ASCII) x input in cwd / elsewhere; loaded archive compared with the "
             "unpickled object, input bytes, residue, warning text vs get_untrusted_types; model: op trace, log levels, outcome",
        samples=samples, config_histogram=hist, correspondence_mismatches=len(mism), wall=round(time.time() - t0, 1))
    ctx.assumptions += ["pickle.load of the harness's own pickles is the reference ('equal to the unpickled one')",
                        "`-o ''` is treated like an absent option by the CLI and is not generated"]


def Path_(i):
    return "../abs/earlier.pkl"


def _picklable(o):
    try:
        pickle.dumps(o)
        return True
    except Exception:
        return False


def replay(rep):
    print(json.dumps(rep, indent=1, default=str)[:3000])
    return 1
