"""C03 — The audit verdict is exact and load enforces exactly that verdict."""
from __future__ import annotations

import importlib
import json
import os
import tempfile
import time
from pathlib import Path

from .. import ioarch, iocheck
from ..compare import same

REQUIRED = ["table_callerPlus", "flow_facts", "unsafe_under_T", "verdict_exact", "enlarging_T", "reported_sorted_nodup",
            "T_as_set", "C03_current"]


def as_types(names):
    """replace every name that denotes an importable class by the class object"""
    out = []
    for n in names:
        m, _, c = n.rpartition(".")
        try:
            obj = getattr(importlib.import_module(m), c)
            # reference naming (not skops' own helper): a type stands for "<module>.<__name__>", which is what dumps records
            if isinstance(obj, type) and f"{obj.__module__}.{obj.__name__}" == n:
                out.append(obj)
                continue
        except Exception:
            pass
        out.append(n)
    return out


def outcome(fn):
    from skops.io.exceptions import UntrustedTypesFoundException
    import re

    try:
        return ("ok", fn())
    except UntrustedTypesFoundException as ex:
        return ("untrusted", re.findall(r"'([^']*)'", str(ex)))
    except RecursionError:
        return ("error", "RecursionError")
    except Exception as ex:
        return ("error", type(ex).__name__)


def c03_oracle(c, tmpdir, rng):
    from skops.io import get_untrusted_types, load, loads

    fails = []
    p = Path(tmpdir) / "a.skops"
    p.write_bytes(c.data)
    u_data = outcome(lambda: get_untrusted_types(data=c.data))
    u_file = outcome(lambda: get_untrusted_types(file=p))
    u_str = outcome(lambda: get_untrusted_types(file=str(p)))
    if not (u_data == u_file == u_str):
        fails.append(f"data-vs-file: get_untrusted_types differs between data= ({u_data}) and file= ({u_file}, {u_str})")
    # trusted=True is always rejected
    for name, call in (("loads", lambda: loads(c.data, trusted=True)), ("load", lambda: load(p, trusted=True))):
        o = outcome(call)
        if o != ("error", "TypeError"):
            fails.append(f"true-accepted: {name}(trusted=True) gave {o[0]}/{o[1] if o[0] != 'ok' else '...'} instead of TypeError")
    if u_data[0] != "ok":
        return fails
    rep = u_data[1]
    if rep != sorted(set(rep)):
        fails.append(f"not-sorted-unique: get_untrusted_types returned {rep}")
    # exactness for several T
    Ts = [[], list(rep), rep[1:], rep[:-1], rep + ["x.y"], list(reversed(rep)) + rep[:1]]
    results = {}
    for T in Ts:
        missing = sorted(set(rep) - set(T))
        for form, arg in (("list", list(T)), ("tuple", tuple(T)), ("types", as_types(T))):
            o_s = outcome(lambda: loads(c.data, trusted=arg))
            if missing:
                if o_s[0] != "untrusted" or o_s[1] != missing:
                    fails.append(f"verdict-inexact: reported={rep} trusted={T} ({form}): expected UntrustedTypesFoundException{missing}, got {o_s[0]} {o_s[1] if o_s[0] != 'ok' else ''}")
                    break
            else:
                if o_s[0] == "untrusted":
                    fails.append(f"audit-blocks: reported={rep} trusted={T} ({form}) misses nothing but load raised UntrustedTypesFoundException{o_s[1]}")
                    break
                results.setdefault("ok", []).append((T, form, o_s))
        if not missing:
            o_f = outcome(lambda: load(p, trusted=list(T)))
            o_b = outcome(lambda: loads(c.data, trusted=list(T)))
            if o_f[0] != o_b[0] or (o_f[0] == "error" and o_f[1] != o_b[1]):
                fails.append(f"entry-points: load(path) gave {o_f[0]} but loads(bytes) gave {o_b[0]} for trusted={T}")
        if len(fails) > 2:
            return fails
    # one list object, edited in place between calls: every call is judged by what the list holds at that moment
    if rep:
        T_obj = []
        seq = [("empty", lambda: None), ("extended", lambda: T_obj.extend(rep)), ("one removed", lambda: T_obj.remove(rep[0])),
               ("restored", lambda: T_obj.append(rep[0])), ("cleared", lambda: T_obj.clear())]
        for label, edit in seq:
            edit()
            missing = sorted(set(rep) - set(T_obj))
            o = outcome(lambda: loads(c.data, trusted=T_obj))
            if missing and (o[0] != "untrusted" or o[1] != missing):
                fails.append(f"verdict-inexact: the same list object, {label} in place (now {list(T_obj)[:4]}): expected "
                             f"UntrustedTypesFoundException{missing[:4]}, got {o[0]} {o[1] if o[0] != 'ok' else ''}")
                break
            if not missing and o[0] == "untrusted":
                fails.append(f"audit-blocks: the same list object, {label} in place, misses nothing but load raised UntrustedTypesFoundException{o[1][:4]}")
                break
    # a container/type loader that names an array class calls e.g. numpy.ndarray(shape): uninitialised memory, an indeterminate value
    def indeterminate(st):
        if isinstance(st, dict):
            if st.get("__class__") in ("ndarray", "matrix", "memmap", "recarray", "chararray", "MaskedArray", "empty") and \
                    st.get("__loader__") not in ("NdArrayNode", "MaskedArrayNode"):
                return True
            return any(indeterminate(v) for v in st.values())
        if isinstance(st, list):
            return any(indeterminate(v) for v in st)
        return False

    if indeterminate(c.schema):
        results["ok"] = []
    # enlarging T never changes a successfully loaded result
    oks = [(T, form, o) for T, form, o in results.get("ok", []) if o[0] == "ok"]
    for (T1, f1, o1), (T2, f2, o2) in zip(oks, oks[1:]):
        d = same(o1[1], o2[1])
        if d:
            # a construct that is not deterministic by itself (e.g. `numpy.ndarray(())`: uninitialised memory) says nothing about T
            again = outcome(lambda: loads(c.data, trusted=list(T1)))
            if again[0] == "ok" and same(o1[1], again[1]):
                continue
        if d:
            fails.append(f"result-depends-on-T: loading with trusted={T1} ({f1}) and {T2} ({f2}) gives different objects: {d}")
            break
    errs = {o[1] for T, form, o in results.get("ok", []) if o[0] == "error"}
    if oks and errs:
        fails.append(f"result-depends-on-T: some sufficient trusted lists load, others raise {sorted(errs)}")
    return fails


def rng_choice(ctx, xs):
    return ctx.rng.choice(xs)


def run(ctx):
    t0 = time.time()
    lean_ok = ctx.build(required_theorems=REQUIRED)
    n = ctx.budget(250, 10000)
    if not lean_ok:
        n *= 3
    res = iocheck.run_engine(ctx, n)
    ofails = []
    d = tempfile.mkdtemp(prefix="verif-c03-")
    checked = 0
    # archives that report many names at once (messages / lists must stay exact however long they are)
    wide = []
    for n in (11, 12, 17, 40):
        items = [{"__class__": f"K{i:02d}", "__module__": f"verif_canary_dyn_w{n}", "__loader__": rng_choice(ctx, ["TypeNode", "FunctionNode", "ObjectNode"]),
                  "__id__": 1000 + i} for i in range(n)]
        schema = {"__class__": "list", "__module__": "builtins", "__loader__": "ListNode", "__id__": 1, "content": items,
                  "protocol": res["fx"]["protocol"], "_skops_version": "x"}
        c = iocheck.Case()
        c.schema, c.members, c.origin = schema, {}, "wide"
        c.data = ioarch.make_zip(schema, {})
        wide.append(c)
    from skops.io import dumps as _dumps
    from ..objgen import U as _U

    for label, obj in (("nested-class", [_U.Inner(3), {"k": _U.Inner(4)}]), ("user-classes", [_U.Plain(1, [2]), _U.WithGetstate(3), _U.Inner(5)]),
                       ("enum-and-nested", {"c": _U.Color.RED, "i": _U.Outer.Inner(1)})):
        c = iocheck.Case()
        try:
            c.data = _dumps(obj)
        except Exception:
            continue
        c.schema, _nm = ioarch.read_schema(c.data)
        c.members, c.origin = {}, "dump:" + label
        wide.append(c)
    try:
        for c in wide + res["cases"]:
            # the oracle loads with every reported name trusted: general-purpose callables are never handed out
            # (safety net of the harness; a blocked resolution is an ordinary error on every entry point alike)
            with ioarch.Recorder():
                msgs = c03_oracle(c, d, ctx.rng)
            for msg in msgs:
                ofails.append((msg, dict(kind="archive", schema=c.schema, members=sorted(c.members))))
            checked += 1
            if len(ofails) > 6:
                break
    finally:
        for f in Path(d).iterdir():
            f.unlink()
        os.rmdir(d)
    iocheck.conclude(ctx, lean_ok, [m for m in res["mismatches"] if "resolution" not in m["what"]], ofails, "io.load/C03")
    iocheck.std_coverage(ctx, res, dict(archives_with_full_T_matrix=checked, wall=round(time.time() - t0, 1)))


def replay(rep):
    ioarch.install_canaries()
    if rep.get("kind") != "archive" or "schema" not in rep:
        print(json.dumps(rep, indent=1)[:3000])
        return 1

    class C:
        pass
    c = C()
    c.data = ioarch.make_zip(rep["schema"], {m: b"garbage" for m in rep.get("members", [])})
    d = tempfile.mkdtemp(prefix="verif-c03-")
    try:
        import random

        fails = c03_oracle(c, d, random.Random(0))
    finally:
        for f in Path(d).iterdir():
            f.unlink()
        os.rmdir(d)
    for f in fails:
        print("ORACLE FAILURE:", f)
    return 1 if fails else 0
