"""C14 — Card content builders put the right content under the right heading."""
from __future__ import annotations

import re

from .. import card, cardcheck
from ..cardcheck import spec_split

REQUIRED = ["metrics_once", "metrics_latest", "metrics_order", "metrics_calls", "add_metrics_table",
            "add_plot_places", "alt_defaults_to_own_title", "add_table_places", "add_hyperparams_exact",
            "add_plot_single", "add_plot_multi", "add_table_single", "add_table_multi", "cells", "cell_unchanged"]

WEIGHTS = dict(add=12, add_plot=18, add_table=18, add_metrics=16, add_hyperparams=8, select=10, select_chain=1,
               delete=3, delete_list=1, set_visible=1, set_folded=3, render=5, toc=1, save=0)


def view(op, o):
    if o.get("r") == "sec":
        return ("sec", o["title"], o["content"], o["format"], o["kind"], o["folded"])
    if op["op"] == "card.render":
        return (o.get("r"), o.get("s"))
    if op["op"] in ("card.toc", "card.save"):
        return None
    return (o.get("r"), o.get("e"))


def token(cols):
    return "⟦TABLE" + "".join("⟦" + k + "".join("∥" + v for v in vs) + "⟧" for k, vs in cols) + "⟧"


def wrap(text, folded):
    return f"<details>\n<summary> Click to expand </summary>\n\n{text}\n\n</details>" if folded else text


def with_desc(desc, val):
    return f"{desc}\n\n{val}" if desc else val


def cellstr(v):
    return str(v).replace("\n", "<br />").replace("|", "\\|")


def colstr(k):
    return str(k).replace("|", "\\|")


def oracle(c, op, out, before, after, metrics_before):
    name = op["op"][5:]
    fails = []
    a = {p: tuple(rest) for p, *rest in after}
    if out.get("r") != "ok":
        return fails

    def sec_at(key):
        parts = tuple(spec_split(key))
        cur = c._data
        s = None
        for p in parts:
            s = cur.get(p)
            if s is None:
                return parts, None
            cur = s.subsections
        return parts, s

    if name == "add_table":
        last = {tuple(spec_split(k)): i for i, (k, _) in enumerate(op["items"])}
        for i, (key, tbl) in enumerate(op["items"]):
            if last[tuple(spec_split(key))] != i:
                continue                      # a later item of the same call overwrote this section
            parts, s = sec_at(key)
            if s is None:
                fails.append(f"table-place: add_table({key!r}) is not at {parts!r}")
                continue
            if s.title != parts[-1]:
                fails.append(f"table-title: add_table({key!r}) heading is {s.title!r}, last path part is {parts[-1]!r}")
            from ..card import table_values

            want = with_desc(op["description"] or "", wrap(token([(colstr(col), [cellstr(v) for v in vs]) for col, vs in table_values(tbl)]), op["folded"]))
            if s.format() != want:
                fails.append(f"table-cells: add_table({key!r}, as_df={op.get('as_df')}) renders {s.format()!r}, expected {want!r}")
    if name == "add_plot":
        last = {tuple(spec_split(k)): i for i, (k, _) in enumerate(op["items"])}
        for i, (key, path) in enumerate(op["items"]):
            if last[tuple(spec_split(key))] != i:
                continue
            parts, s = sec_at(key)
            if s is None:
                fails.append(f"plot-place: add_plot({key!r}) is not at {parts!r}")
                continue
            alt = op["alt_text"] or parts[-1] or path  # an empty title falls back to the path
            want = with_desc(op["description"] or "", wrap(f"![{alt}]({path})", op["folded"]))
            if s.title != parts[-1] or s.format() != want:
                fails.append(f"plot-format: add_plot({key!r}) gives title {s.title!r} / {s.format()!r}, expected {parts[-1]!r} / {want!r}")
    if name == "add_metrics":
        exp = dict(metrics_before)
        for k, v in op["items"]:
            exp[k] = v
        parts, s = sec_at(op["section"])
        if s is None:
            fails.append(f"metrics-place: add_metrics(section={op['section']!r}) is not at {parts!r}")
        else:
            cols = [("Metric", list(exp.keys())), ("Value", [cellstr(v) for v in exp.values()])]
            want = with_desc(op["description"] or "", token(cols))
            if s.title != parts[-1] or s.format() != want:
                fails.append(f"metrics-table: after add_metrics the table is {s.format()!r}, expected {want!r}")
    if name == "add_hyperparams":
        parts, s = sec_at(op["section"])
        if s is None:
            fails.append(f"hyper-place: add_hyperparams(section={op['section']!r}) is not at {parts!r}")
        else:
            cols = [("Hyperparameter", [k for k, _ in op["items"]]), ("Value", [cellstr(v) for _, v in op["items"]])]
            want = with_desc(op["description"] or "", wrap(token(cols), True))
            if s.title != parts[-1] or s.format() != want:
                fails.append(f"hyper-table: add_hyperparams renders {s.format()!r}, expected {want!r}")
    return fails


def expand(history):
    """several items in one call -> one call per item"""
    out = []
    for op in history:
        if op["op"] in ("card.add", "card.add_plot", "card.add_table") and len(op["items"]) > 1:
            for it in op["items"]:
                o = dict(op)
                o["items"] = [it]
                out.append(o)
        elif op["op"] == "card.add_metrics" and len(op["items"]) > 1:
            for it in op["items"]:
                o = dict(op)
                o["items"] = [it]
                out.append(o)
        else:
            out.append(op)
    return out


def multi_stream(ctx):
    """one call with several items == one call per item (compared on the implementation itself)"""
    from skops.card import Card

    n = ctx.budget(150, 4000)
    w = dict(add=10, add_plot=30, add_table=25, add_metrics=25, set_folded=5, delete=5)
    fails, evals = [], 0
    for _ in range(n):
        hist, outs = card.gen_history(ctx.rng, 12, w)
        if any(o.get("r") == "err" for o in outs):
            hist = [op for op, o in zip(hist, outs) if o.get("r") != "err"]
        h2 = expand(hist)
        evals += len(hist) + len(h2)

        def final(h):
            with card.patched_table():
                c = None
                for op in h:
                    if op["op"] == "card.new":
                        c = Card(card.StubModel(), template=None)
                    else:
                        card.exec_op(c, op)
                return c.render(), cardcheck.snapshot(c)

        if final(hist) != final(h2):
            small = card.shrink(hist, lambda h: final(h) != final(expand(h)))
            fails.append((small, len(small) - 1, "multi-vs-single: several items in one call give a different card than one call per item"))
            break
    return dict(evaluations=evals, oracle_fails=fails)


ROW = re.compile(r"^\|(.*)\|$")


def prettytable_stream(ctx):
    """side check with the REAL PrettyTable: for pipe-free single-line cells the markdown text parses
    back into the given header and one row per entry with the given cell texts"""
    from skops.card._model_card import TableSection

    rng = ctx.rng
    n = ctx.budget(200, 5000)
    fails, evals = [], 0
    pool = [1, 2.5, None, "s", "ünï", "a b", True, -3, "x<y", "日本", "a|b", "|", "m\nn"]
    for _ in range(n):
        ncols, nrows = rng.randint(1, 4), rng.randint(0, 4)
        names = rng.sample(["a", "b", "c d", "é", "Zeta", "n1", "p|q"], ncols)
        tbl = {nm: [rng.choice(pool) for _ in range(nrows)] for nm in names}
        if rng.random() < 0.4 and nrows:
            import pandas as pd

            arg = pd.DataFrame({k: pd.Series(v, dtype=object) for k, v in tbl.items()})
        else:
            arg = tbl
        text = TableSection(title="t", content="", table=arg).format()
        evals += 1
        lines = text.split("\n")
        rows = []
        for ln in lines:
            m = ROW.match(ln.strip())
            if not m:
                rows = None
                break
            # GFM: a cell boundary is a '|' that is not escaped
            rows.append([cell.strip().replace("\\|", "|") for cell in re.split(r"(?<!\\)\|", m.group(1))])
        ok = rows is not None and len(rows) == nrows + 2 and rows[0] == names and all(
            rows[i + 2] == [str(tbl[nm][i]).replace("\n", "<br />") for nm in names] for i in range(nrows))
        if not ok:
            fails.append(([dict(op="prettytable", table={k: [str(x) for x in v] for k, v in tbl.items()}, text=text)], 0,
                          "table-markdown: rendered markdown table does not parse back into header + one row per entry"))
            break
    return dict(evaluations=evals, oracle_fails=fails)


def _m(**kw):
    return dict(op="card.add_metrics", section="Metrics", description=None, items=[[k, v] for k, v in kw.items()])


def _t(key, cols):
    return dict(op="card.add_table", description=None, folded=False, as_df=False, items=[[key, cols]])


_NEW, _RENDER = dict(op="card.new"), dict(op="card.render")
SCENARIOS = [
    # a metric reported again with a value that compares equal but prints differently: the latest value is shown
    [_NEW, _m(acc=1), _m(acc=1.0), dict(op="card.select", key="Metrics"), _m(acc=True), dict(op="card.select", key="Metrics"), _RENDER],
    [_NEW, _m(z=0.0, a=0), _m(z=-0.0), dict(op="card.select", key="Metrics"), _m(a=False, z=0), dict(op="card.select", key="Metrics")],
    [_NEW, _m(f1="1"), _m(f1=1), _m(f1=1.0), dict(op="card.select", key="Metrics")],
    # numpy columns: a cell is the text of the element, whatever container the column came in
    [_NEW, _t("T", [["f32:a", [0.1, 2.5]], ["masked:b", [1, 2.5]]]), dict(op="card.select", key="T"), _t("U", [["i8:n", [1, 3]], ["f16:h", [0.1, 1e-3]]]),
     dict(op="card.select", key="U"), _RENDER],
]


def run(ctx):
    cardcheck.run_card_property(ctx, area="card.builders", required=REQUIRED, weights=WEIGHTS, view=view,
                                oracle=oracle, quick=(250, 25), thorough=(8000, 50),
                                extra_streams={"multi_vs_single": multi_stream, "real_prettytable": prettytable_stream},
                                scenarios=SCENARIOS)


def replay(rep):
    from ..cardcheck import Run

    h = rep["history"]
    if h and h[0]["op"] == "prettytable":
        print(h[0])
        return 1
    outs, fails = Run(oracle).run(h)
    for op, o in zip(h, outs):
        print(op, "->", str(o)[:300])
    for i, m in fails:
        print("ORACLE FAILURE at op", i, ":", m)
    return 1 if fails else 0
