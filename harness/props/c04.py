"""C04 — Persistence is faithful or it refuses: never a quietly different object."""
from __future__ import annotations

import json
import time

from .. import objgen, valuecheck
from ..common import load_findings
from ..compare import same

REQUIRED = ["not_faithful_witness", "faithful_or_refuses_partial", "restore_key_bool", "naive_restore_wrong", "collision_refused"]


def has_property_value(v, depth=0):
    if depth > 8:
        return False
    if isinstance(v, dict):
        return any(isinstance(x, property) or has_property_value(x, depth + 1) for x in v.values())
    if isinstance(v, (list, tuple)):
        return any(has_property_value(x, depth + 1) for x in v)
    if hasattr(v, "__dict__") and not isinstance(v, type):
        try:
            return has_property_value(vars(v), depth + 1)
        except Exception:
            return False
    return False


CONTAINERS = (dict, list, tuple, set, frozenset)


def has_container_attrs(v, depth=0):
    """an instance of a subclass of a builtin container that carries attributes of its own, anywhere inside v"""
    if depth > 8:
        return False
    if isinstance(v, CONTAINERS) and type(v) not in CONTAINERS and getattr(v, "__dict__", None):
        return True
    if isinstance(v, dict):
        return any(has_container_attrs(x, depth + 1) for x in v.values())
    if isinstance(v, (list, tuple)):
        return any(has_container_attrs(x, depth + 1) for x in v)
    if hasattr(v, "__dict__") and not isinstance(v, type):
        try:
            return has_container_attrs(vars(v), depth + 1)
        except Exception:
            return False
    return False


def container_attr_objects():
    """instances of container subclasses with attributes set on the instance (not restored by the constructor)"""
    from ..objgen import U

    d = U.MyDict(a=1, b=[2])
    d.tag = "t"
    l = U.MyList([1, 2])
    l.origin = {"file": "x.csv", "rows": 2}
    t = U.MyTuple((1, 2))
    t.unit = "m"
    return [("mydict-attr", d), ("mylist-attr", l), ("mytuple-attr", t), ("nested", {"k": [l, (d,)]}), ("in-object", U.Plain(d, 1))]


def check_value(v):
    before = valuecheck.snapshot(v)
    r = valuecheck.cycle(v)
    msgs = []
    if before is not None:
        d = same(before, v)
        if d:
            msgs.append(f"dump-mutates: the object was modified by dumps: {d}")
    if r[0] == "ok":
        d = same(v, r[1])
        if d:
            msgs.append(f"silently-different: dumps and loads succeeded but {d}")
    return msgs


def rebinding_scenario(ctx):
    """the classes and functions of a user module are re-created under the same names between two loads (importlib.reload, a re-run
    notebook cell): an object of the *new* class must come back as an instance of that new class"""
    import importlib

    from skops.io import dumps, get_untrusted_types, loads

    from ..objgen import U

    makers = [("Plain", lambda: U.Plain(1, [2])), ("WithGetstate", lambda: U.WithGetstate(3)), ("WithSlots", lambda: U.WithSlots(1, 2)),
              ("MyDict", lambda: U.MyDict(a=1)), ("MyList", lambda: U.MyList([1])), ("module_function", lambda: U.module_function),
              ("nested", lambda: {"k": [U.Plain(U.WithGetstate(1), 2)]}), ("type", lambda: U.Plain)]
    fails = []
    for rnd in range(2):
        for name, mk in makers:
            o = mk()
            r = valuecheck.cycle(o)
            if r[0] == "ok":
                d = same(o, r[1])
                if d:
                    fails.append((f"silently-different: after the module defining it was reloaded ({rnd} reloads, earlier loads of the same names in "
                                  f"this process), {name} loads as a different object: {d}",
                                  dict(kind="sequence", steps=["load objects of verif_userclasses", "importlib.reload(verif_userclasses)", f"dumps/loads {name}"])))
        importlib.reload(U)
    return fails[:2]


def run(ctx):
    t0 = time.time()
    lean_ok = ctx.build(required_theorems=REQUIRED)
    findings = [f for f in load_findings() if f["property"] == "C04" and f["status"] == "open"]
    g = objgen.G(ctx.rng)
    n = ctx.budget(1200, 60000)
    ofails, outcome = [], {}
    samples, distinct = [], set()
    known = set()
    for i in range(n):
        v, sup = g.value(0, supported=False)
        distinct.add(repr(v)[:160])
        if len(samples) < 3:
            samples.append(repr(v)[:300])
        try:
            msgs = check_value(v)
        except RecursionError:
            msgs = []
        for m in msgs:
            if m.startswith("silently-different") and has_property_value(v) and any(f["key"] == "dict-property-values-dropped" for f in findings):
                known.add("dict-property-values-dropped")
                continue
            ofails.append((m, dict(kind="value", repr=repr(v)[:2000], seed=ctx.seed, index=i)))
        if len(ofails) > 4:
            break
    # every odd maker at least once, at top level and one level deep
    for _ in range(ctx.budget(120, 4000)):
        v, _ = g.odd()
        for w in (v, [v], {"k": v}):
            try:
                msgs = check_value(w)
            except RecursionError:
                continue
            for m in msgs:
                if m.startswith("silently-different") and has_property_value(w):
                    known.add("dict-property-values-dropped")
                    continue
                ofails.append((m, dict(kind="value", repr=repr(w)[:2000], seed=ctx.seed)))
        if len(ofails) > 4:
            break
    # attributes set on instances of list/dict/tuple subclasses
    ATTR_KEY = "container-subclass-attributes-dropped"
    for name, w in container_attr_objects():
        try:
            msgs = check_value(w)
        except RecursionError:
            continue
        for m in msgs:
            if m.startswith("silently-different") and ".__dict__" in m and has_container_attrs(w) and any(f["key"] == ATTR_KEY for f in findings):
                known.add(ATTR_KEY)
                continue
            ofails.append((m, dict(kind="value", repr=repr(w)[:2000], object=name, seed=ctx.seed)))
    # values judged by the oracle only (numpy string keys are outside the key types of the value model)
    import numpy as _np

    for name, w in [("npstr-literal-like-keys", {_np.str_("true"): 1, _np.str_("1.50"): 2, _np.str_("null"): 3, _np.str_("NaN"): 4,
                                                  _np.str_("-0"): 5, _np.str_("1e3"): 6, _np.str_("a"): 7}),
                    ("npstr-keys-nested", [{"k": {_np.str_("01"): [1], _np.str_("1.0"): (2,)}}])]:
        try:
            for m in check_value(w):
                ofails.append((m, dict(kind="value", repr=repr(w)[:2000], object=name, seed=ctx.seed)))
        except RecursionError:
            pass
    for f in findings:
        if f["key"] == ATTR_KEY:
            if ATTR_KEY in known:
                ctx.known_finding(f["key"], f["what"])
            continue
        if f["key"] in known or f["key"] == "dict-property-values-dropped":
            # replay the recorded witness
            r = valuecheck.cycle({"p": property(lambda s: 1)})
            if r[0] == "ok" and r[1] == {}:
                ctx.known_finding(f["key"], f["what"])
    ofails += rebinding_scenario(ctx)
    from ..iocheck import conclude

    cvals = [g.value(0, supported=(i % 2 == 0))[0] for i in range(ctx.budget(500, 20000))]
    ncorr, mism = valuecheck.value_correspondence(ctx, cvals)
    ctx.coverage["model_vs_impl_values"] = ncorr
    ctx.coverage["correspondence_mismatches"] = len(mism)
    ctx.coverage["traces_validated_against_impl"] = ncorr
    conclude(ctx, lean_ok, mism, ofails, "value/C04")
    ctx.coverage.update(
        evaluations=n, distinct_nontrivial=len(distinct),
        rule="values from the full grammar (supported families plus frozenset, deque, Counter, range, namedtuple, tuple/list/dict/defaultdict subclasses, "
             "bool/None/tuple/colliding keys, property values, object arrays with sequence cells / empty axes / rank 0, dok/lil sparse, user classes with every "
             "__getstate__/__slots__/__reduce__ variant, bound methods, enums, iterators ...), nested; outcome must be refuse-or-faithful and the dumped object unchanged",
        samples=samples, wall=round(time.time() - t0, 1))


def replay(rep):
    print(json.dumps(rep, indent=1)[:2500])
    return 1
