"""C01 — Loading never uses code or objects the caller did not vouch for."""
from __future__ import annotations

import json
import time

from .. import ioarch, iocheck

REQUIRED = ["table_vouched", "table_ref_kinds_inert", "flow_facts", "audit_passed_only_vouched", "load_only_vouched", "load_only_vouched_refs",
            "load_archive_only_vouched", "C01_archive_current", "untrusted_no_events", "C01_current"]


def run(ctx):
    t0 = time.time()
    lean_ok = ctx.build(required_theorems=REQUIRED)
    n = ctx.budget(350, 12000)
    if not lean_ok:
        n *= 3
    res = iocheck.run_engine(ctx, n)
    ofails = []
    for c, T, r, m in res["obs"]:
        for msg in iocheck.c01_oracle(c, T, r, res["all_defaults"]):
            ofails.append((msg, dict(kind="archive", schema=c.schema, members=sorted(c.members), trusted=T)))
        if len(ofails) > 6:
            break

    def shrink(tag, rep):
        members = next(c.members for c in res["cases"] if c.schema == rep["schema"])

        def pred(s):
            data = ioarch.make_zip(s, members)
            r = ioarch.impl_load(data, rep["trusted"])

            class C:
                pass
            c = C()
            return any(x.split(":")[0] == tag for x in iocheck.c01_oracle(c, rep["trusted"], r, res["all_defaults"]))

        rep = dict(rep)
        rep["schema"] = iocheck.shrink_schema(rep["schema"], pred)
        return rep

    iocheck.conclude(ctx, lean_ok, res["mismatches"], ofails, "io.load/C01", shrink)
    iocheck.std_coverage(ctx, res, dict(wall=round(time.time() - t0, 1)))


def replay(rep):
    ioarch.install_canaries()
    from .. import iogen

    fx = iogen.facts()
    alld = set()
    for k in fx["kinds"]:
        alld |= set(k["trust"].get("defaults") or [])
    if rep.get("kind") != "archive" or "schema" not in rep:
        print(json.dumps(rep, indent=1)[:3000])
        return 1
    members = {m: b"garbage" for m in rep.get("members", [])}
    data = ioarch.make_zip(rep["schema"], members)
    r = ioarch.impl_load(data, rep.get("trusted"))
    print(json.dumps({k: v for k, v in r.items() if k != "raw_events"}, indent=1, default=str)[:3000])
    fails = iocheck.c01_oracle(None, rep.get("trusted"), r, alld)
    for f in fails:
        print("ORACLE FAILURE:", f)
    return 1 if fails else 0
