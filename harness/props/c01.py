"""C01 — Loading never uses code or objects the caller did not vouch for."""
from __future__ import annotations

import json
import time

from .. import ioarch, iocheck

REQUIRED = ["table_vouched", "table_ref_kinds_inert", "flow_facts", "audit_passed_only_vouched", "load_only_vouched", "load_only_vouched_refs",
            "load_archive_only_vouched", "C01_archive_current", "untrusted_no_events", "C01_current"]


def run(ctx):
    t0 = time.time()
    lean_ok = ctx.build(required_theorems=REQUIRED)
    n = ctx.budget(350, 12000)
    if not lean_ok:
        n *= 3
    res = iocheck.run_engine(ctx, n)
    ofails = []
    for c, T, r, m in res["obs"]:
        for msg in iocheck.c01_oracle(c, T, r, res["all_defaults"]):
            ofails.append((msg, dict(kind="archive", schema=c.schema, members=sorted(c.members), trusted=T)))
        if len(ofails) > 6:
            break

    # ---- sequences: an audit that raises half way, then an archive of the same shape naming unlisted code (whatever the first
    # call left behind - marks on nodes, ids in a table - must not let the second one through)
    from skops.io._protocol import PROTOCOL as _P

    def _lst(i, items):
        return {"__class__": "list", "__module__": "builtins", "__loader__": "ListNode", "__id__": i, "content": items}

    def _nest(inner, depth, base):
        for k in range(depth):
            inner = _lst(base + k, [inner])
        return dict(inner, protocol=_P, _skops_version="0")

    seq_runs = 0
    for depth in (1, 5, 20, 60):
        for rep_ in range(3):
            broken = {"__class__": None, "__module__": None, "__loader__": "ObjectNode", "__id__": 7,
                      "content": {"__class__": "dict", "__module__": "builtins", "__loader__": "DictNode", "__id__": 8, "content": {},
                                  "key_types": _lst(9, [])}}
            first = ioarch.make_zip(_nest(broken, depth, 100), {})
            fn = {"__class__": "boom", "__module__": f"verif_canary_dyn_{9000 + depth * 10 + rep_}", "__loader__": "FunctionNode", "__id__": 7}
            second_schema = _nest(fn, depth, 100)
            second = ioarch.make_zip(second_schema, {})
            for T in ([], None):
                ioarch.impl_load(first, T)                     # raises somewhere inside get_tree / the audit
                try:
                    ioarch.impl_untrusted(first)
                except Exception:
                    pass
                r2 = ioarch.impl_load(second, T)
                seq_runs += 1
                if r2["outcome"] == "ok" or r2["ledger"] or r2["events"]:
                    ofails.append((f"unvouched-resolution: after a load whose audit raised half way, loads(trusted={T!r}) of an archive of the same shape "
                                   f"(depth {depth}) naming {fn['__module__']}.boom ended with {r2['outcome']} and resolved {r2['events'][:2]} / ran {r2['ledger'][:2]}",
                                   dict(kind="sequence", first=_nest(broken, depth, 100), schema=second_schema, members=[], trusted=T)))
                    break
    ctx.coverage["failed_audit_then_load_sequences"] = seq_runs

    def shrink(tag, rep):
        if rep.get("kind") == "sequence":
            return rep
        members = next(c.members for c in res["cases"] if c.schema == rep["schema"])

        def pred(s):
            data = ioarch.make_zip(s, members)
            r = ioarch.impl_load(data, rep["trusted"])

            class C:
                pass
            c = C()
            return any(x.split(":")[0] == tag for x in iocheck.c01_oracle(c, rep["trusted"], r, res["all_defaults"]))

        rep = dict(rep)
        rep["schema"] = iocheck.shrink_schema(rep["schema"], pred)
        return rep

    iocheck.conclude(ctx, lean_ok, res["mismatches"], ofails, "io.load/C01", shrink)
    iocheck.std_coverage(ctx, res, dict(wall=round(time.time() - t0, 1)))


def replay(rep):
    ioarch.install_canaries()
    from .. import iogen

    fx = iogen.facts()
    alld = set()
    for k in fx["kinds"]:
        alld |= set(k["trust"].get("defaults") or [])
    if rep.get("kind") != "archive" or "schema" not in rep:
        print(json.dumps(rep, indent=1)[:3000])
        return 1
    members = {m: b"garbage" for m in rep.get("members", [])}
    data = ioarch.make_zip(rep["schema"], members)
    r = ioarch.impl_load(data, rep.get("trusted"))
    print(json.dumps({k: v for k, v in r.items() if k != "raw_events"}, indent=1, default=str)[:3000])
    fails = iocheck.c01_oracle(None, rep.get("trusted"), r, alld)
    for f in fails:
        print("ORACLE FAILURE:", f)
    return 1 if fails else 0
