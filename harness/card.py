"""Model-card side of the harness: history generator, implementation runner, oracle sentences.

An *op* is a JSON object in exactly the form the Lean driver reads (op = "card.<name>").
`run_impl(history)` executes it on a real `skops.card.Card`; `Driver().run(history)` on the model.
Both return one canonical JSON object per op.
"""
from __future__ import annotations

import os
import tempfile
from pathlib import Path

from .common import repo_on_path

repo_on_path()

RESERVED = {"self", "folded", "description", "alt_text", "section", "key"}

TITLE_ATOMS = [
    "A", "B", "C", "Model description", "a b", " x ", "x ", "\tt", "n\n", "é", "日本", "\U0001F600",
    "\\/", "a\\/b", "\\/a", "a\\/", "\\", "a\\", "\x1f", "a\x1fb", "\x1fa", " ", " z", "#h", "- l",
    "", " ", "A", "B",
    "a  b", "a\u00a0b", "a\tb", "x\u3000y", "95\u202f%", "two  spaces  twice", "R² per fold", "F₁ \\/ F₂", "µs", "…", "™", "Ａ", "e\u0301",
]


class RecTable:
    """Recording stand-in for prettytable.PrettyTable (layout is third-party and opaque)."""

    def __init__(self, *a, **k):
        self.cols = []
        self.style = None

    def set_style(self, s):
        self.style = s

    def add_column(self, key, values):
        self.cols.append((str(key), [str(v) for v in values]))

    def get_string(self, **k):
        tag = "TABLE" if getattr(self.style, "name", None) == "MARKDOWN" else f"TABLE?{self.style}"
        return "⟦" + tag + "".join("⟦" + k + "".join("∥" + v for v in vs) + "⟧" for k, vs in self.cols) + "⟧"


class StubModel:
    def __init__(self):
        self.params = {}

    def get_params(self, deep=True):
        assert deep is True
        return dict(self.params)

    def __repr__(self):
        return "StubModel()"


class EmptyLenModel(StubModel):
    """an estimator whose truth value is False although it has parameters (Pipeline([]) has __len__ 0)"""

    def __len__(self):
        return 0


class patched_table:
    def __enter__(self):
        import skops.card._model_card as mc

        self.mc = mc
        self.old = mc.PrettyTable
        mc.PrettyTable = RecTable
        return self

    def __exit__(self, *a):
        self.mc.PrettyTable = self.old


# ------------------------------------------------------------------------------------------
# generator


def gen_title(rng):
    r = rng.random()
    if r < 0.7:
        return rng.choice(TITLE_ATOMS)
    n = rng.randint(1, 4)
    return "".join(rng.choice(["a", "b", " ", "/", "\\", "\\/", "\t", "\x1f", "é", "x", "\n"]) for _ in range(n))


GHOSTS = []      # paths that existed earlier in the current history and were deleted since (set by gen_history)


def gen_path(rng, known):
    """a path string: mostly joins of titles, sometimes an existing path, sometimes decorated; after deletions also
    paths below something that was deleted (the same one, or a new sibling under the same vanished parent)"""
    r = rng.random()
    if GHOSTS and r < 0.12:
        p = rng.choice(GHOSTS)
        if "/" in p and rng.random() < 0.6:
            p = p.rsplit("/", 1)[0] + "/" + gen_title(rng)
        return p
    if known and r < 0.45:
        p = rng.choice(known)
        if rng.random() < 0.3:
            p = p + "/" + gen_title(rng)
        return p
    n = rng.choice([1, 1, 2, 2, 3, 4])
    parts = [gen_title(rng) for _ in range(n)]
    if rng.random() < 0.3:
        parts = [rng.choice(["", " ", "  "]) + p + rng.choice(["", " ", "\t"]) for p in parts]
    return "/".join(parts)


def gen_text(rng):
    return rng.choice(["", "text", "line1\nline2", "ünï", "x" * rng.randint(1, 5), "<b>h</b>", " ",
                       "line1\r\nline2", "line1\rline2", "text\r\n", "text\n"])


def gen_table(rng):
    ncols = rng.choice([0, 1, 1, 2, 2, 3])
    nrows = rng.choice([0, 1, 2, 3])
    cols = []
    names = rng.sample(["a", "b", "c d", "é", "x|y", "n\nl", "", "1"], ncols)
    for name in names:
        cells = [rng.choice([None, 1, 2.5, "s", "m\nn", "\n", "ü", float("nan"), True, "a|b", "",
                             0.0, -0.0, 1.0, 0, False, "1", "1.0"]) for _ in range(nrows)]
        if rng.random() < 0.2:
            # numeric column that the harness hands over as a numpy array (float32 / int8 / masked): see np_column()
            cells = [rng.choice([0.1, 1, 2.5, 1e-3, 3]) for _ in range(nrows)]
            name = rng.choice(["f32:", "i8:", "masked:", "f16:"]) + name
        cols.append((name, cells))
    return cols


def np_column(name, cells):
    """(column name, values as handed to add_table) for the `f32:`/`i8:`/`masked:`/`f16:` columns of gen_table"""
    import numpy as np

    tag, _, rest = name.partition(":")
    if tag == "f32":
        return rest, np.array(cells, dtype="float32")
    if tag == "f16":
        return rest, np.array(cells, dtype="float16")
    if tag == "i8":
        return rest, np.array([int(c) for c in cells], dtype="int8")
    if tag == "masked":
        return rest, np.ma.MaskedArray(np.array(cells, dtype="float64"), mask=[i % 2 == 0 for i in range(len(cells))])
    return name, list(cells)


def table_values(t):
    """the columns of one generated table as they are handed to Card.add_table"""
    out = []
    for c, vs in t:
        out.append(np_column(c, vs) if c.split(":")[0] in ("f32", "i8", "masked", "f16") and ":" in c else (c, list(vs)))
    return out


def gen_opt(rng, choices):
    return rng.choice([None, "", *choices])


def gen_op(rng, known, weights):
    kind = rng.choices(list(weights), weights=list(weights.values()))[0]
    if kind == "add":
        n = rng.choice([1, 1, 1, 2, 3])
        items, seen = [], set()
        for _ in range(n):
            k = gen_path(rng, known)
            if k in seen or k in RESERVED:
                continue
            seen.add(k)
            items.append([k, gen_text(rng)])
        return dict(op="card.add", folded=rng.random() < 0.3, items=items)
    if kind == "add_plot":
        n = rng.choice([1, 1, 2, 3])
        items, seen = [], set()
        for _ in range(n):
            k = gen_path(rng, known)
            if k in seen or k in RESERVED:
                continue
            seen.add(k)
            items.append([k, rng.choice(["p.png", "fig/a b.png", "", "q.jpg", "https://host/x.png", "./hist.png", "figures//a.png", "a/./b.png", "../up.png", "C:\\plots\\a.png"])])
        return dict(op="card.add_plot", description=gen_opt(rng, ["desc", "d\ne"]), alt_text=gen_opt(rng, ["ALT"]),
                    folded=rng.random() < 0.3, items=items)
    if kind == "add_table":
        n = rng.choice([1, 1, 2])
        items, seen = [], set()
        for _ in range(n):
            k = gen_path(rng, known)
            if k in seen or k in RESERVED:
                continue
            seen.add(k)
            items.append([k, gen_table(rng)])
        return dict(op="card.add_table", description=gen_opt(rng, ["tdesc"]), folded=rng.random() < 0.3,
                    items=items, as_df=rng.random() < 0.4)
    if kind == "add_metrics":
        names = rng.sample(["acc", "f1", "r 2", "é", "x/y", "", "acc "], rng.randint(0, 3))
        items = [[n, rng.choice([0.5, 1, "good", "m\nl", float("inf"), None, 1.0, True, 0, 0.0, -0.0, False, "1"])] for n in names if n not in RESERVED]
        return dict(op="card.add_metrics", section=gen_path(rng, known), description=gen_opt(rng, ["mdesc"]), items=items)
    if kind == "add_hyperparams":
        names = rng.sample(["alpha", "C", "est__n", "fit_intercept", "é"], rng.randint(0, 4))
        items = [[n, rng.choice([1, 0.1, None, True, "l2", "a\nb", 0.0, -0.0, 1.0, 0, False, "1"])] for n in names]
        return dict(op="card.add_hyperparams", section=gen_path(rng, known), description=gen_opt(rng, ["hdesc"]), items=items,
                    falsy_model=rng.random() < 0.3)
    if kind == "select":
        return dict(op="card.select", key=gen_path(rng, known))
    if kind == "select_chain":
        p = gen_path(rng, known)
        # split the path at random separators into a chain of keys
        keys, cur = [], ""
        for ch in p:
            if ch == "/" and not cur.endswith("\\") and rng.random() < 0.6:
                keys.append(cur)
                cur = ""
            else:
                cur += ch
        keys.append(cur)
        return {"op": "card.select_chain", "keys": keys}
    if kind == "delete":
        return dict(op="card.delete", key=gen_path(rng, known))
    if kind == "delete_list":
        n = rng.choice([0, 1, 2, 2, 3])
        if known and rng.random() < 0.6:
            from skops.card._model_card import split_subsection_names

            names = split_subsection_names(rng.choice(known))
        else:
            names = [gen_title(rng) for _ in range(n)]
        return dict(op="card.delete_list", names=names)
    if kind in ("set_visible", "set_folded"):
        return dict(op="card." + kind, key=gen_path(rng, known), value=rng.random() < 0.5)
    return dict(op="card." + kind)


DEFAULT_WEIGHTS = dict(add=30, add_plot=6, add_table=6, add_metrics=5, add_hyperparams=3, select=14, select_chain=6,
                       delete=8, delete_list=4, set_visible=5, set_folded=5, render=4, toc=4, save=1)


def known_paths(card):
    """escaped path strings of every section currently in the card"""
    out = []

    def esc(k):
        return k.replace("/", "\\/")

    def rec(d, prefix):
        for k, s in d.items():
            p = prefix + [esc(k)]
            out.append("/".join(p))
            rec(s.subsections, p)

    rec(card._data, [])
    return out


def gen_history(rng, length, weights=None):
    """Generates a history *while executing it on the implementation* (so that existing paths can be
    reused); returns (history, impl_outputs)."""
    from skops.card import Card

    weights = weights or DEFAULT_WEIGHTS
    hist = [dict(op="card.new")]
    with patched_table():
        card = Card(StubModel(), template=None)
        outs = [dict(r="ok")]
        ever = set()
        GHOSTS.clear()
        for _ in range(length):
            now = known_paths(card)
            ever |= set(now)
            GHOSTS[:] = sorted(ever - set(now))
            known = now if rng.random() < 0.8 else []
            op = gen_op(rng, known, weights)
            hist.append(op)
            outs.append(exec_op(card, op))
    return hist, outs


# ------------------------------------------------------------------------------------------
# implementation runner


def _sec_json(sec):
    from skops.card._model_card import PlotSection, TableSection

    kind = "plot" if isinstance(sec, PlotSection) else "table" if isinstance(sec, TableSection) else "text"
    return dict(r="sec", title=sec.title, content=sec.content, format=sec.format(), kind=kind,
                visible=bool(sec.visible), folded=bool(sec.folded), keys=list(sec.subsections.keys()))


def _cell(v):
    return str(v)


def model_view(op):
    """the op as sent to the Lean driver (cells/values stringified, harness-only fields dropped)"""
    o = dict(op)
    if o["op"] == "card.add_table":
        # a cell is the text of the element one gets by iterating the column that was handed over
        o["items"] = [[k, [[c, [_cell(v) for v in vs]] for c, vs in table_values(t)]] for k, t in o["items"]]
        o.pop("as_df", None)
    if o["op"] in ("card.add_metrics", "card.add_hyperparams"):
        o["items"] = [[k, _cell(v)] for k, v in o["items"]]
        o.pop("falsy_model", None)
    return o


def exec_op(card, op):
    name = op["op"][5:]
    try:
        if name == "add":
            card.add(folded=op["folded"], **{k: v for k, v in op["items"]})
            return dict(r="ok")
        if name == "add_plot":
            card.add_plot(description=op["description"], alt_text=op["alt_text"], folded=op["folded"],
                          **{k: v for k, v in op["items"]})
            return dict(r="ok")
        if name == "add_table":
            kw = {}
            for k, t in op["items"]:
                tv = table_values(t)
                plain = all(isinstance(vs, list) for _, vs in tv)
                if op.get("as_df") and plain and t and len({len(vs) for _, vs in t}) == 1:
                    import pandas as pd

                    kw[k] = pd.DataFrame({c: pd.Series(vs, dtype=object) for c, vs in tv})
                else:
                    kw[k] = {c: vs for c, vs in tv}
            card.add_table(description=op["description"], folded=op["folded"], **kw)
            return dict(r="ok")
        if name == "add_metrics":
            card.add_metrics(section=op["section"], description=op["description"], **{k: v for k, v in op["items"]})
            return dict(r="ok")
        if name == "add_hyperparams":
            if op.get("falsy_model"):
                card.model = EmptyLenModel()
                card.__dict__.pop("_model", None)      # the card caches the loaded model; get_model() drops it the same way
            card.model.params = {k: v for k, v in op["items"]}
            card.add_hyperparams(section=op["section"], description=op["description"])
            return dict(r="ok")
        if name == "select":
            return _sec_json(card.select(op["key"]))
        if name == "select_chain":
            s = card.select(op["keys"][0])
            for k in op["keys"][1:]:
                s = s.select(k)
            return _sec_json(s)
        if name == "delete":
            card.delete(op["key"])
            return dict(r="ok")
        if name == "delete_list":
            card.delete(list(op["names"]))
            return dict(r="ok")
        if name == "set_visible":
            card.select(op["key"]).visible = op["value"]
            return dict(r="ok")
        if name == "set_folded":
            card.select(op["key"]).folded = op["value"]
            return dict(r="ok")
        if name == "render":
            return dict(r="text", s=card.render())
        if name == "toc":
            return dict(r="text", s=card.get_toc())
        if name == "save":
            # always the same path: the file of the previous save (of this or another card) is still there
            # one path per thread, reused by every save of that thread (a save over an existing file is part of what is
            # checked; two threads writing the same file would be interference of the harness, not of the library)
            import threading

            sub = Path(save_dir()) / f"t{threading.get_ident()}"
            sub.mkdir(exist_ok=True)
            p = sub / "README.md"
            card.save(p)
            data = p.read_bytes()
            return dict(r="text", s=data.decode("utf-8"), rendered=card.render())
    except KeyError:
        return dict(r="err", e="KeyError")
    except ValueError:
        return dict(r="err", e="ValueError")
    except TypeError:
        return dict(r="err", e="TypeError")
    raise RuntimeError("unknown op " + name)


_SAVE_DIR = None


def save_dir():
    global _SAVE_DIR
    if _SAVE_DIR is None or not os.path.isdir(_SAVE_DIR):
        import atexit
        import shutil

        _SAVE_DIR = tempfile.mkdtemp(prefix="verif-card-")
        atexit.register(shutil.rmtree, _SAVE_DIR, True)
    return _SAVE_DIR


def run_impl(history):
    from skops.card import Card

    outs = []
    card = None
    with patched_table():
        for op in history:
            if op["op"] == "card.new":
                card = Card(StubModel(), template=None)
                outs.append(dict(r="ok"))
            else:
                outs.append(exec_op(card, op))
    return outs


def canon(o):
    o = dict(o)
    o.pop("rendered", None)
    return o


def shrink(history, still_fails, max_rounds=200):
    """delta-debugging by deleting ops (never the initial card.new) and items"""
    h = list(history)
    rounds = 0
    changed = True
    while changed and rounds < max_rounds:
        changed = False
        i = len(h) - 1
        while i >= 1 and rounds < max_rounds:
            cand = h[:i] + h[i + 1:]
            rounds += 1
            if still_fails(cand):
                h = cand
                changed = True
            i -= 1
    return h
