"""AST fingerprints of the hand-modelled functions.  A changed fingerprint is never a violation;
it only escalates the correspondence budget for that area (DESIGN section 1, T2)."""
from __future__ import annotations

import json

from .common import REPO, VERIF, ast_fingerprint

AREAS = {
    "card.tree": ("skops/card/_model_card.py", [
        "split_subsection_names", "Section.select", "Card.add", "Card._select", "Card.select", "Card.delete",
        "Card._add_single"]),
    "card.render": ("skops/card/_model_card.py", [
        "wrap_as_details", "Section.format", "PlotSection.format", "TableSection.format", "Card._generate_content",
        "Card._generate_card", "Card.save", "Card.render", "Card._iterate_key_section_content", "Card.get_toc"]),
    "card.builders": ("skops/card/_model_card.py", [
        "Card.add_plot", "Card.add_table", "Card.add_metrics", "Card._add_metrics", "Card.add_hyperparams",
        "Card._add_hyperparams", "TableSection._check_table", "PlotSection.__post_init__"]),
}
STORE = VERIF / "harness" / "fingerprints.json"


def current(area):
    path, names = AREAS[area]
    return ast_fingerprint(REPO / path, names)


def changed(area):
    """names whose fingerprint differs from the recorded one"""
    rec = json.loads(STORE.read_text()).get(area, {}) if STORE.exists() else {}
    cur = current(area)
    return sorted(n for n in cur if rec.get(n) != cur[n])


def record_all():
    STORE.write_text(json.dumps({a: current(a) for a in AREAS}, indent=1, sort_keys=True))


if __name__ == "__main__":
    record_all()
    print("recorded", STORE)
