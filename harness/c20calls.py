"""The API calls of C20 as data: a spec is a small picklable tuple, `execute(spec)` runs it on the real code and
returns a picklable, id-free result.  `python -m harness.c20calls <specfile> <index> <outfile>` executes one spec
as the first and only call of a fresh interpreter."""
from __future__ import annotations

import io
import pickle
import sys

from .common import VERIF, repo_on_path

repo_on_path()
sys.path.insert(0, str(VERIF / "harness" / "canary"))


def execute(spec):
    kind = spec[0]
    if kind == "dumps-expr":
        # objects that cannot be pickled into a spec are built from an expression over the importable user classes
        import numpy as np
        import verif_userclasses as U

        obj = eval(spec[1], {"U": U, "np": np})
        return execute(("dumps-obj", obj))
    if kind in ("dumps", "dumps-obj"):
        from skops.io import dumps

        from . import valuecheck
        from .props.c12 import normalised_members

        try:
            data = dumps(pickle.loads(spec[1]) if kind == "dumps" else spec[1])
        except Exception as ex:
            return ("raised", type(ex).__name__)
        schema, _, _ = valuecheck.archive_parts(data)
        ns, _ = valuecheck.normalise_schema(schema)
        return ("dumped", ns, normalised_members(data))
    if kind == "loads":
        from skops.io import loads

        try:
            return ("loaded", loads(spec[1], trusted=spec[2]))
        except Exception as ex:
            return ("raised", type(ex).__name__, str(ex)[:200])
    if kind == "untrusted":
        from skops.io import get_untrusted_types

        try:
            return ("names", get_untrusted_types(data=spec[1]))
        except Exception as ex:
            return ("raised", type(ex).__name__)
    if kind == "visualize":
        from skops.io import visualize

        rows = []

        def sink(nodes, show, **kw):
            for n in nodes:
                rows.append((n.level, n.key, n.val, n.is_self_safe, n.is_safe))

        try:
            visualize(spec[1], show=spec[2], trusted=spec[3], sink=sink)
            return ("rows", rows)
        except Exception as ex:
            return ("raised", type(ex).__name__, str(ex)[:200])
    if kind == "card":
        from . import card as cardmod

        from skops.card import Card

        # the real PrettyTable is used here: patching it is process-wide state of the harness itself
        outs, card = [], None
        for op in spec[1]:
            if op["op"] == "card.new":
                card = Card(cardmod.StubModel(), template=None)
                outs.append(dict(r="ok"))
            else:
                outs.append(cardmod.exec_op(card, op))
        return ("card", outs, card.render() if card is not None else None)
    if kind == "card-real":
        # a card with the real PrettyTable and the default template, metrics and a table
        from skops.card import Card

        import re

        from sklearn.linear_model import LinearRegression

        try:
            c = Card(LinearRegression(), **spec[1])
            for name, args, kw in spec[2]:
                getattr(c, name)(*args, **kw)
            c.render()
        except Exception as ex:
            return ("raised", type(ex).__name__)
        # scikit-learn numbers the elements of its HTML diagram with a process-wide counter: ids, not content
        text = re.sub(r"sk-(estimator|container)-id-\d+", r"sk-\1-id-N", c.render())
        return ("card-real", text, list(c._metrics.items()) if hasattr(c, "_metrics") else None)
    if kind == "card-file":
        # a card built from an archive on disk: Card(path, trusted=...) then hyper-parameters and rendering
        import re

        from skops.card import Card

        try:
            c = Card(spec[1], trusted=spec[2], template=None)
            c.add_hyperparams("Hyperparameters")
            if spec[3]:
                # what a user may do with *their* card's model; must not show in any other card
                c.get_model().set_params(**spec[3])
            text = re.sub(r"sk-(estimator|container)-id-\d+", r"sk-\1-id-N", c.render())
            # object addresses inside reprs are ids; the table is padded to the widest cell, so runs of blanks and dashes are collapsed
            def norm(t):
                return re.sub(r"-{3,}", "---", re.sub(r" {2,}", " ", re.sub(r" at 0x[0-9a-fA-F]+", " at 0xADDR", t)))

            return ("card-file", norm(text), norm(repr(c.get_model().get_params())))
        except Exception as ex:
            return ("raised", type(ex).__name__, str(ex)[:120])
    raise ValueError(kind)


def equal(a, b):
    """None if the two results are the same, else a description"""
    from .compare import same

    if a[0] != b[0]:
        return f"result kind {a[0]} vs {b[0]}"
    if a[0] == "loaded":
        # `a` came out of a fresh interpreter through pickle, which is not the identity on every value (an empty big-endian
        # masked array comes back in native byte order): the local result takes the same trip before the two are compared
        try:
            local = pickle.loads(pickle.dumps(b[1]))
        except Exception:
            local = b[1]
        return same(a[1], local)
    if a != b:
        for i, (x, y) in enumerate(zip(a, b)):
            if x != y:
                return f"component {i} differs: {repr(x)[:150]} vs {repr(y)[:150]}"
        return "results differ"
    return None


def main(argv):
    specs = pickle.load(open(argv[0], "rb"))
    res = execute(specs[int(argv[1])])
    with open(argv[2], "wb") as f:
        pickle.dump(res, f)
    return 0


if __name__ == "__main__":
    sys.exit(main(sys.argv[1:]))
