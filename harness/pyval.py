"""Python value <-> the Lean `PyVal` encoding, and real schema -> the Lean `Sch` summary."""
from __future__ import annotations

import collections
import json

import numpy as np


def scalar(v):
    if v is None:
        return ["none"]
    if isinstance(v, bool):
        return ["bool", v]
    if isinstance(v, int):
        return ["int", str(v)]
    if isinstance(v, float):
        return ["float", json.dumps(v)]
    if isinstance(v, str):
        return ["str", v]
    raise TypeError(v)


def type_name(t):
    from skops.io._utils import get_type_name

    return get_type_name(t)


def key(k):
    if isinstance(k, (bool,)):
        return ["bool", k]
    if isinstance(k, np.bool_):
        return ["npbool", bool(k)]
    if k is None:
        return None               # outside the modelled grammar (refused at load: builtins.NoneType does not resolve)
    if isinstance(k, np.integer):
        return ["npint", type_name(type(k)), str(int(k))]
    if isinstance(k, np.floating):
        return ["npfloat", type_name(type(k)), json.dumps(k.item())]
    if isinstance(k, int):
        return ["int", str(k)]
    if isinstance(k, float):
        return ["float", json.dumps(k)]
    if isinstance(k, str):
        return ["str", k]
    return None


def is_namedtuple(t):
    b = t.__bases__
    if len(b) != 1 or b[0] != tuple:
        return False
    f = getattr(t, "_fields", None)
    return isinstance(f, tuple) and all(isinstance(n, str) for n in f)


def to_pyval(v):
    """the value in the model's grammar, or None when it (or something inside) is outside the modelled grammar"""
    if v is None or type(v) in (bool, int, float, str):
        return ["scalar", scalar(v)]
    if isinstance(v, property):
        return ["property"]
    t = type(v)
    if isinstance(v, list):
        items = [to_pyval(x) for x in v]
        if any(i is None for i in items) or (t is not list and (vars(v) if hasattr(v, "__dict__") else None)):
            return None
        return ["list", type_name(t), items]
    if isinstance(v, tuple):
        items = [to_pyval(x) for x in v]
        if any(i is None for i in items):
            return None
        if t is tuple:
            return ["tuple", items]
        if is_namedtuple(t):
            return ["namedtuple", "nt:" + type_name(t), items]
        return ["tuplesub", type_name(t), items]
    if isinstance(v, set):
        # sets are unordered: canonical order on both sides
        items = [to_pyval(x) for x in v]
        return None if any(i is None for i in items) else ["set", type_name(t), sorted(items, key=json.dumps)]
    if t is frozenset:
        items = [to_pyval(x) for x in v]
        return None if any(i is None for i in items) else ["frozenset", sorted(items, key=json.dumps)]
    if isinstance(v, dict):
        es = []
        for k, x in v.items():
            kk, xx = key(k), to_pyval(x)
            if kk is None or xx is None:
                return None
            es.append([kk, xx])
        if isinstance(v, collections.defaultdict):
            f = v.default_factory
            if f is not None and not isinstance(f, type):
                return None
            return ["dict", ["default", type_name(t), "None" if f is None else type_name(f)], es]
        if t is dict:
            return ["dict", ["dict"], es]
        if t is collections.OrderedDict:
            return ["dict", ["ordered"], es]
        if getattr(v, "__dict__", None):
            return None
        return ["dict", ["sub", type_name(t)], es]
    if isinstance(v, np.ndarray) and v.dtype == object and type(v) is np.ndarray:
        cells = [to_pyval(x) for x in v.ravel(order="C").tolist()] if v.ndim else [to_pyval(v.item())]
        if any(c is None for c in cells):
            return None
        return ["objarray", list(v.shape), cells]
    if isinstance(v, np.dtype) and v.names and v.hasobject:
        return ["unsupported", "structured dtype with an object field"]      # refused at dump (its helper array is)
    if isinstance(v, np.ndarray) and v.dtype.names and v.dtype.hasobject:
        return ["unsupported", "record array with an object field"]
    if isinstance(v, (np.ndarray, np.generic, np.dtype, np.random.RandomState, np.random.Generator, bytes, bytearray, np.ufunc, type)):
        return ["opaque", type(v).__name__, ""]
    return None


def summarise(st):
    """real schema node -> the driver's `schJson` shape"""
    loader = st.get("__loader__")
    cls = f"{st.get('__module__')}.{st.get('__class__')}"
    if loader == "JsonNode":
        return ["json", scalar(json.loads(st["content"]))]
    if loader in ("ListNode", "TupleNode", "SetNode"):
        items = [summarise(x) for x in st["content"]]
        if loader == "SetNode":
            items = sorted(items, key=json.dumps)
        return ["seq", loader, cls, items]
    if loader == "ConstructorFromReduceNode":
        inner = summarise(st["content"])
        if cls == "builtins.frozenset" and inner[0] == "seq" and inner[3] and inner[3][0][0] == "seq":
            inner[3][0][3] = sorted(inner[3][0][3], key=json.dumps)
        return ["ctor", cls, inner]
    if loader == "DictNode":
        types = []
        for t in st["key_types"]["content"]:
            n = f"{t['__module__']}.{t['__class__']}"
            types.append({"builtins.str": "str", "builtins.int": "int", "builtins.float": "float", "builtins.bool": "bool",
                          "builtins.NoneType": "none", "numpy.bool": "npbool", "numpy.bool_": "npbool"}.get(
                n, ("npint:" + n) if "int" in n else ("npfloat:" + n)))
        return ["dict", cls, types, [[k, summarise(x)] for k, x in st["content"].items()]]
    if loader == "DefaultDictNode":
        f = st["content"]["default_factory"]
        fname = "None" if f.get("__loader__") == "JsonNode" else f"{f['__module__']}.{f['__class__']}"
        return ["ddict", cls, fname, summarise(st["content"]["main"])]
    if loader == "NdArrayNode" and st.get("type") == "json":
        shape = [json.loads(x["content"]) for x in st["shape"]["content"]]

        def flat(items, depth):
            if depth == len(shape) - 1:
                return [summarise(x) for x in items]
            out = []
            for x in items:
                out += flat(x["content"], depth + 1)
            return out

        return ["objarr", shape, flat(st["content"], 0)]
    return ["opaque", None]


def strip_opaque(s):
    """opaque family names are not compared (the model only knows that the leaf is opaque)"""
    if isinstance(s, list):
        if s and s[0] == "opaque":
            return ["opaque"]
        return [strip_opaque(x) for x in s]
    return s
